"""Single entry point:  ./check Cxx --tier quick|thorough | --replay FILE | --setup

Stages (DESIGN.md section 2.2):
  P  proof stage      : build coq/props/Cxx.v, audit Print Assumptions, grep gate
  C  correspondence   : generated cases -> implementation (/repo working tree) vs
                        Gallina model evaluated by vm_compute inside Coq
  S  failing-input search / property oracle on the implementation
Exit 0 iff nothing but listed known findings failed.
"""
import argparse
import hashlib
import importlib
import json
import multiprocessing as mp
import os
import random
import sys
import time
import traceback

from . import coqrun

VERIF = coqrun.VERIF
REPO = os.environ.get("VERIF_REPO", "/repo")
OUT = VERIF if os.path.realpath(REPO) == "/repo" else os.path.join(VERIF, ".work", "alt")
ALL_IDS = ["C%02d" % i for i in range(1, 21)]


# ------------------------------------------------------------------ utilities

def canon(x):
    return json.dumps(x, sort_keys=True, separators=(",", ":"), default=str)


def chash(x):
    return hashlib.sha1(canon(x).encode()).hexdigest()[:12]


from .tok import obs_to_tok as to_tok, norm as tok_norm, thash


def load_findings():
    """known_findings.json (committed, never written at run time) + per-property
    fragments known_findings.d/Cxx.json (same schema; merged view)."""
    out = []
    p = os.path.join(VERIF, "known_findings.json")
    if os.path.exists(p):
        out += json.load(open(p))["findings"]
    d = os.path.join(VERIF, "known_findings.d")
    if os.path.isdir(d):
        for f in sorted(os.listdir(d)):
            if f.endswith(".json"):
                out += json.load(open(os.path.join(d, f)))["findings"]
    return out


def load_regress(pid):
    d = os.path.join(VERIF, "corpus", "regress", pid)
    out = []
    if os.path.isdir(d):
        for f in sorted(os.listdir(d)):
            if f.endswith(".json"):
                c = json.load(open(os.path.join(d, f)))
                cs = c if isinstance(c, list) else [c]
                for i, x in enumerate(cs):
                    x.setdefault("name", "regress/%s#%d" % (f[:-5], i))
                    out.append(x)
    return out


# ------------------------------------------------------------------ worker side

_MOD = None


def _init_worker(pid):
    global _MOD
    import warnings
    warnings.filterwarnings("ignore")
    try:
        from rdkit import RDLogger
        RDLogger.DisableLog("rdApp.*")
    except Exception:
        pass
    _MOD = importlib.import_module("harness.props." + pid)
    if hasattr(_MOD, "worker_init"):
        _MOD.worker_init()


class _CaseTimeout(BaseException):
    """Raised by the per-case CPU budget (BaseException: a broad `except Exception` in the code under test cannot swallow it)."""


def _cpu_limited(fn, arg, limit):
    """fn(arg) under a budget of `limit` CPU-seconds of THIS process (ITIMER_PROF counts user+system time, so the budget
    does not depend on how busy the machine is).  A change to /repo that makes one call loop or blow up exponentially then
    costs one case, not the whole stage (the stage limit IMPL_TIMEOUT would drop every result).  limit None/0 = no budget."""
    if not limit:
        return fn(arg)
    import signal

    def _h(sig, frm):
        raise _CaseTimeout()
    old = signal.signal(signal.SIGPROF, _h)
    signal.setitimer(signal.ITIMER_PROF, float(limit), 2.0)      # repeating: fires again if the first one was swallowed
    try:
        return fn(arg)
    finally:
        signal.setitimer(signal.ITIMER_PROF, 0)
        signal.signal(signal.SIGPROF, old)


def _do_case(args):
    """Run implementation adapter and property oracle on one case."""
    case, want_oracle = args
    out = {}
    limit = getattr(_MOD, "CASE_CPU_LIMIT", 150) * float(os.environ.get("VERIF_CASE_CPU_SCALE", "1")) \
        if getattr(_MOD, "CASE_CPU_LIMIT", 150) else None
    try:
        out["obs"] = _cpu_limited(_MOD.impl, case, limit)
    except _CaseTimeout:
        out["obs"] = ["EXC", "CaseTimeout", "no answer within %s CPU-seconds" % limit]
        out["exc"] = "implementation adapter exceeded the per-case CPU budget"
    except Exception as e:  # an unexpected exception is an observable, never a pass
        out["obs"] = ["EXC", type(e).__name__, str(e)[:200]]
        out["exc"] = traceback.format_exc()[-1500:]
    if want_oracle and hasattr(_MOD, "oracle"):
        try:
            out["fail"] = _cpu_limited(_MOD.oracle, case, 2 * limit if limit else None) or []
        except _CaseTimeout:
            out["fail"] = [dict(clause="no-answer", detail="the property oracle (implementation calls + brute-force reference) did not "
                                "finish within %s CPU-seconds on this input" % (2 * limit))]
        except Exception as e:
            out["fail"] = [dict(clause="oracle-crash", detail=traceback.format_exc()[-1500:])]
    else:
        out["fail"] = []
    return out


def run_pool(pid, cases, want_oracle=True, procs=16, timeout=3000):
    if not cases:
        return []
    ctx = mp.get_context("fork")
    procs = max(1, min(procs, len(cases)))
    with ctx.Pool(procs, initializer=_init_worker, initargs=(pid,)) as pool:
        cs = max(1, min(50, len(cases) // (procs * 4) or 1))
        r = pool.map_async(_do_case, [(c, want_oracle) for c in cases], chunksize=cs)
        try:
            return r.get(timeout=timeout)
        except mp.TimeoutError:
            pool.terminate()
            # one timeout verdict for the whole run (reported once, as "property no longer shown to hold"),
            # never one oracle failure per case
            return [dict(obs=["TIMEOUT"], fail=[], timeout=timeout) for _ in cases]


# ------------------------------------------------------------------ the check

class Report:
    def __init__(self, pid, tier, seed):
        self.pid, self.tier, self.seed = pid, tier, seed
        self.lines = []
        self.violations = 0
        self.known = 0

    def violation(self, replay_obj, tag, nofail=False):
        h = chash(replay_obj)
        rel = os.path.join("replays", "%s-%s.json" % (self.pid, h))
        replay_obj = dict(replay_obj)
        replay_obj.update(property=self.pid, seed=self.seed, tier=self.tier,
                          replay_cmd="./check %s --replay %s" % (self.pid, rel))
        os.makedirs(os.path.join(OUT, "replays"), exist_ok=True)
        with open(os.path.join(OUT, rel), "w") as f:
            json.dump(replay_obj, f, indent=1, sort_keys=True, default=str)
        line = "VIOLATION property=%s replay=%s" % (self.pid, os.path.relpath(os.path.join(OUT, rel), VERIF))
        if nofail:
            line += " no-failing-input-found"
        print(line, flush=True)
        self.violations += 1

    def known_finding(self, what):
        print("KNOWN-FINDING: property=%s %s" % (self.pid, what), flush=True)
        self.known += 1


def match_finding(findings, pid, key):
    for f in findings:
        if f["property"] == pid and f.get("status") == "known" and f.get("key") == key:
            return f
    return None


def run_check(pid, tier, seed, replay=None):
    t0 = time.time()
    mod = importlib.import_module("harness.props." + pid)
    rep = Report(pid, tier, seed)
    findings = load_findings()
    times = {}

    # ---------------- stage P
    t = time.time()
    gate = coqrun.grep_gate()
    audit = coqrun.audit_props(pid, allow=getattr(mod, "ALLOWED_AXIOMS", ()))
    times["proof_s"] = round(time.time() - t, 2)
    proof_ok = audit["ok"] and not gate
    broken_thms = [th["name"] for th in audit["theorems"] if not th["closed"]]

    # ---------------- cases
    t = time.time()
    rng = random.Random(seed * 1000003 + int(pid[1:]))
    if replay is not None:
        rp = json.load(open(replay))
        cases = [rp["input"]] if rp.get("input") is not None else []
        for c in cases:
            c.setdefault("name", "replay")
    else:
        cases = load_regress(pid) + list(mod.gen_cases(tier, rng))
    for i, c in enumerate(cases):
        c.setdefault("name", "gen#%d" % i)
    times["gen_s"] = round(time.time() - t, 2)

    # ---------------- implementation + oracle
    t = time.time()
    want_oracle = True
    # time limits: per-module base, x4 for the thorough tier, x VERIF_TIMEOUT_SCALE on a loaded machine
    tscale = (4.0 if tier == "thorough" else 1.0) * float(os.environ.get("VERIF_TIMEOUT_SCALE", "1"))
    if tier == "thorough":       # per-case CPU budgets scale with the tier (inherited by the forked workers)
        os.environ["VERIF_CASE_CPU_SCALE"] = str(4.0 * float(os.environ.get("VERIF_CASE_CPU_SCALE", "1")))
    impl_timeout = int(getattr(mod, "IMPL_TIMEOUT", 3000) * tscale)
    coq_timeout = int(getattr(mod, "COQ_TIMEOUT", 1200) * tscale)
    outs = run_pool(pid, cases, want_oracle, timeout=impl_timeout)
    impl_timed_out = bool(outs) and all("timeout" in o for o in outs)
    times["impl_s"] = round(time.time() - t, 2)

    # ---------------- model
    t = time.time()
    terms, idx = [], []
    skipped = 0
    for i, c in enumerate(cases):
        if impl_timed_out:
            skipped += 1
            continue
        try:
            term = mod.coq_case(c)
        except Exception as e:
            term = None
            outs[i].setdefault("fail", []).append(dict(clause="encoder-crash", detail=traceback.format_exc()[-800:]))
        if term is None:
            skipped += 1
        else:
            terms.append(term)
            idx.append(i)
    model_ok = proof_or_model_ok(mod)
    if model_ok:
        mvals = coqrun.eval_terms(pid, mod.COQ_HEADER, terms, shard=getattr(mod, "SHARD", 300),
                                  timeout=coq_timeout, digest=True) if not impl_timed_out else []
    else:
        mvals = [("ERR", "model not built")] * len(terms)

    mismatches = []
    model_errs = []
    bad = []
    for k, (i, mv) in enumerate(zip(idx, mvals)):
        if isinstance(mv, tuple) and mv[0] == "ERR":
            model_errs.append((i, mv[1]))
            continue
        try:
            iv = to_tok(outs[i]["obs"])
        except TypeError as e:
            iv = ["UNENCODABLE", str(e)]
        if thash(iv) != mv:
            bad.append((k, i, iv))
    # second pass: full model observable for (a few of) the disagreeing cases
    full = coqrun.eval_terms(pid, mod.COQ_HEADER, [terms[k] for k, _, _ in bad[:8]], shard=1, tag="-full",
                             timeout=coq_timeout) if bad else []
    for n_, (k, i, iv) in enumerate(bad):
        mv = full[n_] if n_ < len(full) else None
        if isinstance(mv, tuple):
            mv = None
        mismatches.append((i, iv, tok_norm(mv) if mv is not None else None))
    times["model_s"] = round(time.time() - t, 2)

    # ---------------- verdicts
    concrete = 0
    seen_keys = set()
    for i, o in enumerate(outs):
        for fl in o.get("fail", []):
            key = fl.get("key") or (cases[i]["name"] + ":" + fl.get("clause", "?"))
            if key in seen_keys:
                continue
            seen_keys.add(key)
            kf = match_finding(findings, pid, key)
            if kf is not None:
                rep.known_finding("%s [%s]" % (kf["what"], key))
                continue
            concrete += 1
            if concrete <= 5:
                case = cases[i]
                if hasattr(mod, "shrink"):
                    try:
                        case = mod.shrink(case, fl) or case
                    except Exception:
                        pass
                rep.violation(dict(kind="impl-violation", clause=fl.get("clause"), input=case,
                                   detail=fl.get("detail"), key=key, broken=None), "oracle")
    if concrete > 5:
        print("(%d further failing inputs suppressed)" % (concrete - 5))
        rep.violations += concrete - 5

    if mismatches:
        # correspondence break: search neighbours of the disagreeing cases with the oracle
        found = concrete > 0
        if not found and hasattr(mod, "neighbours"):
            nb = []
            for i, iv, mv in mismatches[:20]:
                nb += mod.neighbours(cases[i], rng)
            nouts = run_pool(pid, nb, True)
            for c, o in zip(nb, nouts):
                for fl in o.get("fail", []):
                    key = fl.get("key") or ("neighbour:" + fl.get("clause", "?"))
                    if match_finding(findings, pid, key):
                        continue
                    rep.violation(dict(kind="impl-violation", clause=fl.get("clause"), input=c,
                                       detail=fl.get("detail"), key=key, broken="corr:" + pid), "oracle-neighbour")
                    found = True
                    break
                if found:
                    break
        if not found:
            i, iv, mv = mismatches[0]
            rep.violation(dict(kind="correspondence-break", clause=None, input=cases[i], expected_model=mv,
                               observed_impl=iv, broken="corr:%s (model coq/model/%s_Model.v vs implementation; %d of %d cases disagree)"
                               % (pid, pid, len(mismatches), len(idx)), impl_exc=outs[i].get("exc")),
                          "corr", nofail=True)
    if impl_timed_out:
        rep.violation(dict(kind="correspondence-break", clause=None, input=None,
                           detail="the implementation run (adapter + oracle over %d cases) exceeded its time limit of %d s; "
                                  "nothing was compared" % (len(cases), impl_timeout),
                           broken="corr:%s implementation run timed out" % pid), "timeout", nofail=True)
    if model_errs:
        i, msg = model_errs[0]
        rep.violation(dict(kind="correspondence-break", clause=None, input=cases[i], detail=msg,
                           broken="corr:%s model evaluation failed (%d cases)" % (pid, len(model_errs))), "model", nofail=True)
    if not proof_ok:
        if True:
            rep.violation(dict(kind="proof-break", clause=None, input=None,
                               broken="props/%s.v: %s" % (pid, ", ".join(broken_thms) or "does not compile / gate"),
                               gate=gate, log=audit["log"][-3000:]), "proof", nofail=(concrete == 0))

    # ---------------- evidence
    nontriv = set()
    dist = {}
    for i, c in enumerate(cases):
        try:
            if mod.nontrivial(c, outs[i]["obs"]):
                nontriv.add(chash({k: v for k, v in c.items() if k != "name"}))
        except Exception:
            pass
        k = c.get("kind", "case")
        dist[k] = dist.get(k, 0) + 1
    samples = []
    step = max(1, len(cases) // 4)
    for i in range(0, len(cases), step):
        d = dict(input=cases[i], observed=outs[i]["obs"])
        s = canon(d)
        if len(s) > 4000:
            d = dict(input_truncated=s[:4000])
        samples.append(d)
        if len(samples) >= 4:
            break
    extra = {}
    if hasattr(mod, "distribution"):
        try:
            extra = mod.distribution(cases, [o["obs"] for o in outs])
        except Exception as e:
            extra = {"distribution_error": str(e)}
    wall = round(time.time() - t0, 2)
    ev = dict(
        property_id=pid, tier=tier, seed=seed, level="proof",
        coverage=dict(
            obligations=audit["obligations"], discharged=audit["discharged"],
            checker_cmd="cd /verif/coq && make props/%s.vo && coqc -Q . SK props/%s.v  (Print Assumptions under every theorem; full .vo build, Coq 8.16.1)" % (pid, pid),
            trusted_base=getattr(mod, "TRUSTED_BASE", []),
            theorems=audit["theorems"],
            evaluations=len(cases), model_evaluations=len(idx) - len(model_errs),
            outside_model_domain=skipped,
            correspondence_mismatches=len(mismatches),
            oracle_failures=concrete, known_findings_hit=rep.known,
            distinct_nontrivial=len(nontriv),
            rule=getattr(mod, "RULE", ""),
            samples=samples,
            exhaustive=bool(getattr(mod, "EXHAUSTIVE", {}).get(tier, False)),
            explanation=getattr(mod, "EXPLANATION", ""),
            distribution=dict({("module_" + k if k == "kinds" else k): v for k, v in extra.items()}, kinds=dist),
            tested_not_proved=getattr(mod, "TESTED_NOT_PROVED", []),
            stage_times=times,
        ),
        assumptions=getattr(mod, "ASSUMPTIONS", []),
        wall_s=wall, violations=rep.violations,
    )
    if replay is None:
        os.makedirs(os.path.join(OUT, "evidence"), exist_ok=True)
        with open(os.path.join(OUT, "evidence", pid + ".json"), "w") as f:
            json.dump(ev, f, indent=1, sort_keys=True, default=str)
    print("%s %s seed=%d: theorems %d/%d, cases %d (model %d, nontrivial %d), mismatches %d, oracle failures %d, known %d, %.1fs"
          % (pid, tier, seed, audit["discharged"], audit["obligations"], len(cases), len(idx), len(nontriv),
             len(mismatches), concrete, rep.known, wall), flush=True)
    return 1 if rep.violations else 0


def proof_or_model_ok(mod):
    """The model file must build for the correspondence to run (it has no proofs inside)."""
    ok, log = coqrun.make(["model/%s_Model.vo" % mod.PID])
    if not ok:
        sys.stderr.write(log[-2000:])
    return ok


def setup():
    """Full .vo build of the Coq project (never -vos).  `make -k` so that one
    property's broken proof cannot hide the others; the per-property check
    re-audits its own props file and reports a proof break itself.  Setup fails
    only if the shared libraries do not build."""
    with coqrun.Lock():
        coqrun.ensure_makefile()
        import subprocess
        r = subprocess.run(["timeout", "3000", "make", "-k", "-j", "16"], cwd=coqrun.COQ, stdout=subprocess.PIPE,
                           stderr=subprocess.STDOUT, text=True)
    sys.stdout.write(r.stdout[-3000:])
    gate = coqrun.grep_gate()
    if gate:
        print("GATE HITS:", gate)
    libs_ok = all(os.path.exists(f[:-2] + ".vo") for f in coqrun.v_files() if os.sep + "lib" + os.sep in f)
    print("setup: make rc=%d libs_ok=%s" % (r.returncode, libs_ok))
    # warm the on-disk caches of exhaustive graph scopes
    try:
        from .gen import graphs
        for n in (1, 2, 3, 4):
            graphs.iso_classes(n, graphs.MOL_NODE_LABELS, graphs.MOL_EDGE_LABELS)
            graphs.iso_classes(n, graphs.MOL_NODE_LABELS_NOH, graphs.MOL_EDGE_LABELS)
    except Exception as e:
        print("cache warm-up skipped:", e)
    return 0 if libs_ok else 2


def main():
    ap = argparse.ArgumentParser()
    ap.add_argument("pid", nargs="?")
    ap.add_argument("--tier", default=os.environ.get("VERIF_TIER", "quick"))
    ap.add_argument("--replay")
    ap.add_argument("--setup", action="store_true")
    a = ap.parse_args()
    if a.setup:
        sys.exit(setup())
    seed = int(os.environ.get("VERIF_SEED", "0"))
    if a.tier not in ("quick", "thorough"):
        a.tier = "quick"
    sys.exit(run_check(a.pid, a.tier, seed, replay=a.replay))


if __name__ == "__main__":
    main()
