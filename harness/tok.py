"""Python image of Coq's tok (lib/Tok.v): nested lists of ints.
Sets / dicts are lists starting with SETMARK and are sorted before comparison."""
SETMARK = -7777777


def _key(x):
    if isinstance(x, int):
        return (0, x)
    return (1, [_key(e) for e in x])


def norm(t):
    """Recursively sort every marked list (inner lists first)."""
    if isinstance(t, int):
        return t
    xs = [norm(e) for e in t]
    if xs and xs[0] == SETMARK:
        return [SETMARK] + sorted(xs[1:], key=_key)
    return xs


def to_tok(o):
    """Generic observable -> tok image.  bool->0/1, str->bytes, None->[],
    set/frozenset/dict -> marked, sorted."""
    if isinstance(o, bool):
        return 1 if o else 0
    if isinstance(o, int):
        return o
    if o is None:
        return []
    if isinstance(o, str):
        return list(o.encode())
    if isinstance(o, (list, tuple)):
        return [to_tok(x) for x in o]
    if isinstance(o, (set, frozenset)):
        return norm([SETMARK] + [to_tok(x) for x in o])
    if isinstance(o, dict):
        return norm([SETMARK] + [[to_tok(k), to_tok(v)] for k, v in o.items()])
    if isinstance(o, float):
        if o == int(o):
            return int(o)
        raise TypeError("non-integral float in observable: %r" % o)
    try:
        import numpy as np
        if isinstance(o, np.integer):
            return int(o)
        if isinstance(o, np.bool_):
            return 1 if o else 0
    except ImportError:
        pass
    raise TypeError("cannot encode %r" % (o,))


class SetObs(list):
    """JSON-able marker for 'this list is a set' inside observables
    (observables cross a process boundary as plain lists)."""


def S(xs):
    """Mark a list of already-JSON-able items as unordered."""
    return {"__set__": list(xs)}


def obs_to_tok(o):
    """Like to_tok but understands the {"__set__": [...]} marker produced by S()."""
    if isinstance(o, dict) and set(o.keys()) == {"__set__"}:
        return norm([SETMARK] + [obs_to_tok(x) for x in o["__set__"]])
    if isinstance(o, dict):
        return norm([SETMARK] + [[obs_to_tok(k), obs_to_tok(v)] for k, v in o.items()])
    if isinstance(o, (list, tuple)):
        return [obs_to_tok(x) for x in o]
    return to_tok(o)


# ---- 63-bit digest, mirror of lib/Tok.v [hash] -------------------------------
_M = (1 << 63) - 1


def _mix(t, v):
    x = (v + t * 0x1E3779B97F4A7C15) & _M
    x = ((x ^ (x >> 29)) * 0x3F58476D1CE4E5B9) & _M
    x = ((x ^ (x >> 32)) * 0x14D049BB133111EB) & _M
    return x ^ (x >> 31)


def thash(t):
    if isinstance(t, int):
        return _mix(1, t & _M)
    if t and isinstance(t[0], int) and t[0] == SETMARK:
        s = 0
        for x in t[1:]:
            s = (s + _mix(5, thash(x))) & _M
        return _mix(3, s)
    acc = 7
    for x in t:
        acc = _mix(acc, thash(x))
    return _mix(2, acc)
