"""C08 — graph canonicalisation is faithful and sound; the exact (nauty) back-end is invariant.

case kinds
  "graph"  {"g": G, "alts": [{"g": G', "same_ids": bool, "amap": "keep"|"rewrite"}], "others": [H, ...]}
           G = {"nodes": [[id, attrs], ...], "edges": [[u, v, attrs], ...]}  (insertion order = networkx order);
               "directed": true makes it a networkx.DiGraph whose edges are the arcs u -> v (model: coq/model/C08_Digraph.v)
           alts   = other presentations of the SAME abstract graph (re-inserted, possibly renumbered)
           others = different graphs (mutants) used for the soundness clause
  "batch"  {"graphs": [G, ...]}      soundness over a whole family (oracle only)
  "rule"   {"a": rsmi, "b": rsmi}    SynRule value-object clause (oracle only)

Observable of a "graph" case, per presentation (base + alts), compared with the Gallina model:
  generic : canonical graph (node/edge sets with every modelled attribute), serialisation string,
            serialisation of the re-canonicalised canonical graph (what CanonicalGraph hashes)
  wl/morgan: canonical graph + serialisation given the colour / label RANKS of the implementation (oracle input)
  nauty   : canonical permutation, best label string, EVERY _refine input/output (method wrapped), the list of
            minimal-label leaves, canonical graph, serialisation, serialisation after re-canonicalisation;
            graph_signature label, order-only permutation, orbits, canonical_form(max_depth = 0, 1, 2, N) of the base presentation
  all     : the canonical node ORDER of generic / wl / morgan (old ids in the order of the new ids; nodes tagged before the call)
plus the equality pattern of the signatures (digests) of all presentations/others against the model's
equality pattern of serialisation strings.
"""
import itertools
import random as random_module

from ..coqrun import cN, cZ, cbool, clist, cpair, copt
from ..tok import S

PID = "C08"
COQ_HEADER = ("From Coq Require Import List NArith ZArith.\nImport ListNotations.\n"
              "From SK Require Import lib.Tok lib.LGraph model.C08_Model model.C08_Digraph model.C08_Sel model.C08_Obs model.C08_Rule2.\n")
SHARD = 60
BATCH_MODEL_MAX = 60
BACKENDS = ["generic", "wl", "morgan", "nauty"]
NODE_KEYS = ("element", "charge", "aromatic", "hcount")
IMPL_TIMEOUT = 3000
COQ_TIMEOUT = 1500

RULE = ("labelled graphs presented with several node numberings / insertion orders / edge orientations, four back-ends; a case is "
        "non-trivial when two nodes have equal sort keys (element, charge, aromatic, hcount) - which includes every graph with a "
        "non-trivial automorphism on the covered attributes; distinct = distinct base presentations")
EXHAUSTIVE = {"quick": False, "thorough": False}
EXPLANATION = ("Exhaustive: every isomorphism class of graphs with <= 3 nodes (quick) / <= 4 nodes (thorough) over 2 elements x hcount{0,1} x "
               "bond orders {absent,1,2}, each re-inserted and renumbered; whole-family soundness batches (all classes with 3 and 4 nodes). "
               "Seeded: random graphs <= 9 nodes, symmetric families (cycles, K_mn, cube, Petersen, mixed-order skeletons), rule pairs. "
               "Digraphs (networkx.DiGraph): every class with <= 3 nodes over 2 elements, mirror pairs / directed cycles / antiparallel arcs / "
               "tournaments, seeded random digraphs <= 6 nodes, whole families of arc sets on three labelled atoms.")
TRUSTED_BASE = [
    "Coq 8.16.1 kernel + vm_compute (no native_compute)",
    "hand-written model coq/model/C08_Model.v tied to synkit/Graph/canon_graph.py, Graph/Canon/{canon_graph,nauty,canon_algs}.py, "
    "Graph/syn_graph.py (SynGraph/CanonicalGraph __eq__) by the per-run correspondence (canonical permutation, best label, every "
    "_refine call, serialisation strings, equality pattern of the digests, wrapper equality verdicts)",
    "harness encoder harness/props/C08.py (graph -> Gallina literal: element strings as code points, orders in half-units, "
    "WL colours / Morgan labels shipped as order-preserving ranks)",
    "networkx Graph / DiGraph semantics (one attribute dict per unordered pair resp. per arc, neighbors = successors and degree = in + out "
    "for a DiGraph, relabel_nodes); CPython str/tuple ordering, repr of int/float/bool/str",
    "SHA-256 truncated to 128 bits does not collide on the strings compared: explicit premise of C08_signature_sound_* and "
    "C08_value_objects_*; monitored on every run (equality pattern of the digests = equality pattern of the model's strings)",
]
ASSUMPTIONS = ["node ids are non-negative ints; element symbols are ASCII letters/digits/'*' (premise els_ok of the soundness and invariance "
               "theorems: the serialisation quotes them without escaping); charge/hcount ints, aromatic bool",
               "bond orders are half-integer floats or, in ITS / reaction-centre graphs, (before, after) pairs of them - one kind per graph "
               "(the exact back-end cannot compare a float with a tuple); standard_order a half-integer float; a missing "
               "standard_order is a covered value of its own (the signature prints 0 vs 0.0, the nauty label '' vs '0.0')",
               "undirected simple graphs without self-loops (networkx.Graph): premise wf of the theorems; or digraphs without self-loops "
               "(networkx.DiGraph, at most one arc per ordered pair, antiparallel arcs allowed): premise dwf of the C08_digraph_* theorems; "
               "multigraphs are outside the property (not examined)",
               "attribute values are compared as Python prints them: order=1 and order=1.0, hcount=3 and hcount=3.0, hcount=1 and hcount=True "
               "are ==-equal but give different signatures with every back-end (repr); the harness feeds floats for orders and ints / bools "
               "for node attributes, as SynKit's own graph builders do (audit A2-3)"]
TESTED_NOT_PROVED = ["wl / morgan, clause 'the signature is a function of the graph': C08_signature_function_wl_morgan takes ONE ranking for both "
                     "presentations - that the implementation's WL colours / Morgan labels do not depend on the insertion order is a hidden "
                     "premise, monitored only: the oracle clause sig-function/wl, sig-function/morgan demands equal signatures AND equal "
                     "canonical graphs for re-inserted same-id presentations on every case (audit A2-2: the theorem is PARTIAL for the clause)",
                     "SynRule: the REPAIRED equality (rc signature over both sides of typesGH, 4537ada) is modelled at the level of its VERDICT "
                     "(coq/model/C08_Rule2.v: the two-sided graph is encoded injectively as an ordinary graph and signed by the model of the exact "
                     "back-end; the implementation runs the same search on tuple-valued attributes) and proved exact (C08_synrule_repaired_*); the "
                     "verdict matrices of all itsrule and rule cases are compared on every run.  Not modelled: the text of the tuple-valued "
                     "signature string itself, its_decompose and the hydrogen handling of the constructor (their RESULT is checked per rule: "
                     "the stored fragments are the projections left_of / right_of of the stored ITS graph), SynRule with the other back-ends "
                     "(oracle only).  The three-signature comparison of the one-sided graphs (pre-repair, today's fall-back for rc graphs without "
                     "typesGH) stays refuted as a characterisation of one bijection (C08_value_objects_synrule_refuted)",
                     "history / provenance independence: in the model a graph IS its node list and edge list (no graph-level attributes, no object "
                     "identity, no canonicaliser state), so the modelled functions cannot look at anything else by construction; that the "
                     "implementation does not either is checked by the oracle on every graph case (inputs derived from earlier outputs: "
                     "relabel_nodes / copy+edit / subgraph of canonical twins; graph-level attributes incl. tag look-alikes; the same graph and "
                     "canonicaliser objects run through all back-ends in sequence; wrappers built from the outputs of wrappers - each answer "
                     "compared with the answer for the same nodes and edges built from scratch)",
                     "WL colours and Morgan labels are external inputs of the model (any ranking): faithfulness, soundness and "
                     "'function of the graph given the ranking' are proved for every ranking; that the rankings themselves are a function "
                     "of the graph is only exercised by the oracle (no invariance is claimed for these back-ends)",
                     "SynRule: the decomposition of an ITS graph into (rc, left, right) and explicit-hydrogen stripping are outside the "
                     "model - the rule clause is proved for three fragment graphs (scalar or tuple-valued orders); "
                     "SynRule.__eq__ itself is evaluated against the model on rules assembled from fragment graphs (constructor "
                     "bypassed), real rules built from reaction SMILES are checked by the oracle only (45 rule cases)",
                     "whole-family soundness batches with more than 60 graphs (all 4-node classes) are oracle-only",
                     "NautyCanonicalizer with other node_attrs / edge_attrs selections than GraphCanonicaliser passes (edge_attrs=[order] is "
                     "modelled as the search on the graph without standard_order: the permutation is compared on every run), "
                     "GraphCanonicaliser options (wl_iterations, morgan_radius, node_attrs, custom sort keys), the twin "
                     "module synkit.Graph.Canon.canon_graph, canonicalise_graphs, CanonicalRule, SynRule.from_gml / canon=False: oracle only",
                     "graphs with node attributes absent on some nodes and graphs with string node ids: oracle only (the model's nodes carry "
                     "all four attributes and numeric ids); max_depth and the SynRule verdicts on DiGraph inputs: oracle only",
                     "hash() consistency of the wrappers (equal objects have equal hashes): oracle only"]


# ------------------------------------------------------------------ helpers (plain python)

def _half(x):
    v = float(x) * 2
    if v != int(v):
        raise ValueError("order %r is not a half-integer" % (x,))
    return int(v)


def _nx(g):
    import networkx as nx
    G = nx.DiGraph() if g.get("directed") else nx.Graph()
    for n, a in g["nodes"]:
        G.add_node(n, **a)
    for u, v, a in g["edges"]:
        a = dict(a)
        for k in ("order", "standard_order"):
            if k in a and isinstance(a[k], (list, tuple)):
                a[k] = tuple(float(x) for x in a[k])
            elif k in a:
                a[k] = float(a[k])
        G.add_edge(u, v, **a)
    return G


def _nkey(a):
    return (a.get("element", ""), a.get("charge", 0), a.get("aromatic", False), a.get("hcount", 0))


def _ekey(a):
    o = a.get("order", 0)
    if isinstance(o, (list, tuple)):
        o = tuple(float(x) for x in o)
    so = a.get("standard_order")
    return (o, None if so is None else float(so))


def _views(G, nf, ef):
    nodes = {n: nf(d) for n, d in G.nodes(data=True)}
    adj = {n: {} for n in nodes}
    if G.is_directed():
        # a pair of nodes joined in either direction: (value of the arc u -> v or None, value of the arc v -> u or None)
        for u, v, d in G.edges(data=True):
            back = ("arc", ef(G[v][u])) if G.has_edge(v, u) else None
            adj[u][v] = (("arc", ef(d)), back)
            adj[v][u] = (back, ("arc", ef(d)))
        return nodes, adj
    for u, v, d in G.edges(data=True):
        adj[u][v] = ef(d)
        adj[v][u] = ef(d)
    return nodes, adj


def _ends(G, u, v):
    return (u, v) if G.is_directed() else (min(u, v), max(u, v))


def _iso(A, B):
    """Independent backtracking isomorphism test on (nodes, adj) views: returns a mapping or None."""
    na, aa = A
    nb, ab = B
    if len(na) != len(nb) or sum(map(len, aa.values())) != sum(map(len, ab.values())):
        return None
    if sorted(map(repr, na.values())) != sorted(map(repr, nb.values())):
        return None
    order = sorted(na, key=lambda n: (-len(aa[n]), repr(na[n])))
    cand = {n: [m for m in nb if nb[m] == na[n] and len(ab[m]) == len(aa[n])] for n in order}
    f, used = {}, set()

    def go(k):
        if k == len(order):
            return True
        n = order[k]
        for m in cand[n]:
            if m in used:
                continue
            ok = True
            for p, e in aa[n].items():
                if p in f and (f[p] not in ab[m] or ab[m][f[p]] != e):
                    ok = False
                    break
            if ok:
                # non-edges must stay non-edges: degrees are equal and all mapped neighbours are matched, so count them
                if sum(1 for p in aa[n] if p in f) != sum(1 for q in ab[m] if q in used):
                    ok = False
            if ok:
                f[n] = m
                used.add(m)
                if go(k + 1):
                    return True
                del f[n]
                used.discard(m)
        return False

    return dict(f) if go(0) else None


def _cov(G):
    return _views(G, _nkey, _ekey)


def _nkey_p(a):
    """Presence-sensitive node value: an attribute that is absent is not the attribute with its default value (the exact
    back-end tells them apart; the signature prints the default) - used where the property speaks of ISOMORPHIC graphs."""
    return tuple(a.get(k, ("absent",)) for k in NODE_KEYS)


def _cov_p(G):
    return _views(G, _nkey_p, _ekey)


def _full(G, drop=()):
    def nf(d):
        return tuple(sorted((k, repr(v)) for k, v in d.items() if k not in drop))
    return _views(G, nf, lambda d: tuple(sorted((k, repr(v)) for k, v in d.items())))


def _abstract(G, drop=()):
    """The graph as a mathematical object (independent of insertion order / edge orientation)."""
    return (sorted((n, sorted((k, repr(v)) for k, v in d.items() if k not in drop)) for n, d in G.nodes(data=True)),
            sorted(_ends(G, u, v) + (sorted((k, repr(x)) for k, x in d.items()),) for u, v, d in G.edges(data=True)))


def _abstract_cov(G):
    """The graph on the attributes the signature covers."""
    return (sorted((n, _nkey(d)) for n, d in G.nodes(data=True)),
            sorted(_ends(G, u, v) + (_ekey(d),) for u, v, d in G.edges(data=True)))


def _n_aut_gt1_or_tied(g):
    keys = [_nkey(a) for _, a in g["nodes"]]
    if len(set(keys)) < len(keys):
        return True
    return False


def _canoniser(be):
    from synkit.Graph.canon_graph import GraphCanonicaliser
    return GraphCanonicaliser(backend=be)


def _quiet():
    # networkx >= 3.5 announces on every call that its WL hashes of DIRECTED graphs changed with that release
    import warnings
    warnings.filterwarnings("ignore", message="The hashes produced for directed graphs")


def worker_init():
    import logging
    logging.disable(logging.CRITICAL)
    _quiet()


# ------------------------------------------------------------------ implementation adapter

def _cg_obs(cg):
    nodes = []
    for n, d in cg.nodes(data=True):
        nodes.append([n, d["element"], bool(d["aromatic"]), d["charge"], d["hcount"],
                      ([d["atom_map"]] if "atom_map" in d else [])])
    edges = []
    for u, v, d in cg.edges(data=True):
        o = d["order"]
        edges.append(list(_ends(cg, u, v)) + [_half(o[0] if isinstance(o, tuple) else o),
                      ([_half(d["standard_order"])] if "standard_order" in d else []),
                      ([_half(o[1])] if isinstance(o, tuple) else [])])
    return [S(nodes), S(edges)]


def _wl_ranks(G):
    """The colours _canon_wl sorts by, obtained from the implementation's own call (wrapped), as ranks."""
    import synkit.Graph.canon_graph as M
    seen = {}
    orig = M._wl_hashes

    def wrapped(*a, **k):
        out = orig(*a, **k)
        seen.update({n: h[-1] for n, h in out.items()})
        return out
    M._wl_hashes = wrapped
    try:
        _canoniser("wl")._canon_wl(G)
    finally:
        M._wl_hashes = orig
    vals = sorted(set(seen.values()))
    return {n: vals.index(c) for n, c in seen.items()}


def _morgan_ranks(G, radius=3, attrs=("element", "aromatic", "charge", "hcount")):
    """Transcription of the label computation of canon_algs.canon_morgan (big integers), shipped as ranks."""
    import hashlib
    ns = sorted(G.nodes())
    primes, c = [], 2
    while len(primes) < len(ns):
        if all(c % p for p in primes):
            primes.append(c)
        c += 1
    lab = {}
    for i, n in enumerate(ns):
        t = "".join(str(G.nodes[n].get(a, "")) for a in attrs)
        lab[n] = primes[i] * int(hashlib.sha256(t.encode()).hexdigest()[:32], 16)
    for _ in range(radius):
        new = {}
        for n in G.nodes():
            p = lab[n]
            for m in G.neighbors(n):
                p *= lab[m]
            new[n] = p
        lab = new
    vals = sorted(set(lab.values()))
    return {n: vals.index(v) for n, v in lab.items()}


def _nauty_run(G, C):
    """Run the real search of the canonicaliser's own NautyCanonicalizer instance C with _refine wrapped:
    returns (perm, label, trace, auts)."""
    trace = []
    cls = type(C)
    orig = cls._refine

    def wrapped(self, G_, P):
        pin = [list(c) for c in P]
        out = orig(self, G_, P)
        trace.append([pin, [list(c) for c in out]])
        return out
    cls._refine = wrapped
    try:
        best = {"label": None, "perm": None}
        auts = []
        C._search(G, C._initial_partition(G), [], best, auts)
    finally:
        cls._refine = orig
    return best["perm"], best["label"], trace, auts


def _present(case):
    ps = [case["g"]] + [a["g"] for a in case.get("alts", [])]
    return ps


def in_model_domain(g):
    try:
        for n, a in g["nodes"]:
            if not (isinstance(n, int) and n >= 0):
                return False
            if set(a) - {"element", "charge", "aromatic", "hcount", "atom_map"} or not set(NODE_KEYS) <= set(a):
                return False
            e = a["element"]
            if not (isinstance(e, str) and e and all(c.isalnum() or c == "*" for c in e) and e.isascii()):
                return False
            if not (isinstance(a["charge"], int) and isinstance(a["hcount"], int) and isinstance(a["aromatic"], bool)):
                return False
            if "atom_map" in a and not isinstance(a["atom_map"], int):
                return False
        seen = set()
        kinds = set()
        ids = {n for n, _ in g["nodes"]}
        if len(ids) != len(g["nodes"]):
            return False
        for u, v, a in g["edges"]:
            pair = (u, v) if g.get("directed") else frozenset((u, v))
            if u == v or u not in ids or v not in ids or pair in seen:
                return False
            seen.add(pair)
            if set(a) - {"order", "standard_order"} or "order" not in a:
                return False
            o = a["order"]
            if isinstance(o, (list, tuple)):
                if len(o) != 2 or min(_half(o[0]), _half(o[1])) < 0:
                    return False
            elif _half(o) < 0:
                return False
            kinds.add(isinstance(o, (list, tuple)))
            if "standard_order" in a:
                _half(a["standard_order"])
        # scalar and tuple-valued orders in one graph cannot be compared by the exact back-end (TypeError): outside the domain
        return len(kinds) <= 1
    except (ValueError, TypeError):
        return False


def _pattern(xs):
    first = {}
    return [first.setdefault(x, len(first)) for x in xs]


RULE2_VARIANTS = ({}, {"implicit_h": False})


def _rule2_family(case):
    """The ITS graphs of a rule-level case: the family of an itsrule case, the two reactions of a rule case."""
    if case["kind"] == "itsrule":
        return [_nx_its(g) for g in case["rules"]]
    from synkit.IO.chem_converter import rsmi_to_its
    return [rsmi_to_its(case["a"]), rsmi_to_its(case["b"])]


def _rule2_objects(case):
    from synkit.Rule.syn_rule import SynRule
    c = _canoniser("nauty")
    return [[SynRule(G, canonicaliser=c, **kw) for G in _rule2_family(case)] for kw in RULE2_VARIANTS]


def _rule2_obs(case):
    """SynRule.__eq__ and equality of __hash__ for every pair i < j of the family (exact back-end), with and without implicit_h:
    compared with the model of the REPAIRED equality (coq/model/C08_Rule2.v: left, right and two-sided rc signature)."""
    out = []
    for rules in _rule2_objects(case):
        pairs = list(itertools.combinations(range(len(rules)), 2))
        # third component: the stored fragments are the projections of the stored ITS graph (the model checks it on the values the
        # implementation produced; the premise of C08_synrule_repaired_exact)
        out.append([[[bool(rules[i] == rules[j]) for i, j in pairs], [hash(rules[i]) == hash(rules[j]) for i, j in pairs]],
                    [True for _ in rules]])
    return out


def _crule2(rule):
    """Gallina literal (its, left, right) of a constructed SynRule; None outside the model domain."""
    def frag(G):
        g = {"nodes": [[n, {k: d[k] for k in ("element", "charge", "aromatic", "hcount", "atom_map") if k in d}] for n, d in G.nodes(data=True)],
             "edges": [[u, v, {k: d[k] for k in ("order", "standard_order") if k in d}] for u, v, d in G.edges(data=True)]}
        return _cgraph(g) if in_model_domain(g) else None
    R = rule.rc.raw
    ns = []
    for n, d in R.nodes(data=True):
        if not (isinstance(n, int) and n >= 0) or "typesGH" not in d:
            return None
        sides = []
        for t, am in zip(d["typesGH"], (d.get("atom_map"), None)):
            e, ar, hc, ch = t[0], t[1], t[2], t[3]
            if not (isinstance(e, str) and e and e.isascii() and e.isalnum() and isinstance(ar, bool) and isinstance(hc, int) and isinstance(ch, int)):
                return None
            sides.append("NA %s %s %s %s %s" % (_cstrN(e), cbool(ar), cZ(ch), cZ(hc), copt(cZ(am) if isinstance(am, int) else None)))
        ns.append("(%s, (%s, %s))" % (cN(n), sides[0], sides[1]))
    es = []
    seen = set()
    try:
        for u, v, d in R.edges(data=True):
            o = d.get("order")
            if u == v or frozenset((u, v)) in seen or not (isinstance(o, tuple) and len(o) == 2) or min(_half(o[0]), _half(o[1])) < 0:
                return None
            seen.add(frozenset((u, v)))
            so = copt(cZ(_half(d["standard_order"])) if "standard_order" in d else None)
            es.append("(%s, %s, EA3 %s %s %s)" % (cN(u), cN(v), cZ(_half(o[0])), so, copt(cZ(_half(o[1])))))
    except (ValueError, TypeError):
        return None
    left, right = frag(rule.left.raw), frag(rule.right.raw)
    if left is None or right is None:
        return None
    return "((LG %s %s : graph2), %s, %s)" % (clist(ns), clist(es), left, right)


def _rule2_term(case):
    fams = []
    for rules in _rule2_objects(case):
        lits = [_crule2(r) for r in rules]
        if any(x is None for x in lits):
            return None
        fams.append("run_rules2d %s" % clist(lits))
    return "L %s" % clist(fams)


def impl(case):
    _quiet()
    if case["kind"] in ("itsrule", "rule"):
        return _rule2_obs(case)
    if case["kind"] == "batch":
        Gs = [_nx(g) for g in case["graphs"]]
        return [_pattern([_canoniser(be).canonical_signature(G) for G in Gs]) for be in ("generic", "nauty")]
    if case["kind"] != "graph" or case.get("oracle_only"):
        return None
    out = []
    sigs = []
    for p in _present(case):
        G = _nx(p)
        row = []
        for be in BACKENDS:
            c = _canoniser(be)
            cg = c._make_canonical_graph(G)
            ser = c._serialise(cg)
            if be == "nauty":
                perm, label, trace, auts = _nauty_run(G, c.nauty)
                ser2 = c._serialise(c._make_canonical_graph(cg))
                row.append([perm, label, trace, auts, _cg_obs(cg), ser, ser2])
            elif be == "generic":
                ser2 = c._serialise(c._make_canonical_graph(cg))
                row.append([_cg_obs(cg), ser, ser2])
            else:
                row.append([_cg_obs(cg), ser])
            sigs.append(c.canonical_signature(G))
        out.append(row)
    for h in case.get("others", []):
        H = _nx(h)
        for be in ("generic", "nauty"):
            sigs.append(_canoniser(be).canonical_signature(H))
    # equality pattern of the digests (the model computes the pattern of the serialisation strings)
    pat = _pattern(sigs)
    # value objects: verdicts of the wrappers' __eq__ (base presentation against every other presentation / mutant)
    from synkit.Graph.canon_graph import CanonicalGraph
    from synkit.Graph.syn_graph import SynGraph
    G0 = _nx(case["g"])
    hs = [_nx(h) for h in [a["g"] for a in case.get("alts", [])] + list(case.get("others", []))]
    vo = [[] for _ in hs]
    for be in ("generic", "nauty"):
        c = _canoniser(be)
        sg0, cg0 = SynGraph(G0, c), CanonicalGraph(G0, c)
        for row, H in zip(vo, hs):
            row.append(bool(sg0 == SynGraph(H, c)))
            row.append(bool(cg0 == CanonicalGraph(H, c)))
    obs = [[[[[[out, pat], vo], _rule_vo(case)]] + _graph_sig_obs(case), _order_only_perms(case)], _orbits_obs(case)]
    if case["g"].get("directed"):
        return [obs, _orders_obs(case)]
    return [[[obs, _max_depth_obs(case)], _orders_obs(case)], _sel_obs(case)]


def _sel_cfgs(case):
    """The attribute selections of NautyCanonicalizer run against the model (coq/model/C08_Sel.v): on the cases that also get the
    multi-step oracle clauses; a selection that forgets node attributes is skipped on dense graphs (thousands of leaves)."""
    deep = case.get("sel", case.get("deep", case.get("sub") not in ("neighbour", "iso3", "iso4")))
    if not deep or len(case["g"]["nodes"]) > 12 or case["g"].get("directed"):
        return []
    # (all four node attributes, [order]) is in the model of every case already (run_case5: the search on strip_std g)
    return [(na, ea) for na, ea in NAUTY_CONFIGS[1:] if not (_dense(case["g"]) and (not na or len(na) < 4))]


def _sel_graphs(case):
    ren = [a["g"] for a in case.get("alts", []) if not a["same_ids"]][:1]
    return [case["g"]] + ren, list(case.get("others", []))[:1]


def _sel_obs(case):
    """Per selection: per graph (base presentation, first renumbered presentation) the canonical permutation, the best label and
    the reported permutations of the real search; the equality pattern of graph_signature over these graphs and one mutant."""
    from synkit.Graph.Canon.nauty import NautyCanonicalizer
    gs, others = _sel_graphs(case)
    out = []
    for na, ea in _sel_cfgs(case):
        nc = NautyCanonicalizer(node_attrs=na, edge_attrs=ea)
        rows = []
        for g in gs:
            G = _nx(g)
            best, auts = {"label": None, "perm": None}, []
            nc._search(G, nc._initial_partition(G), [], best, auts)
            rows.append([list(best["perm"] or []), best["label"] or "", [list(a) for a in auts]])
        out.append([rows, _pattern([nc.graph_signature(_nx(g)) for g in gs + others])])
    return out


_NSEL = {"element": "SEl", "aromatic": "SAr", "charge": "SCh", "hcount": "SHc"}
_ESEL = {"order": "SOrd", "standard_order": "SStd"}


def _ccfgs(cfgs):
    return clist(["(%s, %s)" % (clist([_NSEL[a] for a in (na or [])]), clist([_ESEL[a] for a in (ea or [])])) for na, ea in cfgs])


def _orders_obs(case):
    """The canonical node ORDER of the attribute-sort, wl and morgan back-ends per presentation (old ids in the order of the
    new ids 1..N): every node is tagged with its old id in an uncovered attribute, the tags are read back from the twin."""
    out = []
    for p in _present(case):
        G = _nx(p)
        for n in G.nodes:
            G.nodes[n]["_c08_orig"] = n
        row = []
        for be in ("generic", "wl", "morgan"):
            cg = _canoniser(be).make_canonical_graph(G)
            row.append([cg.nodes[k]["_c08_orig"] for k in sorted(cg.nodes)])
        out.append(row)
    return out


def _mds(case):
    # 0, 1, 2 abandon the search early (cheap); max_depth = number of nodes repeats the whole search (the guard must never
    # fire): only on graphs where that is cheap
    n = len(case["g"]["nodes"])
    return [0, 1, 2] + ([n] if n <= 6 else [])


def _max_depth_obs(case):
    """canonical_form(G, return_perm=True, max_depth=md) of the base presentation: [] for RuntimeError (search abandoned
    before any leaf), else [[perm, early_stop]]."""
    c = _canoniser("nauty")
    out = []
    for md in _mds(case):
        try:
            res = c.nauty.canonical_form(_nx(case["g"]), return_perm=True, max_depth=md)
            out.append([[list(res[1]), bool(res[2])]])
        except RuntimeError:
            out.append([])
    return out


def _graph_sig_obs(case):
    """NautyCanonicalizer.graph_signature: the label it hashes (per presentation) and the equality pattern of the digests."""
    c = _canoniser("nauty")
    labels, sigs = [], []
    for p in _present(case):
        G = _nx(p)
        Gc = c.nauty.canonical_form(G)
        labels.append(c.nauty._build_label(Gc, sorted(Gc.nodes())))
        sigs.append(c.nauty.graph_signature(G))
    for h in case.get("others", []):
        sigs.append(c.nauty.graph_signature(_nx(h)))
    return [labels, _pattern(sigs)]


def _orbits_obs(case):
    """canonical_form(return_orbits=True) / compute_orbits, per presentation, as a set of sets."""
    c = _canoniser("nauty")
    out = []
    for p in _present(case):
        res = c.nauty.canonical_form(_nx(p), return_aut=True, return_orbits=True)
        out.append(S([S(sorted(o)) for o in res[2]]))
    return out


def _order_only_perms(case):
    """Canonical permutation of NautyCanonicalizer with edge_attrs=["order"] (standard_order not selected), per presentation."""
    from synkit.Graph.Canon.nauty import NautyCanonicalizer
    nc = NautyCanonicalizer(node_attrs=["element", "aromatic", "charge", "hcount"], edge_attrs=["order"])
    return [list(nc.canonical_form(_nx(p), return_perm=True)[1]) for p in _present(case)]


RULE_VO_MAX_NODES = 6


def _rule_hs(case):
    """The graphs against which SynRule.__eq__ is exercised: one renumbered presentation and one mutant (small graphs only)."""
    if len(case["g"]["nodes"]) > RULE_VO_MAX_NODES or case["g"].get("directed"):
        return []
    ren = [a["g"] for a in case.get("alts", []) if not a["same_ids"]][:1]
    return ren + list(case.get("others", []))[:1]


def _mk_rule(rc, left, right, c):
    """A SynRule assembled from three fragment graphs: the tail of SynRule.__init__ (wrap + canonical_smiles) without the
    ITS decomposition, so that __eq__/_rc_signature run on graphs of the model domain."""
    from synkit.Rule.syn_rule import SynRule
    from synkit.Graph.syn_graph import SynGraph
    r = SynRule.__new__(SynRule)
    r._name, r._canon_enabled, r._implicit_h, r._canonicaliser = "r", True, False, c
    r.rc, r.left, r.right = SynGraph(rc, c), SynGraph(left, c), SynGraph(right, c)
    r.canonical_smiles = (r.left.signature, r.right.signature)
    return r


def _rule_vo(case):
    G0 = _nx(case["g"])
    hs = [_nx(h) for h in _rule_hs(case)]
    out = [[] for _ in hs]
    for be in ("generic", "nauty"):
        c = _canoniser(be)
        A = _mk_rule(G0, G0, G0, c)
        for row, H in zip(out, hs):
            row.append(bool(A == _mk_rule(H, G0, G0, c)))
            row.append(bool(A == _mk_rule(G0, H, G0, c)))
            row.append(bool(A == _mk_rule(G0, G0, H, c)))
    return out


# ------------------------------------------------------------------ model encoder

def _cstrN(s):
    return clist([cN(ord(ch)) for ch in s])


def _cgraph(g):
    ns = []
    for n, a in g["nodes"]:
        ns.append("(%s, NA %s %s %s %s %s)" % (cN(n), _cstrN(a["element"]), cbool(a["aromatic"]), cZ(a["charge"]), cZ(a["hcount"]),
                                               copt(cZ(a["atom_map"]) if "atom_map" in a else None)))
    es = []
    for u, v, a in g["edges"]:
        so = copt(cZ(_half(a["standard_order"])) if "standard_order" in a else None)
        if isinstance(a["order"], (list, tuple)):
            es.append("(%s, %s, EA3 %s %s %s)" % (cN(u), cN(v), cZ(_half(a["order"][0])), so, copt(cZ(_half(a["order"][1])))))
        else:
            es.append("(%s, %s, EA %s %s)" % (cN(u), cN(v), cZ(_half(a["order"])), so))
    return "(LG %s %s)" % (clist(ns), clist(es))


def _cranks(r, g):
    return clist(["(%s, %s)" % (cN(n), cZ(r[n])) for n, _ in g["nodes"]])


def coq_case(case):
    _quiet()
    if case["kind"] in ("itsrule", "rule"):
        return _rule2_term(case)
    if case["kind"] == "batch":
        # big whole-family batches stay oracle-only: a multi-MB Gallina literal costs minutes to parse and adds
        # nothing to what the per-graph cases of the same classes already compare
        if len(case["graphs"]) > BATCH_MODEL_MAX or not all(in_model_domain(g) for g in case["graphs"]):
            return None
        kinds = {bool(g.get("directed")) for g in case["graphs"]}
        if len(kinds) > 1:
            return None
        return "%s %s" % ("drun_batch" if kinds == {True} else "run_batch", clist([_cgraph(g) for g in case["graphs"]]))
    if case["kind"] != "graph" or case.get("oracle_only"):
        return None
    ps = _present(case)
    if not all(in_model_domain(p) for p in ps) or not all(in_model_domain(h) for h in case.get("others", [])):
        return None
    kinds = {bool(x.get("directed")) for x in ps + list(case.get("others", []))}
    if len(kinds) > 1:
        return None
    items = []
    for p in ps:
        G = _nx(p)
        items.append("(%s, %s, %s)" % (_cgraph(p), _cranks(_wl_ranks(G), p), _cranks(_morgan_ranks(G), p)))
    if kinds == {True}:
        # networkx.DiGraph inputs: the directed model (coq/model/C08_Digraph.v), same observable shape
        return "drun_case8 %s %s" % (clist(items), clist([_cgraph(h) for h in case.get("others", [])]))
    sgs, sothers = _sel_graphs(case)
    if not _sel_cfgs(case):
        sgs, sothers = [], []
    return "run_case9 %s %s %s %s %s %s %s" % (clist(items), clist([_cgraph(h) for h in case.get("others", [])]),
                                               clist([_cgraph(h) for h in _rule_hs(case)]), clist(["%d%%nat" % m for m in _mds(case)]),
                                               _ccfgs(_sel_cfgs(case)), clist([_cgraph(h) for h in sgs]), clist([_cgraph(h) for h in sothers]))


# ------------------------------------------------------------------ property oracle

def _fail(clause, detail, key=None):
    d = dict(clause=clause, detail=detail[:600])
    if key:
        d["key"] = key
    return d


def _oracle_graph(case):
    from synkit.Graph.canon_graph import CanonicalGraph
    from synkit.Graph.syn_graph import SynGraph
    fails = []
    base = case["g"]
    G = _nx(base)
    n = G.number_of_nodes()
    for be in BACKENDS:
        c = _canoniser(be)
        pres = [(base, dict(same_ids=True, amap="keep"))] + [(a["g"], a) for a in case.get("alts", [])]
        info = []
        for p, meta in pres:
            P = _nx(p)
            before = _abstract(P)
            cg = c.make_canonical_graph(P)
            if _abstract(P) != before:
                fails.append(_fail("faithful/%s" % be, "canonicalisation mutated its input"))
            # 1. faithful: the canonical graph is the input relabelled by a bijection, all attributes preserved
            if cg.number_of_nodes() != P.number_of_nodes() or _iso(_full(P), _full(cg)) is None:
                fails.append(_fail("faithful/%s" % be, "canonical graph is not the input relabelled with all attributes: in=%r out=%r"
                                   % (_abstract(P), _abstract(cg))))
            # 2. onto 1..N
            if sorted(cg.nodes) != list(range(1, P.number_of_nodes() + 1)):
                fails.append(_fail("onto-1..N/%s" % be, "canonical node ids %r for %d nodes; input %r" % (sorted(cg.nodes), P.number_of_nodes(), p)))
            s1 = c.canonical_signature(P)
            s2 = _canoniser(be).canonical_signature(_nx(p))
            if be == "nauty":
                # NautyCanonicalizer.graph_signature (digest of the label of the canonical graph) rides along with the signature
                s1 = s1 + "/" + c.nauty.graph_signature(P)
                s2 = s2 + "/" + _canoniser(be).nauty.graph_signature(_nx(p))
            if s1 != s2:
                fails.append(_fail("sig-function/%s" % be, "two evaluations on the same object gave %s / %s" % (s1, s2)))
            info.append((p, meta, P, cg, s1))
        p0, _, P0, cg0, s0 = info[0]
        for p, meta, P, cg, s in info[1:]:
            # 3. deterministic function of the graph: same graph (same ids), other insertion order / edge orientation
            if meta["same_ids"]:
                if s != s0:
                    fails.append(_fail("sig-function/%s" % be, "same graph inserted in another order: %s vs %s; A=%r B=%r" % (s0, s, p0, p)))
                if be != "nauty" and _abstract(cg) != _abstract(cg0):
                    fails.append(_fail("sig-function/%s" % be, "same graph inserted in another order gets another canonical graph; A=%r B=%r" % (p0, p)))
            # 4. exact back-end: invariance under renumbering / re-insertion
            if be == "nauty":
                if _abstract_cov(cg) != _abstract_cov(cg0):
                    fails.append(_fail("nauty-invariant", "isomorphic presentations get different canonical graphs: %r vs %r; A=%r B=%r"
                                       % (_abstract_cov(cg0), _abstract_cov(cg), p0, p)))
                if s != s0:
                    fails.append(_fail("nauty-invariant", "isomorphic presentations get different signatures; A=%r B=%r" % (p0, p)))
                if not (SynGraph(P, c) == SynGraph(P0, c)) or hash(SynGraph(P, c)) != hash(SynGraph(P0, c)):
                    fails.append(_fail("value-objects", "SynGraph wrappers of isomorphic graphs differ (nauty); A=%r B=%r" % (p0, p)))
                if not (CanonicalGraph(P, c) == CanonicalGraph(P0, c)) or hash(CanonicalGraph(P, c)) != hash(CanonicalGraph(P0, c)):
                    fails.append(_fail("value-objects", "CanonicalGraph wrappers of isomorphic graphs differ (nauty); A=%r B=%r" % (p0, p)))
        # 5. soundness: equal signature => isomorphic on the covered attributes
        for h in case.get("others", []):
            H = _nx(h)
            iso = _iso(_cov(P0), _cov(H)) is not None
            iso_p = iso and _iso(_cov_p(P0), _cov_p(H)) is not None
            sh = c.canonical_signature(H)
            if be == "nauty":
                gsh = c.nauty.graph_signature(H)
                if gsh == s0.split("/")[1] and not iso:
                    fails.append(_fail("sig-sound/nauty", "equal NautyCanonicalizer.graph_signature for non-isomorphic graphs A=%r B=%r" % (p0, h)))
                sh = sh + "/" + gsh
            if sh.split("/")[0] == s0.split("/")[0] and not iso:
                fails.append(_fail("sig-sound/%s" % be, "equal signatures for non-isomorphic graphs A=%r B=%r" % (p0, h)))
            if (SynGraph(H, c) == SynGraph(P0, c)) and not iso:
                fails.append(_fail("value-objects", "SynGraph equal for non-isomorphic graphs (%s) A=%r B=%r" % (be, p0, h)))
            if (CanonicalGraph(H, c) == CanonicalGraph(P0, c)) and not iso:
                fails.append(_fail("value-objects", "CanonicalGraph equal for non-isomorphic graphs (%s) A=%r B=%r" % (be, p0, h)))
            if be == "nauty" and iso_p and sh != s0:
                fails.append(_fail("nauty-invariant", "isomorphic graphs get different signatures; A=%r B=%r" % (p0, h)))
        if len(fails) >= 4:
            break
    # the multi-step clauses run on every case of the small / special populations, every 2nd random and every 4th iso3 / iso4 case
    deep = case.get("deep", case.get("sub") not in ("neighbour", "iso3", "iso4"))
    if len(fails) < 4 and deep and len(case["g"]["nodes"]) <= 16:
        _oracle_history(case, fails)
    if len(fails) < 4 and deep and len(case["g"]["nodes"]) <= 12:
        _oracle_nauty_direct(case, fails)
    if len(fails) < 4 and deep and len(case["g"]["nodes"]) <= 12:
        _oracle_surface(case, fails)
    if len(fails) < 4 and case.get("name") in XPROC_CASES:
        _oracle_other_process(case, fails)
    return fails[:4]


# the signature is a stored key ("stable digest"): it must not change from one interpreter run to the next.  Inside one process
# nothing can show a dependence on the per-process string-hash salt, so a few cases with several elements are recomputed in fresh
# interpreters started with other PYTHONHASHSEED values.
XPROC_CASES = {"size/chain24", "digraph/dipath12-ids-95", "family/C6-two-N", "degenerate/element-star-digits", "degenerate/negative-large"}
_XPROC_SCRIPT = """
import json, sys, logging, warnings
warnings.filterwarnings("ignore"); logging.disable(logging.CRITICAL)
from harness.props.C08 import _nx, _canoniser, BACKENDS
g = json.load(sys.stdin)
out = []
for be in BACKENDS:
    c = _canoniser(be)
    G = _nx(g)
    cg = c.make_canonical_graph(G)
    out.append([c.canonical_signature(G), sorted([n, sorted((k, repr(v)) for k, v in d.items())] for n, d in cg.nodes(data=True))])
out.append(_canoniser("nauty").nauty.graph_signature(_nx(g)))
json.dump(out, sys.stdout)
"""


def _oracle_other_process(case, fails):
    import json
    import os
    import subprocess
    import sys
    g = case["g"]
    here = []
    for be in BACKENDS:
        c = _canoniser(be)
        G = _nx(g)
        cg = c.make_canonical_graph(G)
        here.append([c.canonical_signature(G), sorted([n, sorted([k, repr(v)] for k, v in d.items())] for n, d in cg.nodes(data=True))])
    here.append(_canoniser("nauty").nauty.graph_signature(_nx(g)))
    for seed in ("1", "2"):
        env = dict(os.environ, PYTHONHASHSEED=seed)
        r = subprocess.run([sys.executable, "-c", _XPROC_SCRIPT], input=json.dumps(g), env=env, stdout=subprocess.PIPE,
                           stderr=subprocess.PIPE, text=True, timeout=600)
        if r.returncode != 0:
            fails.append(_fail("sig-function/other-process", "fresh interpreter (PYTHONHASHSEED=%s) failed: %s" % (seed, r.stderr[-300:])))
            return
        there = json.loads(r.stdout)
        for be, a, b in zip(BACKENDS + ["graph_signature"], here, there):
            if a != b:
                fails.append(_fail("sig-function/%s" % be, "another interpreter run (PYTHONHASHSEED=%s) gives another signature / canonical "
                                   "numbering: %r vs %r; input %r" % (seed, a if isinstance(a, str) else a[0], b if isinstance(b, str) else b[0], g)))
                return


def _dense(g):
    return len(g["nodes"]) > 6 and len(g["edges"]) > 2 * len(g["nodes"])


KEY_N0_N1 = "nauty-empty-selection:graph_signature:n0-vs-n1"


NAUTY_CONFIGS = [
    (["element", "aromatic", "charge", "hcount"], ["order"]),
    (["element", "aromatic", "charge", "hcount"], ["standard_order", "order"]),
    (["element"], ["order", "standard_order"]),
    (["hcount", "element"], []),
    (None, None),
]


def _sel_views(G, nattrs, eattrs):
    def nf(d):
        return tuple(repr(d.get(a)) for a in (nattrs or []))

    def ef(d):
        return tuple(repr(d.get(a)) for a in (eattrs or []))
    return _views(G, nf, ef)


def _oracle_nauty_direct(case, fails):
    """NautyCanonicalizer used directly: attribute selections (reduced / permuted / empty), canonical_form options,
    graph_signature - invariance over the presentations and soundness against the mutants on the SELECTED attributes."""
    from synkit.Graph.Canon.nauty import NautyCanonicalizer
    pres = [case["g"]] + [a["g"] for a in case.get("alts", [])]
    for na, ea in NAUTY_CONFIGS:
        if _dense(case["g"]) and (not na or len(na) < 4):
            continue        # a selection that forgets node attributes makes a dense graph maximally symmetric: thousands of leaves
        nc = NautyCanonicalizer(node_attrs=na, edge_attrs=ea)
        P0 = _nx(pres[0])
        v0 = _sel_views(P0, na, ea)
        gs0 = nc.graph_signature(P0)
        cf0 = _sel_views(nc.canonical_form(P0), na, ea)
        for p in pres[1:]:
            P = _nx(p)
            if nc.graph_signature(P) != gs0:
                fails.append(_fail("nauty-invariant", "NautyCanonicalizer(%r, %r).graph_signature differs for isomorphic presentations; A=%r B=%r" % (na, ea, pres[0], p)))
            cf = _sel_views(nc.canonical_form(P), na, ea)
            if cf != cf0:
                fails.append(_fail("nauty-invariant", "NautyCanonicalizer(%r, %r).canonical_form differs on the selected attributes for isomorphic presentations; A=%r B=%r" % (na, ea, pres[0], p)))
        for h in case.get("others", []):
            H = _nx(h)
            iso = _iso(v0, _sel_views(H, na, ea)) is not None
            same = nc.graph_signature(H) == gs0
            if same != iso:
                # known finding (theorem C08_nauty_empty_selection_graph_signature_refuted): with no node attribute selected the
                # label of the empty graph and of a single node are both "||"
                key = KEY_N0_N1 if (same and not na and {P0.number_of_nodes(), H.number_of_nodes()} == {0, 1}) else None
                fails.append(_fail("sig-sound/nauty" if same else "nauty-invariant",
                                   "NautyCanonicalizer(%r, %r).graph_signature %s but the graphs are %sisomorphic on the selected attributes; A=%r B=%r"
                                   % (na, ea, "equal" if same else "different", "" if iso else "NOT ", pres[0], h), key=key))
        if len(fails) >= 4:
            return
    # canonical_form options: positional / keyword, every combination of outputs consistent with the plain call
    nc = NautyCanonicalizer(["element", "aromatic", "charge", "hcount"], ["order", "standard_order"])
    P0 = _nx(pres[0])
    plain = nc.canonical_form(P0)
    res = nc.canonical_form(P0, True, False, True, True)          # return_aut, remap_aut, return_orbits, return_perm
    res2 = nc.canonical_form(P0, return_perm=True, return_orbits=True, return_aut=True, remap_aut=True)
    Gc, perm, auts, orbits, early = res
    n = P0.number_of_nodes()
    if _abstract(Gc) != _abstract(plain) or early or sorted(perm) != sorted(P0.nodes) or len(perm) != n:
        fails.append(_fail("faithful/nauty", "canonical_form with options differs from the plain call / perm is not a permutation; input %r" % (pres[0],)))
    elif _abstract(Gc) != _abstract(__import__("networkx").relabel_nodes(P0, {v: i + 1 for i, v in enumerate(perm)})):
        fails.append(_fail("faithful/nauty", "returned perm does not produce the returned canonical graph; input %r" % (pres[0],)))
    else:
        cv = _cov(P0)
        for a in auts:
            f = dict(zip(perm, a))
            nodes, adj = cv
            ok = sorted(f) == sorted(nodes) and sorted(f.values()) == sorted(nodes) and all(nodes[x] == nodes[f[x]] for x in nodes) \
                and all(adj[x].get(y) == adj[f[x]].get(f[y]) for x in nodes for y in nodes)
            if not ok:
                fails.append(_fail("nauty-invariant", "a reported automorphism is not an automorphism on the covered attributes; input %r aut %r" % (pres[0], a)))
                break
        if sorted(x for o in orbits for x in o) != sorted(P0.nodes):
            fails.append(_fail("nauty-invariant", "orbits do not partition the nodes; input %r orbits %r" % (pres[0], orbits)))
        m = {v: i + 1 for i, v in enumerate(perm)}
        if _abstract(res2[0]) != _abstract(plain) or res2[1] != perm or [[m[v] for v in a] for a in auts] != res2[2]:
            fails.append(_fail("faithful/nauty", "remap_aut / keyword call inconsistent with the positional call; input %r" % (pres[0],)))


def _oracle_surface(case, fails):
    """The rest of the public surface: the twin module synkit.Graph.Canon.canon_graph, aliases, constructor options
    (node_attrs reduced / permuted, wl_iterations, morgan_radius, custom sort keys), canonicalise_graph(s), SynGraph views."""
    import synkit.Graph.canon_graph as M1
    import synkit.Graph.Canon.canon_graph as M2
    from synkit.Graph.syn_graph import SynGraph
    pres = [case["g"]] + [a["g"] for a in case.get("alts", [])]
    P0 = _nx(pres[0])
    n = P0.number_of_nodes()
    base_sig = {}
    for be in BACKENDS:
        c1, c2 = M1.GraphCanonicaliser(backend=be), M2.GraphCanonicaliser(backend=be)
        s1 = c1.canonical_signature(P0)
        base_sig[be] = s1
        # twin module, aliases, wrappers' accessors
        if c2.canonical_signature(_nx(pres[0])) != s1 or _abstract(c2.make_canonical_graph(_nx(pres[0]))) != _abstract(c1._make_canonical_graph(P0)):
            fails.append(_fail("sig-function/%s" % be, "synkit.Graph.Canon.canon_graph and synkit.Graph.canon_graph disagree; input %r" % (pres[0],)))
        if c1.graph_canonical_hash(P0) != s1 or c1.canonicalise_graph(P0).canonical_hash != M1.CanonicalGraph(P0, c1).canonical_hash \
                or M2.CanonicalGraph(P0, c2).canonical_hash != M1.CanonicalGraph(P0, c1).canonical_hash:
            fails.append(_fail("value-objects", "alias / canonicalise_graph / twin-module CanonicalGraph disagree (%s); input %r" % (be, pres[0])))
        ws = c1.canonicalise_graphs([_nx(p) for p in pres] + [_nx(h) for h in case.get("others", [])])
        hs = [w.canonical_hash for w in ws]
        if hs != sorted(hs) or sorted(hs) != sorted(c1.canonical_signature(w.canonical_graph) for w in ws) \
                or sorted(c1.canonical_signature(w.original_graph) for w in ws) != sorted(
                    c1.canonical_signature(_nx(p)) for p in pres + list(case.get("others", []))):
            fails.append(_fail("value-objects", "canonicalise_graphs: not sorted by hash / hashes are not the signatures of the twins / originals lost (%s); input %r" % (be, pres[0])))
        sg = SynGraph(P0, c1)
        sg0 = SynGraph(_nx(pres[0]), c1, canon=False)
        if sg0.canonical is not None or sg0.signature != s1 or not (sg0 == sg) or hash(sg0) != hash(sg) \
                or list(sg.get_nodes()) != list(P0.nodes(data=True)) or list(sg.get_edges(data=False)) != list(P0.edges()) \
                or sg.number_of_nodes() != n or sg.raw is not P0 or _abstract(sg.canonical) != _abstract(c1.make_canonical_graph(P0)) \
                or (sg == P0) or (sg == 7):
            fails.append(_fail("value-objects", "SynGraph views / canon=False / comparison with foreign objects (%s); input %r" % (be, pres[0])))
        cw = M1.CanonicalGraph(P0, c1)
        if (cw == P0) or (cw == 7) or (cw == sg) or (sg == cw) or (cw != cw) or hash(cw) != hash(M1.CanonicalGraph(_nx(pres[0]), c1)) \
                or cw.original_graph is not P0:
            fails.append(_fail("value-objects", "CanonicalGraph: comparison with foreign objects / hash / original_graph (%s); input %r" % (be, pres[0])))
    # options: attribute selections in another order or reduced (positional backend is keyword-only by design)
    for be, kw in (("nauty", dict(node_attrs=["hcount", "charge", "aromatic", "element"])), ("nauty", dict(node_attrs=["element"])),
                   ("wl", dict(node_attrs=["charge", "element", "hcount", "aromatic"], wl_iterations=1)), ("wl", dict(wl_iterations=5)),
                   ("morgan", dict(morgan_radius=1)), ("morgan", dict(node_attrs=["element", "hcount"], morgan_radius=5)),
                   ("generic", dict(node_sort_key=lambda n, d: (d.get("hcount", 0), d.get("element", "")),
                                    edge_sort_key=lambda u, v, d: (tuple(sorted((u, v))), repr(d.get("order")))))):
        if be == "nauty" and len(kw["node_attrs"]) < 4 and _dense(case["g"]):
            continue
        if be == "morgan" and kw.get("morgan_radius", 3) > 3 and len(case["g"]["edges"]) > 2 * len(case["g"]["nodes"]):
            continue        # the prime-product labels of canon_morgan grow like degree ** radius digits: seconds per call on K7
        c = M1.GraphCanonicaliser(backend=be, **kw)
        cg = c.make_canonical_graph(P0)
        if sorted(cg.nodes) != list(range(1, n + 1)) or _iso(_full(P0), _full(cg)) is None:
            fails.append(_fail("faithful/%s" % be, "options %r: canonical graph is not the input relabelled onto 1..N; input %r" % (sorted(kw), pres[0])))
        s0 = c.canonical_signature(P0)
        for a in case.get("alts", []):
            if (a["same_ids"] or (be == "nauty" and len(kw["node_attrs"]) == 4)) and c.canonical_signature(_nx(a["g"])) != s0:
                fails.append(_fail("sig-function/%s" % be if a["same_ids"] else "nauty-invariant",
                                   "options %r: another presentation of the same graph gets another signature; A=%r B=%r" % (sorted(kw), pres[0], a["g"])))
        if "node_sort_key" not in kw:
            for h in case.get("others", []):
                if c.canonical_signature(_nx(h)) == s0 and _iso(_cov(P0), _cov(_nx(h))) is None:
                    fails.append(_fail("sig-sound/%s" % be, "options %r: equal signatures for non-isomorphic graphs A=%r B=%r" % (sorted(kw), pres[0], h)))
        if len(fails) >= 4:
            return
    # defaults again after the non-default options and reduced selections ran on the same value in this process
    for be in BACKENDS:
        if M1.GraphCanonicaliser(backend=be).canonical_signature(_nx(pres[0])) != base_sig[be]:
            fails.append(_fail("history/%s" % be, "default call after calls with non-default options / reduced attribute selections gives another signature; input %r" % (pres[0],)))


def _fresh(G):
    """The same nodes, edges and attributes built from scratch: no graph-level attributes, no provenance."""
    import networkx as nx
    H = nx.DiGraph() if G.is_directed() else nx.Graph()
    for n, d in G.nodes(data=True):
        H.add_node(n, **dict(d))
    for u, v, d in G.edges(data=True):
        H.add_edge(u, v, **dict(d))
    return H


GRAPH_TAGS = {"name": "mol-7", "_canon_backend": None, "canonical": True, "_canonical": True, "is_canonical": True,
              "_canon": "done", "canonical_hash": "0" * 32, "signature": "f" * 32, "backend": None}


def _history(c, be, D, what, fails):
    """History / provenance independence: the answer for D (derived from earlier outputs, or carrying graph-level
    attributes) must be the answer for the same nodes and edges built from scratch with a fresh canonicaliser."""
    F = _fresh(D)
    before = _abstract(D)
    cD, sD = c.make_canonical_graph(D), c.canonical_signature(D)
    c2 = _canoniser(be)
    cF, sF = c2.make_canonical_graph(F), c2.canonical_signature(F)
    n = D.number_of_nodes()
    if _abstract(D) != before:
        fails.append(_fail("history/%s" % be, "%s: canonicalisation mutated its input" % what))
    if sorted(cD.nodes) != list(range(1, n + 1)):
        fails.append(_fail("onto-1..N/%s" % be, "%s: canonical node ids %r for %d nodes; input %r" % (what, sorted(cD.nodes), n, _abstract(D))))
    if _abstract(cD) != _abstract(cF) or sD != sF:
        fails.append(_fail("history/%s" % be, "%s: answer differs from the answer for the same nodes and edges built from scratch: %s vs %s; "
                           "canonical %r vs %r; input %r graph-attrs %r" % (what, sD, sF, _abstract(cD), _abstract(cF), _abstract(D), dict(D.graph))))


def _oracle_history(case, fails):
    """Inputs derived from earlier outputs of the canonicaliser, inputs with graph-level attributes, the same objects
    canonicalised repeatedly with different back-ends, wrappers built from the outputs of wrappers."""
    import networkx as nx
    from synkit.Graph.canon_graph import CanonicalGraph
    from synkit.Graph.syn_graph import SynGraph
    p0 = case["g"]
    n = len(p0["nodes"])
    canons = {be: _canoniser(be) for be in BACKENDS}
    tupled = any(isinstance(a.get("order"), (list, tuple)) for _, _, a in p0["edges"])
    shared = _nx(p0)
    twins = {}
    # the same graph object and the same canonicaliser objects, all back-ends in sequence, twice, then reversed
    for be in BACKENDS + BACKENDS[::-1]:
        c = canons[be]
        cg, s = c.make_canonical_graph(shared), c.canonical_signature(shared)
        c2 = _canoniser(be)
        F = _nx(p0)
        if s != c2.canonical_signature(F) or _abstract(cg) != _abstract(c2.make_canonical_graph(F)):
            fails.append(_fail("history/%s" % be, "the same graph object canonicalised after other back-ends gives another answer; input %r" % (p0,)))
        twins[be] = cg
    for be in BACKENDS:
        c = canons[be]
        cg = twins[be]
        ids = list(cg.nodes)
        # renumbered twin (arbitrary ids), twin + one atom, twin - one bond / atom, induced subgraph of the twin
        D = nx.relabel_nodes(cg, {v: 50 + 3 * (n - k) for k, v in enumerate(ids)}, copy=True)
        _history(c, be, D, "relabel_nodes of a canonical twin", fails)
        if be == "generic":
            _history(canons["nauty"], "nauty", D, "relabel_nodes of a generic canonical twin", fails)
        D = cg.copy()
        c.canonical_signature(D)      # used once, then edited in place: an answer remembered per object would now be stale
        D.add_node(n + 4, element="N", aromatic=False, charge=0, hcount=1)
        if ids:
            D.add_edge(ids[0], n + 4, order=((1.0, 1.0) if tupled else 1.0))
        _history(c, be, D, "canonical twin + one atom (edited in place after a first use)", fails)
        if n >= 2:
            D = cg.copy()
            if D.number_of_edges():
                D.remove_edge(*list(D.edges)[0])
            else:
                D.remove_node(ids[-1])
            _history(c, be, D, "canonical twin - one bond/atom", fails)
            D = cg.subgraph(ids[1:]).copy()
            _history(c, be, D, "induced subgraph of a canonical twin", fails)
        # the same graph object edited IN PLACE between calls with node and edge counts unchanged, on the reused
        # canonicaliser and an existing SynGraph wrapper (a memo revalidated by counts or keyed by the object is stale)
        D = _nx(p0)
        sgD = SynGraph(D, c)
        sig_a = c.canonical_signature(D)
        sgD.signature, hash(sgD)
        dn = list(D.nodes)
        if dn:
            D.nodes[dn[0]]["charge"] = D.nodes[dn[0]].get("charge", 0) + 1
            _history(c, be, D, "charge edited in place after a first use", fails)
            D.nodes[dn[-1]]["hcount"] = D.nodes[dn[-1]].get("hcount", 0) + 1
            _history(c, be, D, "hcount edited in place after a first use", fails)
            if sgD.signature != _canoniser(be).canonical_signature(_fresh(D)) or not (sgD == SynGraph(_fresh(D), _canoniser(be))):
                fails.append(_fail("history/%s" % be, "an existing SynGraph does not follow an in-place edit of its graph (counts unchanged); input %r" % (p0,)))
        de = list(D.edges)
        if de:
            u, v = de[0]
            o = D[u][v].get("order", 1.0)
            D[u][v]["order"] = (o[1], o[0] + 1.0) if isinstance(o, tuple) else (2.0 if o != 2.0 else 1.0)
            _history(c, be, D, "bond order edited in place after a first use", fails)
            free = [w for w in dn if w not in (u, v) and not D.has_edge(u, w)]
            if free:
                d = dict(D[u][v])
                D.remove_edge(u, v)
                D.add_edge(u, free[0], **d)
                _history(c, be, D, "bond moved in place after a first use (counts unchanged)", fails)
        # back to the original value: the original answer
        D2 = _nx(p0)
        c.canonical_signature(D2)
        if dn:
            had = "charge" in D2.nodes[dn[0]]
            D2.nodes[dn[0]]["charge"] = D2.nodes[dn[0]].get("charge", 0) + 1
            c.canonical_signature(D2)
            D2.nodes[dn[0]]["charge"] = D2.nodes[dn[0]].get("charge", 0) - 1
            if not had:
                del D2.nodes[dn[0]]["charge"]          # undo means: absent again, not present with the default
            if c.canonical_signature(D2) != sig_a:
                fails.append(_fail("history/%s" % be, "edit and undo in place gives another signature than before; input %r" % (p0,)))
        # arbitrary graph-level attributes, including ones that look like internal tags
        D = _nx(p0)
        tags = dict(GRAPH_TAGS)
        tags["_canon_backend"] = be
        tags["backend"] = be
        D.graph.update(tags)
        _history(c, be, D, "input with graph-level attributes", fails)
        # wrappers built from the outputs of wrappers
        P0 = _nx(p0)
        w = CanonicalGraph(P0, c)
        w2 = CanonicalGraph(w.canonical_graph, c)
        w3 = CanonicalGraph(_fresh(w.canonical_graph), _canoniser(be))
        if w2.canonical_hash != w3.canonical_hash or _abstract(w2.canonical_graph) != _abstract(w3.canonical_graph):
            fails.append(_fail("history/%s" % be, "CanonicalGraph of a CanonicalGraph's twin differs from the one of the same graph built from scratch; input %r" % (p0,)))
        sg = SynGraph(P0, c)
        s2 = SynGraph(sg.canonical, c)
        s3 = SynGraph(_fresh(sg.canonical), _canoniser(be))
        if s2.signature != s3.signature or not (s2 == s3):
            fails.append(_fail("history/%s" % be, "SynGraph of a SynGraph's canonical graph differs from the one of the same graph built from scratch; input %r" % (p0,)))
        if be == "nauty" and not (s2 == sg and w2 == w):
            fails.append(_fail("value-objects", "wrapper of a canonical twin differs from the wrapper of the raw graph (nauty); input %r" % (p0,)))
        if len(fails) >= 4:
            break


def _oracle_batch(case):
    fails = []
    Gs = [_nx(g) for g in case["graphs"]]
    covs = [_cov(G) for G in Gs]
    for be in BACKENDS:
        c = _canoniser(be)
        groups = {}
        for i, G in enumerate(Gs):
            groups.setdefault(c.canonical_signature(G), []).append(i)
        for s, idx in groups.items():
            for i in idx[1:]:
                if _iso(covs[idx[0]], covs[i]) is None:
                    fails.append(_fail("sig-sound/%s" % be, "equal signatures for non-isomorphic graphs A=%r B=%r"
                                       % (case["graphs"][idx[0]], case["graphs"][i])))
                    break
        if be == "nauty" and case.get("distinct_classes") is False:
            # graphs of one batch may be isomorphic: then they must share the signature
            sig = {i: s for s, idx in groups.items() for i in idx}
            for i, j in itertools.combinations(range(len(Gs)), 2):
                if sig[i] != sig[j] and _iso(covs[i], covs[j]) is not None:
                    fails.append(_fail("nauty-invariant", "isomorphic graphs get different signatures A=%r B=%r"
                                       % (case["graphs"][i], case["graphs"][j])))
                    break
        if len(fails) >= 3:
            break
    return fails[:3]


def _rule_views(rule):
    G = rule.rc.raw

    def nf(d):
        t = d.get("typesGH")
        if t:
            return (tuple(t[0][:4]), tuple(t[1][:4]))
        return _nkey(d)

    def ef(d):
        o = d.get("order")
        return tuple(o) if isinstance(o, (list, tuple)) else o
    return _views(G, nf, ef)


def _oracle_rule(case):
    from synkit.Rule.syn_rule import SynRule
    fails = []
    for be in BACKENDS:
        c = _canoniser(be)
        A = SynRule.from_smart(case["a"], canonicaliser=c)
        B = SynRule.from_smart(case["b"], canonicaliser=c)
        iso = _iso(_rule_views(A), _rule_views(B)) is not None
        eq = (A == B)
        if eq and hash(A) != hash(B):
            fails.append(_fail("value-objects", "equal SynRules with different hashes (%s): %s | %s" % (be, case["a"], case["b"])))
        if eq and not iso:
            fails.append(_fail("synrule-eq/%s" % be, "SynRules compare equal but their ITS graphs are not isomorphic: %s | %s" % (case["a"], case["b"])))
        if be == "nauty" and iso and not eq:
            fails.append(_fail("synrule-eq/nauty", "isomorphic rules compare unequal with the exact back-end: %s | %s" % (case["a"], case["b"])))
        # options: canon=False (signatures on demand), mixed with canon=True objects; from_gml; CanonicalRule (GML round trip)
        A0 = SynRule.from_smart(case["a"], "r0", c, canon=False)
        B0 = SynRule.from_smart(case["b"], canonicaliser=c, canon=False, name="r1")
        if (A0 == B0) != eq or (A0 == B) != eq or not (A0 == A) or hash(A0) != hash(A) or ((A0 == B0) and hash(A0) != hash(B0)):
            fails.append(_fail("value-objects", "SynRule(canon=False) verdicts differ from canon=True / hashes inconsistent (%s): %s | %s" % (be, case["a"], case["b"])))
        from synkit.IO.chem_converter import rsmi_to_its, its_to_gml
        from synkit.Graph.canon_graph import CanonicalRule
        ga, gb = its_to_gml(rsmi_to_its(case["a"])), its_to_gml(rsmi_to_its(case["b"]))
        Ag = SynRule.from_gml(ga, canonicaliser=c)
        if not (Ag == SynRule.from_gml(ga, "other-name", c)) or hash(Ag) != hash(SynRule.from_gml(ga, canonicaliser=c)):
            fails.append(_fail("value-objects", "SynRule.from_gml of the same GML twice compares unequal (%s): %s" % (be, case["a"])))
        ca, cb = CanonicalRule(ga, c), CanonicalRule(gb, c)
        ciso = _iso(_cov(ca.original_graph), _cov(cb.original_graph)) is not None
        na = ca.original_graph.number_of_nodes()
        if sorted(ca.canonical_graph.nodes) != list(range(1, na + 1)) or ca.canonical_hash != c.canonical_signature(ca.canonical_graph) \
                or not (ca == CanonicalRule(ga, c)) or hash(ca) != hash(CanonicalRule(ga, c)):
            fails.append(_fail("value-objects", "CanonicalRule: ids not 1..N / hash is not the signature of the twin / not reproducible (%s): %s" % (be, case["a"])))
        if (ca == cb) and not ciso:
            fails.append(_fail("sig-sound/%s" % be, "CanonicalRule equal for non-isomorphic rule graphs: %s | %s" % (case["a"], case["b"])))
        if be == "nauty" and ciso and not (ca == cb):
            fails.append(_fail("nauty-invariant", "CanonicalRule differs for isomorphic rule graphs (nauty): %s | %s" % (case["a"], case["b"])))
    return fails[:3]


def _nx_its(g):
    """An ITS graph (every node carries typesGH = (reactant tuple, product tuple), orders are (before, after) pairs)."""
    import networkx as nx
    G = nx.Graph()
    for n, a in g["nodes"]:
        a = dict(a)
        a["typesGH"] = tuple((t[0], bool(t[1]), int(t[2]), int(t[3]), list(t[4])) for t in a["typesGH"])
        G.add_node(n, **a)
    for u, v, a in g["edges"]:
        a = dict(a)
        a["order"] = tuple(float(x) for x in a["order"])
        if "standard_order" in a:
            a["standard_order"] = float(a["standard_order"])
        G.add_edge(u, v, **a)
    return G


def _oracle_itsrule(case):
    """SynRule built from ITS graphs (not from reaction strings): for every pair of the family, equal rules must have isomorphic
    ITS graphs - ONE bijection preserving both sides of typesGH and the (before, after) orders - and with the exact back-end
    isomorphic ITS graphs must give equal rules (audit finding A2-1: the reaction-centre signature covered the reactant side only)."""
    from synkit.Rule.syn_rule import SynRule
    fails = []
    for be in BACKENDS:
        c = _canoniser(be)
        for kw in ({}, {"implicit_h": False}):
            rules = [SynRule(_nx_its(g), canonicaliser=c, **kw) for g in case["rules"]]
            views = [_rule_views(r) for r in rules]
            for i, j in itertools.combinations(range(len(rules)), 2):
                eq = rules[i] == rules[j]
                iso = _iso(views[i], views[j]) is not None
                if eq and hash(rules[i]) != hash(rules[j]):
                    fails.append(_fail("value-objects", "equal SynRules with different hashes (%s, %r): rules %d, %d of %s" % (be, kw, i, j, case["name"])))
                if eq and not iso:
                    fails.append(_fail("synrule-eq/%s" % be, "SynRules built from ITS graphs compare equal but no bijection preserves typesGH and the "
                                       "orders (%r): A=%r B=%r" % (kw, case["rules"][i], case["rules"][j])))
                if be == "nauty" and iso and not eq:
                    fails.append(_fail("synrule-eq/nauty", "isomorphic ITS graphs give unequal SynRules with the exact back-end (%r): A=%r B=%r"
                                       % (kw, case["rules"][i], case["rules"][j])))
                if len(fails) >= 3:
                    return fails[:3]
    return fails[:3]


def oracle(case):
    _quiet()
    k = case["kind"]
    if k == "itsrule":
        return _oracle_itsrule(case)
    if k == "graph":
        return _oracle_graph(case)
    if k == "batch":
        return _oracle_batch(case)
    if k == "rule":
        return _oracle_rule(case)
    raise AssertionError(k)


def _all_mutants(g):
    """Every single-attribute perturbation of g (used by the failing-input search around a disagreeing case)."""
    out = []

    def cp():
        return _copy(g)
    for i, (n, a) in enumerate(g["nodes"]):
        for k, v in (("element", "O" if a.get("element") != "O" else "N"), ("charge", a.get("charge", 0) + 1),
                     ("hcount", a.get("hcount", 0) + 1), ("aromatic", not a.get("aromatic", False))):
            h = cp()
            h["nodes"][i][1][k] = v
            out.append(h)
    for i, (u, v, a) in enumerate(g["edges"]):
        h = cp()
        o = a.get("order", 1)
        h["edges"][i][2]["order"] = [o[1], o[0] + 1.0] if isinstance(o, (list, tuple)) else (2.0 if float(o) != 2.0 else 1.0)
        out.append(h)
        h = cp()
        h["edges"][i][2]["standard_order"] = 1.0 if float(a.get("standard_order", 0)) != 1.0 else -1.0
        out.append(h)
        h = cp()
        del h["edges"][i]
        out.append(h)
        if g.get("directed"):
            have = {(a, b) for a, b, _ in g["edges"]}
            if (v, u) not in have:
                h = cp()
                h["edges"][i][0], h["edges"][i][1] = v, u
                out.append(h)
                h = cp()
                h["edges"].append([v, u, dict(a)])
                out.append(h)
    return out


def neighbours(case, rng):
    if case["kind"] != "graph":
        return []
    out = []
    g = case["g"]
    muts = _all_mutants(g)
    for k in range(0, len(muts), 8):
        out.append(dict(kind="graph", sub="neighbour", g=g, alts=[], others=muts[k:k + 8], name="neighbour/mutants"))
    c = _graph_case("neighbour", g, rng, nalts=6, nothers=0, name="neighbour/presentations")
    out.append(c)
    return out[:40]


def nontrivial(case, obs):
    if case["kind"] != "graph":
        return False
    g = case["g"]
    if _n_aut_gt1_or_tied(g):
        return True
    return False


def distribution(cases, obss):
    sizes, edges, refines, leaves, kinds_alt = {}, {}, 0, 0, {"same_ids": 0, "renumbered": 0}
    tied = 0
    symmetric = 0
    for c, o in zip(cases, obss):
        if c["kind"] != "graph":
            continue
        n = len(c["g"]["nodes"])
        sizes[n] = sizes.get(n, 0) + 1
        m = len(c["g"]["edges"])
        edges[m] = edges.get(m, 0) + 1
        for a in c.get("alts", []):
            kinds_alt["same_ids" if a["same_ids"] else "renumbered"] += 1
        if _n_aut_gt1_or_tied(c["g"]):
            tied += 1
        try:
            for row in (o[0] if c["g"].get("directed") else o[0][0][0])[0][0][0][0][0][0]:
                refines += len(row[3][2])
                leaves += len(row[3][3])
                if len(row[3][3]) > 1:
                    symmetric += 1
        except Exception:
            pass
    subs = {}
    for c in cases:
        k = c.get("sub", c["kind"])
        subs[k] = subs.get(k, 0) + 1
    md = {"abandoned_before_any_leaf": 0, "leaf_and_early_stop": 0, "complete": 0}
    for c, o in zip(cases, obss):
        if c["kind"] == "graph" and not c["g"].get("directed") and isinstance(o, list) and len(o) == 2:
            for r in o[0][0][1]:
                md["abandoned_before_any_leaf" if not r else ("leaf_and_early_stop" if r[0][1] else "complete")] += 1
    directed = sum(1 for c in cases if c["kind"] == "graph" and c["g"].get("directed"))
    antipar = sum(1 for c in cases if c["kind"] == "graph" and c["g"].get("directed")
                  and any((v, u) in {(a, b) for a, b, _ in c["g"]["edges"]} for u, v, _ in c["g"]["edges"]))
    return dict(max_depth_outcomes=md, directed_graph_cases=directed, directed_with_antiparallel_arcs=antipar, populations=subs, nodes={str(k): v for k, v in sorted(sizes.items())}, edges={str(k): v for k, v in sorted(edges.items())},
                alt_presentations=kinds_alt, tied_node_keys=tied, presentations_with_nontrivial_automorphism=symmetric,
                refine_calls_compared=refines, minimal_leaves_compared=leaves)


# ------------------------------------------------------------------ generators

def _norm_graph(g, amap=True):
    """Give a graph from gen/graphs.py the full attribute set of the model domain (float orders)."""
    nodes = []
    for n, a in g["nodes"]:
        b = {"element": a.get("element", "C"), "charge": a.get("charge", 0), "aromatic": bool(a.get("aromatic", False)),
             "hcount": a.get("hcount", 0)}
        if amap:
            b["atom_map"] = a.get("atom_map", n)
        nodes.append([n, b])
    edges = []
    for u, v, a in g["edges"]:
        o = a.get("order", 1)
        b = {"order": [float(x) for x in o] if isinstance(o, (list, tuple)) else float(o)}
        if "standard_order" in a:
            b["standard_order"] = float(a["standard_order"])
        edges.append([u, v, b])
    return {"nodes": nodes, "edges": edges}


def _copy(g):
    h = {"nodes": [[n, dict(a)] for n, a in g["nodes"]], "edges": [[u, v, dict(a)] for u, v, a in g["edges"]]}
    if g.get("directed"):
        h["directed"] = True
    return h


def _reinsert(g, rng):
    ns = list(g["nodes"])
    # an undirected edge may be stored either way round; an arc of a digraph may not
    es = [([u, v, dict(a)] if (g.get("directed") or rng.random() < 0.5) else [v, u, dict(a)]) for u, v, a in g["edges"]]
    rng.shuffle(ns)
    rng.shuffle(es)
    h = {"nodes": [[n, dict(a)] for n, a in ns], "edges": es}
    if g.get("directed"):
        h["directed"] = True
    return h


def _renumber(g, rng, amap):
    ids = [n for n, _ in g["nodes"]]
    pool = rng.choice([range(1, len(ids) + 1), range(1, len(ids) + 4), range(0, 60), range(100, 140)])
    new = rng.sample(list(pool), len(ids))
    m = dict(zip(ids, new))
    nodes = []
    for n, a in g["nodes"]:
        a = dict(a)
        if amap == "rewrite" and "atom_map" in a:
            a["atom_map"] = m[n]
        nodes.append([m[n], a])
    h = {"nodes": nodes, "edges": [[m[u], m[v], dict(a)] for u, v, a in g["edges"]]}
    if g.get("directed"):
        h["directed"] = True
    return h


def _mutant(g, rng):
    """A graph near g that is usually NOT isomorphic to it on the covered attributes."""
    h = _copy(g)
    ids = [n for n, _ in h["nodes"]]
    if g.get("directed") and h["edges"] and rng.random() < 0.6:
        # digraphs: the direction of an arc is content - turn one arc / every arc round, add or drop the opposite arc
        have = {(u, v) for u, v, _ in h["edges"]}
        z = rng.random()
        one_way = [e for e in h["edges"] if (e[1], e[0]) not in have]
        both = [e for e in h["edges"] if (e[1], e[0]) in have]
        if z < 0.45 and one_way:
            e = rng.choice(one_way)
            e[0], e[1] = e[1], e[0]
        elif z < 0.6:
            for e in h["edges"]:
                e[0], e[1] = e[1], e[0]
        elif z < 0.8 and one_way:
            e = rng.choice(one_way)
            h["edges"].append([e[1], e[0], dict(e[2])])
        elif both:
            h["edges"].remove(rng.choice(both))
        else:
            e = rng.choice(h["edges"])
            e[0], e[1] = e[1], e[0]
        return h
    z = rng.random()
    tup = [e for e in h["edges"] if isinstance(e[2].get("order"), (list, tuple))]
    if tup and rng.random() < 0.5:
        # tuple-valued (before, after) orders: mirror one pair / all pairs (forward vs reverse reaction centre)
        for e in (tup if rng.random() < 0.5 else [rng.choice(tup)]):
            a, b = e[2]["order"]
            e[2]["order"] = [b, a]
            if "standard_order" in e[2]:
                e[2]["standard_order"] = b - a          # not the negation: -0.0 would print differently from 0.0
        return h
    if z < 0.3 and h["edges"]:
        e = rng.choice(h["edges"])
        if isinstance(e[2].get("order"), (list, tuple)):
            a, b = e[2]["order"]
            e[2]["order"] = [a, b + 1.0]
        elif rng.random() < 0.2:
            # absent <-> present: the signature prints 0 vs 0.0, the exact label '' vs '0.0'
            if "standard_order" in e[2]:
                del e[2]["standard_order"]
            else:
                e[2]["standard_order"] = 0.0
        elif "standard_order" in e[2] and rng.random() < 0.5:
            e[2]["standard_order"] = rng.choice([x for x in (0.0, 1.0, -1.0, 0.5) if x != e[2]["standard_order"]])
        else:
            e[2]["order"] = rng.choice([x for x in (1.0, 2.0, 1.5, 3.0) if x != e[2]["order"]])
    elif z < 0.6 and len(ids) >= 3 and h["edges"]:
        # move one endpoint of an edge
        e = rng.choice(h["edges"])
        have = {((u, v) if g.get("directed") else frozenset((u, v))) for u, v, _ in h["edges"]}
        cands = [w for w in ids if w not in (e[0], e[1]) and ((e[0], w) if g.get("directed") else frozenset((e[0], w))) not in have]
        if cands:
            e[1] = rng.choice(cands)
        else:
            h["edges"].remove(e)
    elif z < 0.8:
        n, a = rng.choice(h["nodes"])
        k = rng.choice(["element", "charge", "hcount", "aromatic"])
        a[k] = {"element": "O" if a["element"] != "O" else "N", "charge": a["charge"] + 1, "hcount": a["hcount"] + 1,
                "aromatic": not a["aromatic"]}[k]
    else:
        # swap the attributes of two nodes (same multiset of node keys, same skeleton)
        if len(ids) >= 2:
            (n1, a1), (n2, a2) = rng.sample(h["nodes"], 2)
            for k in NODE_KEYS:
                a1[k], a2[k] = a2[k], a1[k]
    return h


def _graph_case(kind, g, rng, nalts=2, nothers=1, name=None):
    alts = []
    for k in range(nalts):
        if k % 2 == 0:
            alts.append(dict(g=_reinsert(g, rng), same_ids=True, amap="keep"))
        else:
            am = rng.choice(["keep", "rewrite"])
            alts.append(dict(g=_reinsert(_renumber(g, rng, am), rng), same_ids=False, amap=am))
    c = dict(kind="graph", sub=kind, g=g, alts=alts, others=[_mutant(g, rng) for _ in range(nothers)])
    if name:
        c["name"] = name
    return c


def _families():
    from ..gen import graphs as GG
    fam = []
    for n in range(3, 9):
        fam.append(("C%d" % n, GG.cycle(n)))
    for (m, n) in ((1, 3), (1, 4), (2, 2), (2, 3), (3, 3), (2, 4)):
        fam.append(("K%d,%d" % (m, n), GG.complete_bipartite(m, n)))
    fam.append(("cube", GG.cube()))
    fam.append(("petersen", GG.petersen()))
    # symmetric skeletons whose edges differ only in order
    for n in (4, 5, 6):
        g = GG.cycle(n)
        g["edges"][0][2]["order"] = 2
        fam.append(("C%d-one-double" % n, g))
    g = GG.cycle(6)
    for i in (0, 2, 4):
        g["edges"][i][2]["order"] = 2
    fam.append(("C6-kekule", g))
    g = GG.complete_bipartite(2, 2)
    g["edges"][0][2]["order"] = 2
    g["edges"][3][2]["order"] = 2
    fam.append(("K2,2-mixed", g))
    g = GG.complete_bipartite(2, 3)
    g["edges"][0][2]["order"] = 2
    fam.append(("K2,3-one-double", g))
    g = GG.cycle(6)
    g["nodes"][0][1]["element"] = "N"
    g["nodes"][3][1]["element"] = "N"
    fam.append(("C6-two-N", g))
    g = GG.complete_bipartite(1, 4)
    g["nodes"][1][1]["hcount"] = 1
    g["nodes"][2][1]["hcount"] = 1
    fam.append(("K1,4-two-H", g))
    # two disjoint triangles, path P5, two isolated nodes + edge
    g = GG.cycle(3)
    h = GG.relabel(GG.cycle(3), {1: 4, 2: 5, 3: 6})
    fam.append(("2xC3", {"nodes": g["nodes"] + h["nodes"], "edges": g["edges"] + h["edges"]}))
    g = GG.cycle(5)
    g["edges"].pop()
    fam.append(("P5", g))
    return [(nm, _norm_graph(g)) for nm, g in fam]


PAIRS = [(1.0, 1.0), (2.0, 1.0), (1.0, 2.0), (2.0, 0.0), (0.0, 2.0), (1.0, 0.0), (0.0, 1.0), (1.5, 1.5), (2.0, 2.0), (3.0, 2.0)]


def _its_cases(rng, tier):
    """ITS / reaction-centre like graphs: tuple-valued (before, after) orders, with and without standard_order, a pair and
    its mirror image in positions that a careless normalisation would make symmetric."""
    from ..gen import graphs as GG
    out = []

    def put(g, pattern, std):
        g = _norm_graph(g)
        for e, pr in zip(g["edges"], itertools.cycle(pattern)):
            e[2]["order"] = [pr[0], pr[1]]
            if std:
                e[2]["standard_order"] = pr[0] - pr[1]
        return g
    fam = []
    for std in (False, True):
        fam.append(("ring4-metathesis", put(GG.cycle(4), [(2.0, 0.0), (0.0, 2.0)], std)))
        fam.append(("ring6-alternating", put(GG.cycle(6), [(2.0, 1.0), (1.0, 2.0)], std)))
        fam.append(("ring6-cope", put(GG.cycle(6), [(1.0, 0.0), (2.0, 1.0), (1.0, 2.0), (0.0, 1.0), (1.0, 2.0), (2.0, 1.0)], std)))
        fam.append(("K22-mirror", put(GG.complete_bipartite(2, 2), [(2.0, 0.0), (0.0, 2.0), (0.0, 2.0), (2.0, 0.0)], std)))
        fam.append(("ring4-one-way", put(GG.cycle(4), [(2.0, 1.0)], std)))
        fam.append(("ring5-mixed", put(GG.cycle(5), [(1.0, 1.0), (2.0, 1.0), (1.0, 2.0)], std)))
        fam.append(("path3-centre", put({"nodes": GG.cycle(3)["nodes"], "edges": GG.cycle(3)["edges"][:2]}, [(1.0, 0.0), (0.0, 1.0)], std)))
    for nm, g in fam:
        out.append(_graph_case("its", g, rng, nalts=3, nothers=2, name="its/" + nm + ("+std" if "standard_order" in g["edges"][0][2] else "")))
    for _ in range(30 if tier == "quick" else 400):
        n = rng.randint(2, 7)
        g = GG.random_graph(rng, n, p_edge=rng.choice([0.35, 0.5, 0.8]), elements=("C", "C", "O", "N"), orders=(1,), charges=(0, 0, 1),
                            hcounts=(0, 1, 2))
        std = rng.random() < 0.5
        g = put(g, [rng.choice(PAIRS) for _ in range(max(1, len(g["edges"])))], std)
        ids = [n_ for n_, _ in g["nodes"]]
        g = GG.relabel(g, dict(zip(ids, rng.sample(range(0, 30), len(ids)))))
        out.append(_graph_case("its", g, rng, nalts=2, nothers=2))
    return out


def _node(el="C", ch=0, ar=False, hc=0, am=None):
    d = {"element": el, "charge": ch, "aromatic": ar, "hcount": hc}
    if am is not None:
        d["atom_map"] = am
    return d


def _degenerate_cases(rng):
    """Empty graph, single node, isolated nodes, falsy / negative / large values, attributes on some edges only, ids >= 100."""
    gs = [
        ("empty", {"nodes": [], "edges": []}),
        ("single", {"nodes": [[0, _node()]], "edges": []}),
        ("single-id-0-amap-0", {"nodes": [[0, _node(am=0)]], "edges": []}),
        ("two-isolated", {"nodes": [[5, _node()], [3, _node()]], "edges": []}),
        ("isolated+edge", {"nodes": [[1, _node()], [2, _node("O")], [3, _node()], [4, _node()]], "edges": [[3, 1, {"order": 1.0}]]}),
        ("amap-0-falsy", {"nodes": [[4, _node(am=0)], [2, _node(am=7)], [9, _node(am=3)]], "edges": [[4, 2, {"order": 1.0}], [2, 9, {"order": 1.0}], [9, 4, {"order": 1.0}]]}),
        ("order-0.0", {"nodes": [[1, _node()], [2, _node()], [3, _node()]], "edges": [[1, 2, {"order": 0.0}], [2, 3, {"order": 1.0}]]}),
        ("std-0.0-vs-absent", {"nodes": [[1, _node()], [2, _node()], [3, _node()]],
                               "edges": [[1, 2, {"order": 1.0, "standard_order": 0.0}], [2, 3, {"order": 1.0}]]}),
        ("negative-large", {"nodes": [[100, _node("Cl", -12, False, 10)], [250, _node("C", 11, True, 0)], [99, _node("C", 11, True, 0)]],
                            "edges": [[100, 250, {"order": 3.0, "standard_order": -1.5}], [99, 100, {"order": 3.0, "standard_order": -1.5}]]}),
        ("element-star-digits", {"nodes": [[1, _node("*")], [2, _node("R1")], [3, _node("*")]], "edges": [[1, 2, {"order": 1.0}], [2, 3, {"order": 1.0}]]}),
        ("ids-10-11-9", {"nodes": [[10, _node()], [9, _node()], [11, _node()], [100, _node()]],
                         "edges": [[10, 9, {"order": 1.0}], [9, 11, {"order": 2.0}], [11, 100, {"order": 1.0}]]}),
    ]
    # known finding: NautyCanonicalizer(None, None).graph_signature cannot tell the empty graph from a single node
    out_known = _graph_case("degenerate", {"nodes": [], "edges": []}, rng, nalts=1, nothers=0, name="degenerate/empty-vs-single")
    out_known["others"] = [{"nodes": [[1, _node()]], "edges": []}]
    # eight equal atoms whose search-tree leaves lie at different depths: canonical_form(max_depth=2) returns a leaf AND early_stop
    gs.append(("uneven-leaf-depth", {"nodes": [[i, _node()] for i in range(1, 9)],
                                     "edges": [[u, v, {"order": 1.0}] for u, v in ((1, 4), (1, 8), (2, 4), (2, 5), (3, 6), (3, 7), (4, 6),
                                                                                   (4, 8), (5, 6), (6, 7))]}))
    return [_graph_case("degenerate", g, rng, nalts=2, nothers=(1 if g["nodes"] else 0), name="degenerate/" + nm) for nm, g in gs] + [out_known]


def _missing_attr_cases(rng):
    """Node attributes absent on SOME nodes only (graphs read from GML or built by hand; SynKit's own builders always set
    all four).  Outside the model domain (the model's nodes carry all four attributes): oracle only.  The signature prints
    the default for an absent attribute; the exact back-end keeps absent and default apart - so 'isomorphic' is judged
    presence-sensitively for the invariance clause and on the printed values for the soundness clause."""
    def strip(g, drops):
        h = _copy(g)
        for i, k in drops:
            h["nodes"][i][1].pop(k, None)
        return h
    base3 = {"nodes": [[1, _node("C", 0, False, 1)], [2, _node("C", 0, False, 1)], [3, _node("O", 0, False, 0)]],
             "edges": [[1, 2, {"order": 1.0}], [2, 3, {"order": 1.0}]]}
    ring = {"nodes": [[i, _node("C", 0, False, 1)] for i in (4, 9, 2, 7)],
            "edges": [[4, 9, {"order": 1.0}], [9, 2, {"order": 2.0}], [2, 7, {"order": 1.0}], [7, 4, {"order": 2.0}]]}
    star = {"nodes": [[1, _node("N", 1, False, 0)]] + [[i, _node("C", 0, False, 3)] for i in (2, 3, 4, 5)],
            "edges": [[1, i, {"order": 1.0}] for i in (2, 3, 4, 5)]}
    spec = [
        ("charge-absent-on-one", base3, [(1, "charge")]), ("hcount-absent-on-one", base3, [(0, "hcount")]),
        ("aromatic-absent-on-one", base3, [(0, "aromatic")]), ("element-absent-on-one", base3, [(2, "element")]),
        ("charge-absent-on-all", base3, [(0, "charge"), (1, "charge"), (2, "charge")]),
        ("two-attrs-absent", base3, [(0, "charge"), (1, "hcount")]),
        ("ring-charge-absent-opposite", ring, [(0, "charge"), (2, "charge")]), ("ring-hcount-absent-adjacent", ring, [(0, "hcount"), (1, "hcount")]),
        ("star-leaf-hcount-absent", star, [(2, "hcount")]), ("star-two-leaves-charge-absent", star, [(1, "charge"), (4, "charge")]),
        ("all-absent-on-one", base3, [(1, "element"), (1, "charge"), (1, "aromatic"), (1, "hcount")]),
    ]
    out = []
    for nm, g, drops in spec:
        h = strip(g, drops)
        c = _graph_case("missing", h, rng, nalts=3, nothers=0, name="missing/" + nm)
        # others: the absent attribute filled in with its default (same printed values, another graph for the exact
        # back-end), and the attribute dropped from ANOTHER node
        i0, k0 = drops[0]
        filled = _copy(h)
        filled["nodes"][i0][1][k0] = {"element": "", "charge": 0, "aromatic": False, "hcount": 0}[k0]
        moved = strip(g, [((i + 1) % len(g["nodes"]), k) for i, k in drops])
        # (an absent element and the empty string are printed alike by every back-end: no such pair)
        c["others"] = [moved] if k0 == "element" else [filled, moved]
        c["oracle_only"] = True
        out.append(c)
    return out


def _string_id_cases(rng):
    """Node ids that are strings (networkx accepts any hashable; ids only have to be mutually comparable): outside the model
    domain (ids are numbers there), oracle only, without the multi-step clauses (they add integer ids)."""
    def g(ids, els, edges):
        return {"nodes": [[i, _node(e)] for i, e in zip(ids, els)], "edges": [[u, v, {"order": float(o)}] for u, v, o in edges]}
    gs = [
        ("path", g(["a", "b", "c"], "CCO", [("a", "b", 1), ("b", "c", 1)])),
        ("ring-b10-b9", g(["b10", "b9", "b1", "a2"], "CCCC", [("b10", "b9", 1), ("b9", "b1", 2), ("b1", "a2", 1), ("a2", "b10", 2)])),
        ("star", g(["N", "h1", "h2", "h3"], "NCCC", [("N", "h1", 1), ("N", "h2", 1), ("N", "h3", 1)])),
        ("empty-string-id", g(["", "x"], "CO", [("", "x", 2)])),
    ]
    out = []
    for nm, x in gs:
        c = _graph_case("strids", x, rng, nalts=3, nothers=1, name="strids/" + nm)
        c["oracle_only"] = True
        c["deep"] = False
        out.append(c)
    d = g(["a", "b", "c"], "CCC", [("a", "b", 1), ("b", "a", 1), ("b", "c", 1)])
    d["directed"] = True
    c = _graph_case("strids", d, rng, nalts=3, nothers=1, name="strids/digraph")
    c["oracle_only"] = True
    c["deep"] = False
    out.append(c)
    return out


def _allperm_cases(rng, tier):
    """The property's quantifier: ALL node permutations of every graph of a small scope (oracle only: the exact back-end must
    give every renumbering the same canonical graph and signature; all back-ends: faithful, onto 1..N).
    quick: the 11 graphs on 4 equal atoms with single bonds x 24 permutations; thorough: 4 atoms with bond orders {1, 2} x 24 and
    the 34 graphs on 5 equal atoms x 120 permutations (24 per case)."""
    from ..gen import graphs as GG
    C = [{"element": "C", "charge": 0, "hcount": 0}]
    scopes = [(4, [{"order": 1}])] if tier == "quick" else [(4, [{"order": 1}, {"order": 2}]), (5, [{"order": 1}])]
    out = []
    for n, el in scopes:
        perms = list(itertools.permutations(range(1, n + 1)))[1:]
        for k, g in enumerate(GG.iso_classes(n, C, el)):
            g = _norm_graph(g, amap=False)
            for lo in range(0, len(perms), 24):
                alts = []
                for pm in perms[lo:lo + 24]:
                    m = dict(zip(range(1, n + 1), pm))
                    h = {"nodes": [[m[i], dict(a)] for i, a in g["nodes"]], "edges": [[m[u], m[v], dict(a)] for u, v, a in g["edges"]]}
                    alts.append(dict(g=_reinsert(h, rng), same_ids=False, amap="keep"))
                out.append(dict(kind="graph", sub="allperm", g=g, alts=alts, others=[], oracle_only=True, deep=False,
                                name="allperm/n%d-%d-%d" % (n, k, lo)))
    return out


def _size_cases(rng, tier):
    """Two-digit node counts and ids: random trees / sparse graphs with 10..16 nodes, one chain of 40 atoms."""
    from ..gen import graphs as GG
    out = []
    for k in range(6 if tier == "quick" else 40):
        n = rng.randint(10, 16)
        nodes = [[i + 1, _node(rng.choice("CCCNOS"), rng.choice([0, 0, 0, 1, -1]), False, rng.choice([0, 1, 2, 3]), am=i + 1)] for i in range(n)]
        edges = [[i + 1, rng.randint(1, i), {"order": float(rng.choice([1, 1, 2]))}] for i in range(1, n)]
        for _ in range(rng.randint(0, 2)):
            u, v = rng.sample(range(1, n + 1), 2)
            if not any({u, v} == {a, b} for a, b, _ in edges):
                edges.append([u, v, {"order": 1.5}])
        out.append(_graph_case("size", {"nodes": nodes, "edges": edges}, rng, nalts=2, nothers=1, name="size/n%d-%d" % (n, k)))
    n = 24
    nodes = [[i + 90, _node("CNO"[i % 3] if i % 7 else "S", 0, False, i % 3)] for i in range(n)]
    edges = [[i + 90, i + 91, {"order": float(1 + (i % 2))}] for i in range(n - 1)]
    out.append(_graph_case("size", {"nodes": nodes, "edges": edges}, rng, nalts=2, nothers=1, name="size/chain24"))
    return out


def _dg(els, arcs, order=1.0, ids=None):
    ids = ids or list(range(1, len(els) + 1))
    return {"nodes": [[i, _node(el)] for i, el in zip(ids, els)],
            "edges": [[a[0], a[1], {"order": (a[2] if len(a) > 2 else order)}] for a in arcs], "directed": True}


def _digraph_classes(n, elements=("C", "O"), orders=(1.0,)):
    """Every isomorphism class of digraphs (no loops, antiparallel arcs allowed) on n nodes over the given elements and
    arc orders - deduplicated with the oracle's own isomorphism test."""
    pairs = [(u, v) for u in range(1, n + 1) for v in range(1, n + 1) if u != v]
    reps = []
    for els in itertools.combinations_with_replacement(elements, n):
        seen = []
        for choice in itertools.product((None,) + tuple(orders), repeat=len(pairs)):
            g = _dg(els, [(u, v, o) for (u, v), o in zip(pairs, choice) if o is not None])
            view = _cov(_nx(g))
            if not any(_iso(view, w) is not None for w in seen):
                seen.append(view)
                reps.append(g)
    return reps


def _digraph_cases(rng, tier):
    """networkx.DiGraph inputs (the class documents that digraphs are preserved): every class with <= 3 nodes, named
    families where the direction of an arc is the only content (mirror pairs, directed cycles, antiparallel arcs with
    equal / different attributes, tournaments), seeded random digraphs, whole-family soundness batches."""
    out = []
    k = 0
    for n in (1, 2, 3):
        for g in _digraph_classes(n):
            c = _graph_case("digraph", g, rng, nalts=2, nothers=1)
            c["deep"] = (k % (4 if tier == "quick" else 8) == 0)
            k += 1
            out.append(c)
    for g in _digraph_classes(2, orders=(1.0, 2.0)):
        out.append(_graph_case("digraph", g, rng, nalts=2, nothers=1))
    cyc = lambda n: [(i, i % n + 1) for i in range(1, n + 1)]
    named = [
        ("push-forward", _dg("NCOC", [(1, 2), (2, 3), (2, 4)])), ("push-backward", _dg("NCOC", [(2, 1), (3, 2), (2, 4)])),
        ("one-arc", _dg("CC", [(1, 2)])), ("one-arc-CO", _dg("CO", [(1, 2)])), ("one-arc-OC", _dg("CO", [(2, 1)])),
        ("antiparallel-equal", _dg("CC", [(1, 2), (2, 1)])), ("antiparallel-orders", _dg("CC", [(1, 2, 1.0), (2, 1, 2.0)])),
        ("antiparallel-CO", _dg("CO", [(2, 1, 1.0), (1, 2, 2.0)])),
        ("dicycle3", _dg("CCC", cyc(3))), ("dicycle4", _dg("CCCC", cyc(4))), ("dicycle5", _dg("CCCCC", cyc(5))), ("dicycle6", _dg("CCCCCC", cyc(6))),
        ("bidirected-C4", _dg("CCCC", cyc(4) + [(v, u) for u, v in cyc(4)])),
        ("bidirected-C4-one-way-missing", _dg("CCCC", cyc(4) + [(v, u) for u, v in cyc(4)][:3])),
        ("in-star", _dg("CCCC", [(2, 1), (3, 1), (4, 1)])), ("out-star", _dg("CCCC", [(1, 2), (1, 3), (1, 4)])),
        ("mixed-star", _dg("CCCC", [(1, 2), (3, 1), (1, 4)])),
        ("label-blind-4", _dg("CCCC", [(1, 2), (1, 4), (2, 3)])),          # the upper triangle alone does not tell its leaves apart
        ("transitive-T4", _dg("CCCC", [(i, j) for i in range(1, 5) for j in range(i + 1, 5)])),
        ("rotational-T5", _dg("CCCCC", [(i, (i + d - 1) % 5 + 1) for i in range(1, 6) for d in (1, 2)])),
        ("2xdicycle3", _dg("CCCCCC", cyc(3) + [(u + 3, v + 3) for u, v in cyc(3)])),
        ("K22-one-way", _dg("CCOO", [(1, 3), (1, 4), (2, 3), (2, 4)])), ("K22-alternating", _dg("CCOO", [(1, 3), (4, 1), (2, 4), (3, 2)])),
        ("ids-9-10-11", _dg("CCC", [(10, 9), (9, 11), (11, 10)], ids=[10, 9, 11])),
    ]
    g = _dg("CCC", cyc(3))
    for e, pr in zip(g["edges"], [(2.0, 1.0), (1.0, 2.0), (1.0, 1.0)]):
        e[2]["order"] = list(pr)
        e[2]["standard_order"] = pr[0] - pr[1]
    named.append(("dicycle3-its", g))
    g = _dg("CC", [(1, 2), (2, 1)])
    g["edges"][0][2]["order"], g["edges"][1][2]["order"] = [1.0, 2.0], [1.0, 0.0]
    named.append(("antiparallel-its", g))
    g = _dg("CCC", [(1, 2), (2, 1), (2, 3)])
    g["edges"][0][2]["standard_order"] = 0.0
    named.append(("antiparallel-std-0.0-vs-absent", g))
    # two-digit node counts and ids on digraphs: a directed path of 12 atoms with ids 95..106, a sparse random digraph on 11
    ids = list(range(95, 107))
    named.append(("dipath12-ids-95", _dg(["CNO"[i % 3] for i in range(12)], [(ids[i], ids[i + 1]) for i in range(11)], ids=ids)))
    r11 = random_module.Random(11)
    ids = r11.sample(range(3, 40), 11)
    named.append(("sparse11", _dg([r11.choice("CCCNO") for _ in ids],
                                  sorted({(u, v) for u in ids for v in ids if u != v and r11.random() < 0.12}), ids=ids)))
    for nm, g in named:
        out.append(_graph_case("digraph", g, rng, nalts=3, nothers=2, name="digraph/" + nm))
    for i in range(40 if tier == "quick" else 600):
        n = rng.randint(2, 6)
        ids = rng.sample(range(0, 30), n)
        p = rng.choice([0.15, 0.3, 0.5])
        arcs = [(u, v, float(rng.choice([1, 1, 2, 1.5]))) for u in ids for v in ids if u != v and rng.random() < p]
        g = _dg([rng.choice("CCCON") for _ in ids], arcs, ids=ids)
        if rng.random() < 0.5:
            for j, (_, a) in enumerate(g["nodes"]):
                a["hcount"] = rng.choice([0, 0, 1])
                a["atom_map"] = j + 1
        if rng.random() < 0.3:
            for e in g["edges"]:
                if rng.random() < 0.7:
                    e[2]["standard_order"] = rng.choice([0.0, 1.0, -0.5])
        c = _graph_case("digraph", g, rng, nalts=2, nothers=2)
        c["deep"] = (i % 2 == 0)
        out.append(c)
    # whole families: all arc sets with k arcs on three labelled atoms (equal signature => isomorphic as digraphs; nauty: <=>)
    pairs = [(u, v) for u in (1, 2, 3) for v in (1, 2, 3) if u != v]
    for els in ("CCO", "CNO", "CCC"):
        for kk in range(1, 6):
            gs = [_dg(els, list(arcs)) for arcs in itertools.combinations(pairs, kk)]
            out.append(dict(kind="batch", sub="dbatch", graphs=gs, distinct_classes=False))
    return out


RULES = [
    "[Cl:1][CH2:2][CH3:3]>>[Cl:1][CH2:3][CH3:2]",
    "[Cl:1][CH2:2][CH3:3]>>[Cl:1][CH2:2][CH3:3]",
    "[CH3:1][Br:2].[OH2:3]>>[CH3:1][OH:3].[BrH:2]",
    "[CH3:1][CH:2]=[CH2:3].[H:4][H:5]>>[CH3:1][CH:2]([H:4])[CH2:3][H:5]",
    "[CH2:1]=[CH:2][CH:3]=[CH2:4].[CH2:5]=[CH2:6]>>[CH2:1]1[CH:2]=[CH:3][CH2:4][CH2:5][CH2:6]1",
    "[CH3:1][C:2](=[O:3])[OH:4].[CH3:5][OH:6]>>[CH3:1][C:2](=[O:3])[O:6][CH3:5].[OH2:4]",
    "[CH3:1][C:2](=[O:3])[OH:4].[CH3:5][OH:6]>>[CH3:1][C:2](=[O:3])[O:4][CH3:5].[OH2:6]",
    "[OH:1][CH2:2][CH2:3][OH:4]>>[OH:1][CH2:2][CH:3]=[O:4]",
    "[OH:1][CH2:2][CH2:3][OH:4]>>[OH:4][CH2:2][CH:3]=[O:1]",
    "[Br:1][CH2:2][CH2:3][Br:4].[OH2:5]>>[Br:1][CH2:2][CH2:3][OH:5].[BrH:4]",
    "[Br:1][CH2:2][CH2:3][Br:4].[OH2:5]>>[Br:4][CH2:2][CH2:3][OH:5].[BrH:1]",
    "[NH2:1][CH2:2][CH3:3]>>[NH2:1][CH2:3][CH3:2]",
]


def _its(els, before_after, product=None, ids=None):
    """ITS graph as JSON: els = element per atom; before_after = [(u, v, before, after)]; product = {atom: {"charge": c, "aromatic": b}}
    overrides of the product-side tuple."""
    ids = ids or list(range(1, len(els) + 1))
    product = product or {}
    nodes = []
    for i, el in zip(ids, els):
        p = product.get(i, {})
        nodes.append([i, {"element": el, "aromatic": False, "hcount": 0, "charge": 0, "atom_map": i,
                          "typesGH": [[el, False, 0, 0, []], [el, bool(p.get("aromatic", False)), 0, int(p.get("charge", 0)), []]]}])
    edges = [[u, v, {"order": [float(b), float(a)], "standard_order": float(b) - float(a)}] for u, v, b, a in before_after]
    return {"nodes": nodes, "edges": edges}


def _itsrule_cases(rng):
    """Rules built from ITS graphs whose product side differs from the reactant side on atoms that a symmetry of ONE fragment can
    move: two double bonds closing to a four-ring (1=2, 3=4 -> ring 1-2-3-4), a metathesis square, a three-ring opening.  Each case is
    a family: every subset of at most two atoms carries a product-side charge (or aromatic flag); all pairs are judged."""
    skeletons = [
        ("two-double-bonds-to-ring4", "CCCC", [(1, 2, 2, 1), (3, 4, 2, 1), (1, 4, 0, 1), (3, 2, 0, 1)]),
        ("metathesis-square", "CCCC", [(1, 2, 2, 0), (3, 4, 2, 0), (1, 4, 0, 2), (3, 2, 0, 2)]),
        ("ring3-opening", "CCC", [(1, 2, 1, 1), (2, 3, 1, 1), (1, 3, 1, 0)]),
        ("ring4-CO", "CCOO", [(1, 2, 2, 1), (3, 4, 2, 1), (1, 4, 0, 1), (3, 2, 0, 1)]),
    ]
    out = []
    for nm, els, ba in skeletons:
        n = len(els)
        subsets = [()] + [(i,) for i in range(1, n + 1)] + list(itertools.combinations(range(1, n + 1), 2))
        for what in ("charge", "aromatic"):
            rules = [_its(els, ba, {i: {what: 1} for i in sub}) for sub in subsets]
            # one renumbered copy of a two-atom member: isomorphic, must compare equal with the exact back-end
            pm = list(range(1, n + 1))
            rng.shuffle(pm)
            m = dict(zip(range(1, n + 1), [10 + 3 * x for x in pm]))
            sub = subsets[-1]
            rules.append(_its(els, [(m[u], m[v], b, a) for u, v, b, a in ba], {m[i]: {what: 1} for i in sub}, ids=[m[i] for i in range(1, n + 1)]))
            out.append(dict(kind="itsrule", sub="itsrule", rules=rules, name="itsrule/%s-%s" % (nm, what)))
    return out


def _renumber_rsmi(rsmi, rng):
    import re
    maps = sorted({int(m) for m in re.findall(r":(\d+)\]", rsmi)})
    new = maps[:]
    rng.shuffle(new)
    t = dict(zip(maps, new))
    return re.sub(r":(\d+)\]", lambda m: ":%d]" % t[int(m.group(1))], rsmi)


def _rule_cases(rng, k):
    cases = []
    for i, a in enumerate(RULES):
        cases.append(dict(kind="rule", a=a, b=_renumber_rsmi(a, rng), name="rule-renumber-%d" % i))
    pairs = list(itertools.combinations(range(len(RULES)), 2))
    for (i, j) in pairs[:k]:
        cases.append(dict(kind="rule", a=RULES[i], b=RULES[j], name="rule-pair-%d-%d" % (i, j)))
    return cases


def _random_graph(rng, nmax):
    from ..gen import graphs as GG
    n = rng.randint(1, nmax)
    small = rng.random() < 0.5
    g = GG.random_graph(rng, n, p_edge=rng.choice([0.2, 0.35, 0.5, 0.8]),
                        elements=("C", "C", "O") if small else ("C", "C", "O", "N", "Cl"),
                        orders=(1, 1, 2) if small else (1, 1, 2, 1.5, 3),
                        charges=(0,) if small else (0, 0, 0, 1, -1),
                        hcounts=(0, 0, 1) if small else (0, 1, 2, 3))
    amap = rng.random() < 0.6
    g = _norm_graph(g, amap=amap)
    if rng.random() < 0.3:
        for e in g["edges"]:
            e[2]["standard_order"] = rng.choice([0.0, 1.0, -1.0, 0.5, -0.5])
    elif rng.random() < 0.15:
        for e in g["edges"]:
            if rng.random() < 0.5:
                e[2]["standard_order"] = rng.choice([0.0, 0.0, 1.0, -0.5])
    if amap and rng.random() < 0.3:
        vals = [a["atom_map"] for _, a in g["nodes"]]
        rng.shuffle(vals)
        for (_, a), v in zip(g["nodes"], vals):
            a["atom_map"] = v
    if rng.random() < 0.3:
        for _, a in g["nodes"]:
            if rng.random() < 0.3:
                a["aromatic"] = True
    ids = [n_ for n_, _ in g["nodes"]]
    new = rng.sample(range(0, 40), len(ids))
    g = GG.relabel(g, dict(zip(ids, new)))
    return g


def gen_cases(tier, rng):
    from ..gen import graphs as GG
    cases = []
    classes = {n: [_norm_graph(g, amap=False) for g in GG.iso_classes(n, GG.MOL_NODE_LABELS, GG.MOL_EDGE_LABELS)] for n in (1, 2, 3, 4)}
    # exhaustive small scopes
    for n in (1, 2, 3):
        for i, g in enumerate(classes[n]):
            cases.append(_graph_case("iso%d" % n, g, rng, nalts=2 if tier == "quick" else 4, nothers=1))
    four = classes[4]
    if tier == "quick":
        pick = rng.sample(range(len(four)), 400)      # round 5: 500 -> 400 to pay for the digraph / selection / max_depth observables
    else:
        pick = range(len(four))
    for i in pick:
        cases.append(_graph_case("iso4", four[i], rng, nalts=2, nothers=1))
    # whole-family soundness: every pair of distinct classes must get distinct signatures
    for n in (2, 3, 4):
        byms = {}
        for g in classes[n]:
            byms.setdefault(tuple(sorted(_nkey(a) for _, a in g["nodes"])), []).append(g)
        for ms, gs in sorted(byms.items()):
            cases.append(dict(kind="batch", sub="batch%d" % n, graphs=gs, distinct_classes=True))
    # symmetric families
    fam = []
    for nm, g in _families():
        fam.append(_graph_case("family", g, rng, nalts=3 if tier == "quick" else 6, nothers=1, name="family/" + nm))
    # seeded random graphs
    nrand = 230 if tier == "quick" else 2000
    for _ in range(nrand):
        cases.append(_graph_case("random", _random_graph(rng, 9), rng, nalts=2, nothers=2))
    if tier == "thorough":
        for _ in range(2000):
            g = GG.random_graph(rng, 5, p_edge=rng.choice([0.3, 0.5, 0.7]), elements=("C", "O"), orders=(1, 2), charges=(0,), hcounts=(0, 1))
            cases.append(_graph_case("rand5", _norm_graph(g, amap=False), rng, nalts=2, nothers=1))
    # random batches: relabelled copies mixed with mutants (nauty: iso <=> equal signature)
    for _ in range(20 if tier == "quick" else 200):
        g = _random_graph(rng, 7)
        gs = [g] + [_reinsert(_renumber(g, rng, "keep"), rng) for _ in range(2)] + [_mutant(g, rng) for _ in range(4)]
        cases.append(dict(kind="batch", sub="batch-random", graphs=gs, distinct_classes=False))
    cases += _rule_cases(rng, 30 if tier == "quick" else 66) + _itsrule_cases(rng)
    cases += _its_cases(rng, tier) + _degenerate_cases(rng) + _size_cases(rng, tier) + _digraph_cases(rng, tier) + _missing_attr_cases(rng) + _string_id_cases(rng) + _allperm_cases(rng, tier)
    # the symmetric families are the expensive cases (cube, Petersen: hundreds of leaves and _refine calls each):
    # spread them over the shards instead of putting them into one
    k3 = 0
    for c in cases:
        if c.get("sub") in ("iso3", "iso4", "random"):
            period = (2 if c["sub"] == "random" else 4) * (1 if tier == "quick" else 3)
            c["deep"] = (k3 % period == 0)
            c["sel"] = (k3 % (2 * period) == 0)       # attribute selections of NautyCanonicalizer against the model: half of the deep cases
            k3 += 1
    step = max(1, len(cases) // (len(fam) + 1))
    for k, c in enumerate(fam):
        cases.insert(min(len(cases), (k + 1) * step + k), c)
    return cases


LEVEL_TEXT = ("Machine-checked proof (Coq) over an executable model of the four canonicalisation back-ends, the serialisation that feeds the digest, "
              "the individualisation-refinement search of nauty.py and the equality of the value wrappers: faithfulness and onto-1..N (all "
              "back-ends), signature = function of the graph (all back-ends), equal signatures => isomorphic (all back-ends), exact back-end "
              "invariant under any renumbering / re-ordering / re-orientation, wrappers equal exactly for isomorphic content - all for "
              "every well-formed graph incl. ITS graphs with (before, after) order pairs, no size bound; NautyCanonicalizer.graph_signature exact; the "
              "reported automorphisms sound and complete, compute_orbits = the orbits of the automorphism group; canonical_form(max_depth) "
              "exact when deep enough and always a faithful relabelling; the same clauses for networkx.DiGraph inputs (direction of every arc covered: "
              "signature a function of the digraph, equal signatures => isomorphic as digraphs, exact back-end invariant on digraphs).  "
              "The model is tied to the Python code on every run by comparing canonical permutation, "
              "best label, every _refine call, canonical graphs, serialisation strings, digest equality patterns and wrapper verdicts on "
              "exhaustive small scopes, symmetric families and seeded random graphs.")
LEVEL_NOTE = ("Trusted: Coq kernel + vm_compute; the hand-written model and the harness encoders; networkx Graph semantics; collision-freeness of "
              "truncated SHA-256 on the strings compared (explicit premise, monitored). WL colours / Morgan labels are oracle inputs of the "
              "model: 'signature = function of the graph' is proved for wl / morgan only GIVEN one ranking for both presentations (that the "
              "rankings do not depend on the presentation is monitored, not proved). SynRule is modelled as three fragment graphs: the "
              "three-signature comparison is proved componentwise-exact and joint-complete, and REFUTED as a characterisation of 'one "
              "bijection'; the REPAIRED comparison (rc graph signed with both sides of typesGH) is modelled at verdict level and proved exact: "
              "equal <=> one bijection preserving the two-sided ITS graph, for rules whose fragments are the projections of their ITS graph "
              "(checked per rule on every run).")
TECHNIQUE = ("Coq 8.16 proof about an executable Gallina model (generic individualisation-refinement theory lib/IRCore + lib/IRSearch "
             "instantiated for nauty.py; separator-parsing injectivity of the serialisation and label strings) + per-run correspondence "
             "(vm_compute digest vs implementation) + independent brute-force isomorphism oracle")
DESIGN_REF = "DESIGN.md section 5 C08, Appendix A.2/A.3; notes/C08.md"
