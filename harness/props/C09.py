"""C09 — reaction normal forms preserve the reaction; equivalence checks are exact.

case kinds
  {"kind": "canon-<how>", "rsmi": r, "backend": "wl"|"nauty", "orig": r0?}   CanonRSMI(backend).canonicalise(r); <how> in
        corpus | renum | reroot | frag | partial | addH | del | dup | regress | fix          (orig = the corpus reaction r was derived from)
  {"kind": "valid-<how>", "mapped": r1, "truth": r2, "x": .., "y": ..}         AAMValidator.smiles_check(r1, r2, RC / ITS); <how> in
        self | renum | reroot | swap-noneq | swap-eq | swap-other | cross | hand
  {"kind": "bal-<how>", "rsmi": r}                                             BalanceReactionCheck.rsmi_balance_check(r); <how> in
        corpus | std | frag | del | dup | charge | dropH | addH | addHfrag | hand
  {"kind": "std", "rsmi": r, "variants": [[how, r'], ...]}                     every way of calling Standardize on r and on every variant; model =
        the string-level logic (split / filter / sorted / join / None / ValueError / option forwarding / "[HH]") over RDKit oracle tables
  {"kind": "expand", "rsmi": r}                                                CanonRSMI.expand_aam(r): map numbers of every atom afterwards
  {"kind": "balstr", "rsmis": [..]}                                            rsmi_balance_check at string level (split, formula ==, ValueError)
  {"kind": "equiv", "rsmis": [..], "method": "RC"|"ITS"}                       AAMValidator.check_equivariant_graph on the graphs of the strings
  {"kind": "remap", "rsmi": r, "pvars": [[(new, old)..]..], "lvars": [[old..]..]}  CanonRSMI.remap_graph (both forms, error cases), get_aam_pairwise_indices
  {"kind": "normcore", "rsmi": r, "fix": b}                                    NormalizeAAM.fit: the graphs and the hydrogen list captured inside the call
  {"kind": "records", "input": {str|list|other}, "col": c}                     BalanceReactionCheck.parse_input / dicts_balance_check on records
  {"kind": "validate", "rows": [{gt, x, y, z}], "cols": [..], "method", "ia", "taut", "call", "df", "n_jobs"}  AAMValidator.validate_smiles: per column
        results / count / n; oracle: every entry point (batch, check_pair keywords, direct) agrees for every flag combination
  {"kind": "subgraph", "rsmi": r, "side": 0|1, "keep": [ids]}                  NormalizeAAM.extract_subgraph / reset_indices_and_atom_map on a parsed side
  {"kind": "fixaam", "rsmi": r}                                                FixAAM.fix_aam_rsmi(r) parsed again = the graphs of r with every id + 1 (+ the norm oracle)

Observables (graph level): canonical reactant graph, mapping_pairs, canonical product graph (node ids, all attributes);
validator verdicts RC / ITS + both reaction centres; balance verdict + element counts with hydrogens + charges.
"""
import json

from ..gen import c01_enc as E
from ..gen import c01_rsmi as R
from ..gen import c09_gen as G9
from ..gen import c09_hist as HI
from ..gen import c09_str as ST
from ..tok import S

PID = "C09"
COQ_HEADER = ("From Coq Require Import String.\nFrom Coq Require Import List NArith ZArith.\n"
              "From SK Require Import lib.Tok lib.LGraph lib.StrJoin model.C01_Model model.C02_Model model.C09_Model model.C09_Strings model.C09_State model.C09_Helpers model.C09_Records model.C09_Normalize.\n"
              "Import ListNotations.\nOpen Scope Z_scope.\n")
SHARD = 24
IMPL_TIMEOUT = 1500
COQ_TIMEOUT = 900
DESIGN_REF = "DESIGN.md section 5, C09"

BACKENDS = ("wl", "nauty")
# model-domain bounds (cost of vm_compute, measured): the nauty search of the model and the exhaustive ITS matcher
NAUTY_MAX_ATOMS = 45
ITS_MAX_ATOMS = 40


def worker_init():
    import logging
    logging.disable(logging.CRITICAL)


# ------------------------------------------------------------------ implementation adapter

class _Slow(Exception):
    pass


def _with_alarm(seconds, fn, *a):
    """run fn(*a) under a CPU-time budget (the pure-Python nauty search is exponential on highly symmetric reactant graphs,
    e.g. a duplicated large fragment; speed is not part of the property: such cases are counted, not judged)"""
    import signal

    def _h(*_):
        raise _Slow()
    # CPU time of this process, not wall time: the decision does not depend on the load of the machine
    old = signal.signal(signal.SIGVTALRM, _h)
    signal.setitimer(signal.ITIMER_VIRTUAL, seconds)
    try:
        return fn(*a)
    finally:
        signal.setitimer(signal.ITIMER_VIRTUAL, 0)
        signal.signal(signal.SIGVTALRM, old)


SLOW_IMPL_S = 20
SLOW_MODEL_S = 3


def _canon(rsmi, be, opts=None):
    from synkit.Chem.Reaction.canon_rsmi import CanonRSMI
    return CanonRSMI(backend=be, **_ctor_opts(opts)).canonicalise(rsmi)


def _ctor_opts(opts):
    kw = {}
    if opts:
        if "wl_iterations" in opts:
            kw["wl_iterations"] = opts["wl_iterations"]
        if "node_attrs" in opts:
            kw["node_attrs"] = list(opts["node_attrs"])
    return kw


def _raw_graphs(rsmi):
    """the graphs CanonRSMI.canonicalise hands to the canonicaliser: rsmi_to_graph(expand_aam(rsmi)); None if RDKit rejects"""
    from synkit.Chem.Reaction.canon_rsmi import CanonRSMI
    from synkit.IO import rsmi_to_graph
    try:
        ex = CanonRSMI().expand_aam(rsmi)
    except Exception:
        return None
    g, h = rsmi_to_graph(ex)
    if g is None or h is None:
        return None
    return g, h


def _impl_canon(case):
    from synkit.Chem.Reaction.canon_rsmi import CanonRSMI
    if _raw_graphs(case["rsmi"]) is None:
        return ["unparsable"]
    c = CanonRSMI(backend=case["backend"], **_ctor_opts(case.get("opts")))
    try:
        _with_alarm(SLOW_IMPL_S, c.canonicalise, case["rsmi"])
    except _Slow:
        return ["slow"]
    except ValueError as e:
        if "node_map must be non-empty" in str(e):
            return [-1]
        raise
    return [E.obs_mgraph(c.canonical_reactant_graph), [list(p) for p in c.mapping_pairs], E.obs_mgraph(c.canonical_product_graph)]


def _valid_graphs(rsmi):
    from synkit.IO.chem_converter import rsmi_to_graph
    try:
        g, h = rsmi_to_graph(rsmi=rsmi, sanitize=True, drop_non_aam=True)
    except Exception:
        return None
    if g is None or h is None:
        return None
    return g, h


def _unexpanded_graphs(rsmi):
    """rsmi_to_graph WITHOUT expand_aam and without dropping the unmapped atoms (they keep atom_map = 0, id = atom index)"""
    from synkit.IO import rsmi_to_graph
    try:
        g, h = rsmi_to_graph(rsmi, drop_non_aam=False)
    except Exception:
        return None
    if g is None or h is None:
        return None
    return g, h


def _validate_call(case):
    """AAMValidator.validate_smiles on the records of a `validate` case: list or DataFrame, options positional or by keyword,
    both values of ignore_tautomers, n_jobs 1 or 2"""
    from synkit.Chem.Reaction.aam_validator import AAMValidator
    data = [dict(r) for r in case["rows"]]
    if case.get("df"):
        import pandas as pd
        data = pd.DataFrame(data)
    taut, nj = bool(case.get("taut", True)), int(case.get("n_jobs", 1))
    if case.get("call", "pos") == "kw":
        return AAMValidator.validate_smiles(data, ignore_tautomers=taut, mapped_cols=list(case["cols"]), ignore_aromaticity=case["ia"],
                                            check_method=case["method"], ground_truth_col="gt", n_jobs=nj, verbose=0)
    return AAMValidator.validate_smiles(data, "gt", list(case["cols"]), case["method"], case["ia"], nj, 0, taut)


def _impl_valid(case):
    from synkit.Chem.Reaction.aam_validator import AAMValidator
    from synkit.Graph.ITS.its_construction import ITSConstruction
    from synkit.Graph.ITS.its_decompose import get_rc
    rc = AAMValidator.smiles_check(case["mapped"], case["truth"], "RC")
    its = AAMValidator.smiles_check(case["mapped"], case["truth"], "ITS")
    gs = [_valid_graphs(case["mapped"]), _valid_graphs(case["truth"])]
    if gs[0] is None or gs[1] is None:
        return ["unparsable", rc, its]
    rcs = [get_rc(ITSConstruction().ITSGraph(g, h)) for g, h in gs]
    out = [rc]
    if _its_in_domain(gs):
        out.append(its)
    return out + [E.obs_its(rcs[0]), E.obs_its(rcs[1])]


def _its_in_domain(gs):
    return max(len(set(g.nodes) | set(h.nodes)) for g, h in gs) <= ITS_MAX_ATOMS


def _side_graphs(rsmi):
    from synkit.IO.chem_converter import smiles_to_graph
    if rsmi.count(">>") != 1:
        return None
    a, b = rsmi.split(">>")
    g, h = smiles_to_graph(a), smiles_to_graph(b)
    if g is None or h is None:
        return None
    return g, h


def _counts(g):
    from collections import Counter
    c = Counter()
    q = 0
    for _, d in g.nodes(data=True):
        c[d["element"]] += 1
        c["H"] += d["hcount"]
        q += d["charge"]
    return c, q


def _impl_bal(case):
    from synkit.Chem.Reaction.balance_check import BalanceReactionCheck
    v = BalanceReactionCheck.rsmi_balance_check(case["rsmi"])
    gh = _side_graphs(case["rsmi"])
    if gh is None:
        return ["unparsable", v]
    (ca, qa), (cb, qb) = _counts(gh[0]), _counts(gh[1])
    els = sorted(set(ca) | set(cb) | {"H"})
    return [v, S([[E.elem_code(e), ca.get(e, 0), cb.get(e, 0)] for e in els]), qa, qb]


def _fit(rsmi):
    from synkit.Chem.Reaction.standardize import Standardize
    try:
        return Standardize().fit(rsmi)
    except ValueError:
        return "ValueError"


# ------------------------------------------------------------------ histories (round 3): steps on shared objects

DEFAULT_ATTRS = ("element", "aromatic", "charge", "hcount")


def _canon_term(rsmi, backend, wl_iterations=3, node_attrs=DEFAULT_ATTRS, state=False):
    """Gallina term of the model for CanonRSMI(backend, ...).canonicalise(rsmi), or None outside the model;
    state=True: the whole instance state after the call (model/C09_State.v), as the histories observe it"""
    gh = _raw_graphs(rsmi)
    if gh is None or not _ascii_elems(*gh) or gh[0].number_of_nodes() == 0 or not _simple(*gh):
        return None
    g, h = E.from_nx(gh[0]), E.from_nx(gh[1])
    if backend == "wl":
        r = _wl_ranks(gh[0], wl_iterations, node_attrs)
        ranks = "[" + "; ".join("(%s, %s)" % (E.cN(n), E.cZ(r[n])) for n, _ in g["nodes"]) + "]"
        return "%s %s %s %s" % ("run_cstate_wl" if state else "run_canon_wl", ranks, E.coq_mgraph(g), E.coq_mgraph(h))
    if backend == "generic":
        return "%s %s %s" % ("run_cstate_generic" if state else "run_canon_generic", E.coq_mgraph(g), E.coq_mgraph(h))
    if backend == "nauty":
        if tuple(node_attrs) != DEFAULT_ATTRS or len(g["nodes"]) > NAUTY_MAX_ATOMS:
            return None
        try:
            from synkit.Graph.canon_graph import GraphCanonicaliser
            _with_alarm(SLOW_MODEL_S, GraphCanonicaliser(backend="nauty")._canon_nauty, gh[0])
        except _Slow:
            return None
        return "%s %s %s" % ("run_cstate_nauty" if state else "run_canon_nauty", E.coq_mgraph(g), E.coq_mgraph(h))
    return None                                   # morgan: oracle only


def _hist_terms(case):
    """[(step index, Gallina term)] for the steps the model evaluates (static decision, shared by impl and coq_case)"""
    worker_init()
    steps = case["steps"]
    out = []
    ctor, last = {}, {}
    for i, st in enumerate(steps):
        op = st["op"]
        try:
            if op == "new":
                ctor[st["obj"]] = st
            elif op == "mutate":
                last.pop(st["obj"], None)
            elif op == "check":
                gs = [_valid_graphs(st["m"]), _valid_graphs(st["t"])]
                if any(g is not None and not _simple(*g) for g in gs):
                    continue
                default = st.get("api") == "default"
                meth = "RC" if default else st.get("method", "RC")
                if not ST.ascii_ok(meth):
                    continue
                rc = meth.upper() == "RC"
                if not rc and not all(g is None for g in gs) and not _its_in_domain([g for g in gs if g is not None]):
                    continue
                opt = lambda gh: "None" if gh is None else "(Some (%s, %s))" % (E.coq_mgraph(E.from_nx(gh[0])), E.coq_mgraph(E.from_nx(gh[1])))
                ia = "true" if st.get("ia") and not default else "false"
                # the method string is dispatched by the MODEL (check_method.upper() == "RC"); unreadable strings -> None -> False
                if st.get("api") == "taut":
                    # check_pair(..., ignore_tautomers=False): the tautomers of the ground truth (RDKit, through the library's helper) are
                    # an oracle input of the model
                    from synkit.Chem.utils import enumerate_tautomers
                    try:
                        ts = enumerate_tautomers(st["t"])
                    except Exception:
                        ts = None
                    tgs = None if ts is None else [_valid_graphs(t) for t in ts]
                    if tgs is not None and (any(g is not None and not _simple(*g) for g in tgs)
                                            or (not rc and not _its_in_domain([g for g in tgs if g is not None] or [gs[0] or gs[1]]))):
                        continue
                    tl = "None" if tgs is None else "(Some [%s])" % "; ".join(opt(g) for g in tgs)
                    out.append((i, "topt tbool (check_pair %s %s false %s %s %s)" % (ST.cbytes(meth), ia, opt(gs[0]), opt(gs[1]), tl)))
                else:
                    out.append((i, "tbool (smiles_check_full %s %s %s %s)" % (ST.cbytes(meth), ia, opt(gs[0]), opt(gs[1]))))
            elif op == "canon":
                c = ctor[st["obj"]]
                t = _canon_term(st["rsmi"], c["backend"], c.get("wl_iterations", 3), tuple(c.get("node_attrs", DEFAULT_ATTRS)), state=True)
                last[st["obj"]] = t
                if t is not None:
                    out.append((i, t))
            elif op == "helpers":
                gh = _raw_graphs(st["rsmi"])
                if gh is None or not _ascii_elems(*gh) or gh[1].number_of_nodes() == 0 or not _simple(*gh):
                    continue
                out.append((i, "run_remap_list %s [%s]" % (E.coq_mgraph(E.from_nx(gh[1])), "; ".join(E.cN(n) for n in sorted(gh[1].nodes)))))
            elif op == "props":
                t = last.get(st["obj"])
                if t is not None:
                    out.append((i, t))
            elif op == "bal" and st.get("api") in ("rsmi", "dict", "dicts", "dicts_str", "dicts_one"):
                rs = list(st["rsmis"]) if st["api"] != "dicts_one" else list(st["rsmis"])[:1]
                ghs = [_side_graphs(r) for r in rs]
                if any(x is None for x in ghs) or not rs:
                    continue
                lits = [(E.coq_mgraph(E.from_nx(a)), E.coq_mgraph(E.from_nx(b))) for a, b in ghs]
                if st["api"].startswith("dicts"):
                    if len(set(rs)) != len(rs) and st["api"] != "dicts":
                        continue
                    out.append((i, "run_bal_part [%s]" % "; ".join("(%d%%nat, (%s, %s))" % (k, a, b) for k, (a, b) in enumerate(lits))))
                else:
                    out.append((i, "L [%s]" % "; ".join("tbool (balancedb %s %s)" % ab for ab in lits)))
        except (KeyError, TypeError, ValueError):
            continue
    return out


def _impl_hist(case):
    res = HI.run_history(case["steps"])
    if not (isinstance(res, list) and len(res) == len(case["steps"]) and all(isinstance(r, dict) for r in res)):
        return ["history-failed", res]
    return [res[i]["model"] for i, _ in _hist_terms(case)]


def _ref_check(st):
    """reference verdict of a validator step, or None when the inputs are outside the property's domain"""
    I1, I2 = G9.ref_its(st["m"]), G9.ref_its(st["t"])
    if I1 is None or I2 is None:
        return None
    default = st.get("api") == "default"
    if st.get("method", "RC").upper() == "RC" or default:
        tol = bool(st.get("ia")) and not default
        return G9.iso(G9.ref_rc(I1, tol), G9.ref_rc(I2, tol))
    return G9.iso(I1, I2)


def _oracle_hist(case):
    steps = case["steps"]
    res = HI.run_history(steps)
    if not (isinstance(res, list) and len(res) == len(steps) and all(isinstance(r, dict) for r in res)):
        return [_fail("history-crash", "history did not run: %r" % (res,))]
    fails = []
    for i, st in enumerate(steps):
        got = res[i]["full"]
        where = "step %d %s of %s" % (i, json.dumps(st)[:300], case.get("name", ""))
        # (1) the answer of every step is the answer of a fresh evaluation (fresh objects, nothing called before)
        fresh = HI.run_fresh(steps, i)
        if fresh is not None:
            ff = fresh["full"] if isinstance(fresh, dict) else fresh
            if ff != got:
                fails.append(_fail("history-independence", "%s: in the history %s, evaluated alone %s" % (where, json.dumps(got)[:250], json.dumps(ff)[:250])))
                continue
        # (2) the property itself, per step, against the independent references
        if st["op"] == "check" and st.get("api") != "taut" and isinstance(got, list):
            want = _ref_check(st)
            if want is not None and got[0] != want:
                fails.append(_fail("validator-exact", "%s: verdict %r, reference %r" % (where, got[0], want)))
            if st.get("api") in ("batch", "df") and isinstance(got[1], list) and want is not None:
                import re
                sr = lambda x: 100.0 if re.search(r":\d+", x) else 0.0
                exp = [["x", 100.0 if want else 0.0, [want], sr(st["m"])], ["y", 100.0, [True], sr(st["t"])]]
                if got[1] != exp and G9.ref_its(st["t"]) is not None:
                    fails.append(_fail("validator-batch", "%s: validate_smiles rows %r, expected %r" % (where, got[1], exp)))
        elif st["op"] == "bal" and st.get("api") in ("rsmi", "dict", "dicts", "dicts_str", "dicts_one") and isinstance(got, list):
            vs = got if st["api"] == "rsmi" else got[0]
            rs = list(st["rsmis"]) if st["api"] != "dicts_one" else list(st["rsmis"])[:1]
            for r, v in zip(rs, vs):
                want = G9.ref_balanced(r) if r.count(">>") == 1 else None
                if want is not None and v != want:
                    fails.append(_fail("balance-iff", "%s: %r judged %r, reference %r" % (where, r, v, want)))
            if st["api"].startswith("dicts") and not (got[3] and got[4] == len(rs)):
                fails.append(_fail("balance-partition", "%s: flags/partition inconsistent %r" % (where, got)))
        elif st["op"] == "canon" and isinstance(got, dict) and got.get("rsmi"):
            r, out = st["rsmi"], got["rsmi"]
            I_in = G9.ref_its(r) if r.count(">>") == 1 else None
            if I_in is not None and len(I_in) and "None" not in out.split(">>"):
                I_out = G9.ref_its(out)
                if I_out is None or (I_in.graph["unmapped"] == (0, 0) and not G9.iso(I_in, I_out)):
                    fails.append(_fail("canon-equivalent", "%s: canonical form %r not atom-map-equivalent" % (where, out)))
                elif _sides_unmapped(out) != _sides_unmapped(r):
                    fails.append(_fail("canon-unmapped-sides", "%s: unmapped sides changed in %r" % (where, out)))
            if not got.get("returns_self", True):
                fails.append(_fail("canon-api", "%s: canonicalise did not return the object" % where))
        elif st["op"] == "std" and st.get("api") == "categorize" and isinstance(got, list) and len(got) == 2:
            tgt = _std_modes()[4][1](st["rsmi"])
            want = [[x for x in st["others"] if x == tgt], [x for x in st["others"] if x != tgt]]
            if got != want:
                fails.append(_fail("standardize-api", "%s: categorize_reactions gives %r, expected %r" % (where, got, want)))
        elif st["op"] == "helpers" and isinstance(got, list) and len(got) == 4 and (got[0] != got[1] or got[2] != got[3]):
            fails.append(_fail("canon-api", "%s: get_aam_pairwise_indices forms differ or remap_graph(list[int]) <> remap_graph(pairs): %s"
                               % (where, json.dumps(got)[:300])))
        elif st["op"] == "props" and isinstance(got, list) and got[0] != got[1]:
            fails.append(_fail("history-independence", "%s: two consecutive reads of the properties differ" % where))
    return fails[:3]


def impl(case):
    k = case["kind"]
    if k.startswith("hist-"):
        return _impl_hist(case)
    if k.startswith("canon-"):
        return _impl_canon(case)
    if k.startswith("valid-"):
        return _impl_valid(case)
    if k.startswith("bal-"):
        return _impl_bal(case)
    if k == "std":
        return ST.std_impl(case)
    if k == "norm":
        return _norm_run(case["rsmi"])
    if k == "expand":
        return ST.expand_obs(case["rsmi"])
    if k == "balstr":
        return ST.balstr_impl(case)
    if k == "equiv":
        return ST.equiv_impl(case)
    if k == "normcore":
        try:
            _, rec = ST.normalize_capture(case["rsmi"], case.get("fix", True))
        except Exception as e:
            return ["raises", type(e).__name__]
        if rec["graphs"] is None or rec["graphs"][0] is None or rec["graphs"][1] is None or len(rec["ih"]) != 2:
            return ["no-graphs"]
        (p1, g1), (p2, g2) = rec["ih"]
        return [S(sorted(set(p1))), E.obs_mgraph(g1), E.obs_mgraph(g2)] if sorted(p1) == sorted(p2) else ["lists-differ", p1, p2]
    if k == "records":
        return ST.records_impl(case)
    if k == "remap":
        from synkit.Chem.Reaction.canon_rsmi import CanonRSMI
        gh = _unexpanded_graphs(case["rsmi"])
        if gh is None:
            return ["unparsable"]
        G, H = gh
        c = CanonRSMI()

        def run(v):
            try:
                X = CanonRSMI.remap_graph(H, v)
            except ValueError:
                return [-1]
            except KeyError:
                return [-2]
            Y = X.copy()
            c.sync_atom_map_with_index(Y)
            return [E.obs_mgraph(X), E.obs_mgraph(Y)]
        return [[list(p) for p in CanonRSMI.get_aam_pairwise_indices(G, H)], [list(p) for p in c.get_aam_pairwise_indices(H, G, "atom_map")],
                [run([tuple(p) for p in v]) for v in case["pvars"]], [run(list(v)) for v in case["lvars"]]]
    if k == "validate":
        res = _validate_call(case)
        n = len(case["rows"])
        if not case.get("taut", True):
            # tautomer path: results may be True / False / None (enumeration failed): [] = None, [b] otherwise
            return [[([] if x is None else [bool(x)]) for x in r["results"]] for r in res]
        out = []
        for col, r in zip(case["cols"], res):
            rs = [bool(x) for x in r["results"]]
            acc = round(100 * (sum(rs) / n), 2) if n else 0.0
            out.append([rs, sum(rs), n, r["mapper"] == col and r["accuracy"] == acc and len(r["results"]) == n])
        return out
    if k == "subgraph":
        from synkit.Graph.ITS.normalize_aam import NormalizeAAM
        gh = _valid_graphs(case["rsmi"])
        if gh is None:
            return ["unparsable"]
        g = gh[case.get("side", 0)]
        sub = NormalizeAAM.extract_subgraph(g, list(case["keep"]))
        n = NormalizeAAM()
        return [E.obs_mgraph(sub), E.obs_mgraph(n.reset_indices_and_atom_map(sub)), E.obs_mgraph(n.reset_indices_and_atom_map(g, "atom_map"))]
    if k == "fixaam":
        from synkit.Chem.Reaction.fix_aam import FixAAM
        gh = _valid_graphs(FixAAM.fix_aam_rsmi(case["rsmi"]))
        return ["unparsable"] if gh is None else [E.obs_mgraph(gh[0]), E.obs_mgraph(gh[1])]
    raise AssertionError(k)


# ------------------------------------------------------------------ model encoder

def _wl_ranks(G, iterations=3, node_attrs=("element", "aromatic", "charge", "hcount")):
    """The colours GraphCanonicaliser._canon_wl sorts by (networkx WL subgraph hashes, the implementation's own call, wrapped),
    shipped as order-preserving ranks: an oracle input of the model."""
    import synkit.Graph.canon_graph as M
    seen = {}
    orig = M._wl_hashes

    def wrapped(*a, **k):
        out = orig(*a, **k)
        seen.update({n: h[-1] for n, h in out.items()})
        return out
    M._wl_hashes = wrapped
    try:
        M.GraphCanonicaliser(backend="wl", wl_iterations=iterations, node_attrs=list(node_attrs))._canon_wl(G)
    finally:
        M._wl_hashes = orig
    vals = sorted(set(seen.values()))
    idx = {c: i for i, c in enumerate(vals)}
    return {n: idx[c] for n, c in seen.items()}


def _simple(*gs):
    """no self-loops (a map number repeated on one side merges two atoms of the parsed graph: outside the model's domain)"""
    return all(u != v for g in gs for u, v in g.edges())


def _ascii_elems(*gs):
    return all(d.get("element", "").isascii() and 0 < len(d.get("element", "")) <= 3 for g in gs for _, d in g.nodes(data=True))


def coq_case(case):
    worker_init()
    k = case["kind"]
    if k.startswith("hist-"):
        ts = _hist_terms(case)
        return "L [%s]" % "; ".join(t for _, t in ts)
    try:
        if k.startswith("canon-"):
            o = case.get("opts") or {}
            return _canon_term(case["rsmi"], case["backend"], o.get("wl_iterations", 3), tuple(o.get("node_attrs", DEFAULT_ATTRS)))
        if k.startswith("valid-"):
            gs = [_valid_graphs(case["mapped"]), _valid_graphs(case["truth"])]
            if gs[0] is None or gs[1] is None:
                return None
            lits = " ".join(E.coq_mgraph(E.from_nx(x)) for gh in gs for x in gh)
            return ("run_valid %s" if _its_in_domain(gs) else "run_valid_rc %s") % lits
        if k.startswith("bal-"):
            gh = _side_graphs(case["rsmi"])
            if gh is None:
                return None
            return "run_balance %s %s" % (E.coq_mgraph(E.from_nx(gh[0])), E.coq_mgraph(E.from_nx(gh[1])))
        if k == "std":
            return ST.std_term(case)
        if k == "expand":
            return ST.expand_term(case["rsmi"])
        if k == "balstr":
            return ST.balstr_term(case)
        if k == "normcore":
            try:
                _, rec = ST.normalize_capture(case["rsmi"], case.get("fix", True))
            except Exception:
                return None
            gh = rec["graphs"]
            if gh is None or gh[0] is None or gh[1] is None or not _ascii_elems(*gh) or not _simple(*gh):
                return None
            return "run_normalize %s %s" % (E.coq_mgraph(E.from_nx(gh[0])), E.coq_mgraph(E.from_nx(gh[1])))
        if k == "records":
            return ST.records_term(case)
        if k == "remap":
            gh = _unexpanded_graphs(case["rsmi"])
            if gh is None or not _ascii_elems(*gh) or not _simple(*gh):
                return None
            pv = "[" + "; ".join("[" + "; ".join("(%s, %s)" % (E.cN(a), E.cN(b)) for a, b in v) + "]" for v in case["pvars"]) + "]"
            lv = "[" + "; ".join("[" + "; ".join(E.cN(a) for a in v) + "]" for v in case["lvars"]) + "]"
            return "run_helpers %s %s %s %s" % (E.coq_mgraph(E.from_nx(gh[0])), E.coq_mgraph(E.from_nx(gh[1])), pv, lv)
        if k == "validate":
            if not ST.ascii_ok(case["method"]):
                return None
            memo = {}

            def opt(r):
                if r not in memo:
                    gh = _valid_graphs(r)
                    if gh is not None and not _simple(*gh):
                        raise ValueError("outside")
                    memo[r] = "None" if gh is None else "(Some (%s, %s))" % (E.coq_mgraph(E.from_nx(gh[0])), E.coq_mgraph(E.from_nx(gh[1])))
                return memo[r]
            if case["method"].upper() != "RC":
                gs = [_valid_graphs(r[c]) for r in case["rows"] for c in ["gt"] + list(case["cols"])]
                if not _its_in_domain([g for g in gs if g is not None] or [_valid_graphs("[CH4:1]>>[CH4:1]")]):
                    return None
            if not case.get("taut", True):
                # the tautomer strings are RDKit's enumeration through the library's own helper: an oracle input of the model
                from synkit.Chem.utils import enumerate_tautomers

                def tauts(gt):
                    try:
                        ts = enumerate_tautomers(gt)
                    except Exception:
                        ts = None
                    return "None" if ts is None else "(Some [%s])" % "; ".join(opt(t) for t in ts)
                rows = ["(%s, %s, [%s])" % (opt(r["gt"]), tauts(r["gt"]), "; ".join(opt(r[c]) for c in case["cols"])) for r in case["rows"]]
                return "run_validate_t %s %s false %d%%nat [%s]" % (ST.cbytes(case["method"]), "true" if case["ia"] else "false", len(case["cols"]), "; ".join(rows))
            rows = ["(%s, [%s])" % (opt(r["gt"]), "; ".join(opt(r[c]) for c in case["cols"])) for r in case["rows"]]
            return "run_validate %s %s %d%%nat [%s]" % (ST.cbytes(case["method"]), "true" if case["ia"] else "false", len(case["cols"]), "; ".join(rows))
        if k == "subgraph":
            gh = _valid_graphs(case["rsmi"])
            if gh is None or not _simple(*gh):
                return None
            from synkit.Graph.ITS.normalize_aam import NormalizeAAM
            g = gh[case.get("side", 0)]
            # list(subgraph.nodes()): networkx iterates the copy of a subgraph VIEW in the order of a Python set when fewer nodes are kept
            # than the graph has (an oracle input of the model)
            order = list(NormalizeAAM.extract_subgraph(g, list(case["keep"])).nodes())
            return "run_subgraph %s [%s] [%s]" % (E.coq_mgraph(E.from_nx(g)), "; ".join(E.cN(n) for n in case["keep"]), "; ".join(E.cN(n) for n in order))
        if k == "fixaam":
            gh = _valid_graphs(case["rsmi"])
            if gh is None or not _simple(*gh):
                return None
            return "run_fixaam %s %s" % (E.coq_mgraph(E.from_nx(gh[0])), E.coq_mgraph(E.from_nx(gh[1])))
        if k == "equiv":
            lits = []
            for r in case["rsmis"]:
                gh = _valid_graphs(r)
                if gh is None or not _simple(*gh) or (case.get("method") == "ITS" and not _its_in_domain([gh])):
                    return None
                lits.append((E.coq_mgraph(E.from_nx(gh[0])), E.coq_mgraph(E.from_nx(gh[1]))))
            return ST.equiv_term(case, lits)
    except (KeyError, TypeError, ValueError):
        return None
    return None


# ------------------------------------------------------------------ property oracle (the property text, independent references)

def _fail(clause, detail, key=None):
    d = dict(clause=clause, detail=str(detail)[:700])
    if key:
        d["key"] = key
    return d


def _sides_unmapped(rsmi):
    a, b = rsmi.split(">>")
    return R.unmapped_side(a), R.unmapped_side(b)


def _oracle_canon(case):
    r, be, opts = case["rsmi"], case["backend"], case.get("opts")
    if r.count(">>") != 1:
        return []
    I_in = G9.ref_its(r)
    if I_in is None:
        return []                      # RDKit cannot read the input, or a map number occurs twice on a side: not a mapped reaction
    fails = []
    # monitor of the theorems' premise [parsed]: the graphs handed to the canonicaliser have node id = atom_map > 0
    gh = _raw_graphs(r)
    if gh is not None:
        for side, g in zip("GH", gh):
            bad = [n for n, d in g.nodes(data=True) if not (isinstance(n, int) and n > 0 and d.get("atom_map") == n)]
            if bad or any(u == v for u, v in g.edges()):
                fails.append(_fail("monitor-parsed", "raw %s graph of %r: node id <> atom_map or <= 0 at %r / self-loop" % (side, r, bad[:5])))
    try:
        out = _canon(r, be, opts).canonical_rsmi
    except _Slow:
        raise
    except Exception as e:
        if not set(I_in.nodes):
            return []
        return [_fail("canon-raises", "%s(%s) on %s" % (type(e).__name__, str(e)[:200], r))]
    if out is None or "None" in out.split(">>"):
        return [_fail("canon-no-output", "canonical_rsmi = %r for %s" % (out, r))]
    I_out = G9.ref_its(out)
    if I_out is None:
        return [_fail("canon-output-unreadable", "canonical_rsmi %r of %s is not a readable mapped reaction" % (out, r))]
    # 1. atom-map-equivalent: isomorphic ITS.  The canonicaliser maps every reactant atom (expand_aam), so for a partially
    #    mapped input only the mapped part can be compared: the input ITS must be the output ITS restricted to the atoms that
    #    were mapped in the input; we demand the clause when the input is fully mapped.
    full = I_in.graph["unmapped"] == (0, 0)
    if full and not G9.iso(I_in, I_out):
        fails.append(_fail("canon-equivalent", "ITS of canonical form %r is not isomorphic to the ITS of %r" % (out, r)))
    # 2. same unmapped reactants and products
    if _sides_unmapped(out) != _sides_unmapped(r):
        fails.append(_fail("canon-unmapped-sides", "unmapped sides differ: in %r out %r" % (_sides_unmapped(r), _sides_unmapped(out))))
    # 3. fixed point (the property quantifies over the back-ends wl and nauty; morgan seeds every atom with a prime chosen by the
    #    position of its id, so it is numbering dependent by construction, and generic sorts by attributes and id)
    if be not in ("wl", "nauty"):
        return fails
    try:
        out2 = _canon(out, be, opts).canonical_rsmi
    except _Slow:
        raise
    except Exception as e:
        out2 = "%s: %s" % (type(e).__name__, e)
    if out2 != out:
        fails.append(_fail("canon-fixed-point", "canon(canon(r)) = %r, canon(r) = %r, r = %r" % (out2, out, r)))
    # 4. independent of numbering / atom order when the reactant atoms are all distinguishable
    if case.get("orig") and case["kind"] in ("canon-renum", "canon-reroot", "canon-frag"):
        a0 = case["orig"].split(">>")[0]
        dist = G9.all_distinguishable(a0)
        only_iter = bool(opts) and set(opts) == {"wl_iterations"}
        # the property demands the clause whenever all reactant atoms are distinguishable (no non-trivial automorphism) - for BOTH back-ends.
        # For wl that is more than WL can deliver: atoms that are distinguishable but share their WL colour are ordered by (degree, id), i.e.
        # by the input numbering (known finding wl-tied-colours-distinguishable, theorem C09_numbering_independent_wl_refuted)
        wl_tied = be == "wl" and not G9.wl_colours_distinct(a0, iterations=(opts or {}).get("wl_iterations", 3))
        if dist and ((not opts and be == "nauty") or (be == "wl" and (not opts or only_iter))):
            try:
                c0 = _canon(case["orig"], be, opts)
                out0 = c0.canonical_rsmi
                h0, h1 = c0.canonical_hash, _canon(r, be, opts).canonical_hash
                if out0 == out and h0 != h1:
                    fails.append(_fail("canon-numbering-independent", "canonical_hash differs (%r vs %r) for %r and %r" % (h1, h0, r, case["orig"])))
            except _Slow:
                raise
            except Exception as e:
                out0 = "%s: %s" % (type(e).__name__, e)
            if out0 != out:
                I0 = G9.ref_its(case["orig"])
                lone = 0 if I0 is None else sum(1 for _, d in I0.nodes(data=True) if d["lab"][0] is None) + I0.graph["unmapped"][1]
                # known findings: two or more product atoms without reactant partner are numbered in the order of their input numbers;
                # wl cannot separate distinguishable atoms that share their WL colour
                key = "partnerless-product-atoms-order" if lone >= 2 else ("wl-tied-colours-distinguishable" if wl_tied else None)
                fails.append(_fail("canon-numbering-independent", "canon(%r) = %r but canon(%r) = %r (all reactant atoms distinguishable%s)"
                                   % (r, out, case["orig"], out0, "; WL colours tied" if wl_tied else ""), key=key))
    return fails


def _oracle_valid(case):
    from synkit.Chem.Reaction.aam_validator import AAMValidator
    m, t, k = case["mapped"], case["truth"], case["kind"]
    I1, I2 = G9.ref_its(m), G9.ref_its(t)
    if I1 is None or I2 is None:
        return []
    want_its = G9.iso(I1, I2)
    want_rc = G9.iso(G9.ref_rc(I1), G9.ref_rc(I2))
    got_rc = AAMValidator.smiles_check(m, t, "RC")
    got_its = AAMValidator.smiles_check(m, t, "ITS")
    fails = []
    if k in ("valid-renum", "valid-self", "valid-reroot", "valid-swap-eq"):
        # a renumbering (or a rewriting, or a swap of two atoms whose transposition is an automorphism) denotes the same mapping
        if not want_its:
            return [_fail("generator", "reference says %s is not equivalent: %r vs %r" % (k, m, t))]
        if not got_its or not got_rc:
            fails.append(_fail("validator-accepts-renumbering", "%s rejected (RC=%r ITS=%r): %r vs %r" % (k, got_rc, got_its, m, t)))
    else:
        if not want_its and got_its:
            fails.append(_fail("validator-rejects", "ITS check accepts non-equivalent mappings (%s, atoms %r/%r): %r vs %r"
                               % (k, case.get("x"), case.get("y"), m, t)))
        if not want_rc and got_rc:
            fails.append(_fail("validator-rejects", "RC check accepts mappings with non-isomorphic centres (%s, atoms %r/%r): %r vs %r"
                               % (k, case.get("x"), case.get("y"), m, t)))
        if want_its and not got_its:
            fails.append(_fail("validator-exact", "ITS check rejects equivalent mappings (%s): %r vs %r" % (k, m, t)))
        if want_rc and not got_rc:
            fails.append(_fail("validator-exact", "RC check rejects mappings with isomorphic centres (%s): %r vs %r" % (k, m, t)))
    return fails


def _oracle_bal(case):
    from synkit.Chem.Reaction.balance_check import BalanceReactionCheck
    want = G9.ref_balanced(case["rsmi"])
    if want is None:
        return []
    got = BalanceReactionCheck.rsmi_balance_check(case["rsmi"])
    if got != want:
        a, b = case["rsmi"].split(">>")
        return [_fail("balance-iff", "rsmi_balance_check = %r but element counts/charge %s: %r vs %r on %r"
                      % (got, "agree" if want else "differ", G9.formula(a), G9.formula(b), case["rsmi"]))]
    return []


def _norm_run(rsmi):
    from synkit.Graph.ITS.normalize_aam import NormalizeAAM
    from synkit.Chem.Reaction.fix_aam import FixAAM
    out = []
    for f in (lambda: FixAAM.fix_aam_rsmi(rsmi), lambda: FixAAM().fix_aam_rsmi(rsmi), lambda: NormalizeAAM().fit(rsmi),
              lambda: NormalizeAAM().fit(rsmi, fix_aam_indice=False), lambda: NormalizeAAM().fit(rsmi, True)):
        try:
            out.append(f())
        except Exception as e:
            out.append("%s" % type(e).__name__)
    return out


def _oracle_norm(case):
    """FixAAM.fix_aam_rsmi is a renumbering (+1) of a fully mapped reaction; NormalizeAAM.fit keeps the reaction centre
    (it makes the hydrogens outside the centre implicit and re-writes the aromatic bonds)"""
    r = case["rsmi"]
    I = G9.ref_its(r)
    if I is None or I.graph["unmapped"] != (0, 0) or not len(I):
        return []
    fx, fx2, nm, nm0, nm1 = _norm_run(r)
    fails = []
    J = G9.ref_its(fx) if ">>" in fx else None
    if J is None or not G9.iso(I, J) or fx2 != fx:
        fails.append(_fail("fixaam-renumbering", "fix_aam_rsmi(%r) = %r / %r is not a renumbering of the mapping" % (r, fx, fx2)))
    for tag, n in (("fit", nm), ("fit(fix_aam_indice=False)", nm0), ("fit(rsmi, True)", nm1)):
        K = G9.ref_its(n) if ">>" in n else None
        if K is None or not G9.iso(G9.ref_rc(I), G9.ref_rc(K)):
            fails.append(_fail("normalize-centre", "NormalizeAAM.%s of %r = %r does not have an isomorphic reaction centre" % (tag, r, n)))
            break
    if nm1 != nm:
        fails.append(_fail("normalize-centre", "fit(r) = %r but fit(r, True) = %r" % (nm, nm1)))
    return fails


# every way of calling the standardiser: (name, callable(rsmi) -> str | None | "ValueError", keeps the map numbers?)
def _std_modes():
    from synkit.Chem.Reaction.standardize import Standardize

    def guard(f):
        def g(r):
            try:
                return f(r)
            except ValueError:
                return "ValueError"
        return g
    s = Standardize()
    return [
        ("fit()", guard(lambda r: Standardize().fit(r)), False),
        ("fit(remove_aam=True, ignore_stereo=False)", guard(lambda r: s.fit(r, remove_aam=True, ignore_stereo=False)), False),
        ("fit(remove_aam=False)", guard(lambda r: s.fit(r, remove_aam=False)), True),
        ("fit(r, False, False)", guard(lambda r: s.fit(r, False, False)), True),
        ("standardize_rsmi(stereo=False)", guard(lambda r: Standardize.standardize_rsmi(r, stereo=False)), True),
        ("standardize_rsmi(r, True)", guard(lambda r: Standardize.standardize_rsmi(r, True)), True),
    ]


def _bare_sides(std):
    """a standard form up to its map numbers: per side the sorted canonical SMILES of the fragments with the numbers cleared
    (RDKit as parser / writer only; the text with numbers is written in a number-dependent atom order)"""
    if not isinstance(std, str) or ">>" not in std:
        return std
    from rdkit import Chem
    out = []
    for side in std.split(">>"):
        mol = Chem.MolFromSmiles(side, sanitize=False)
        if mol is None:
            return std
        for a in mol.GetAtoms():
            a.SetAtomMapNum(0)
        try:
            Chem.SanitizeMol(mol)
        except Exception:
            return std
        out.append(sorted(Chem.MolToSmiles(mol).split(".")))
    return out


def _std_all(rsmi):
    return [f(rsmi) for _, f, _ in _std_modes()]


def _oracle_std(case):
    """Standardising is idempotent and invariant under atom order, fragment order and map numbers - for EVERY way of calling
    it.  With the map numbers kept (remove_aam=False / standardize_rsmi) the result of a renumbered input is compared up to the
    numbers; atom order and fragment order must give the identical string."""
    r = case["rsmi"]
    fails = []
    for name, f, keeps in _std_modes():
        base = f(r)
        if base in (None, "ValueError"):
            continue
        again = f(base)
        if again != base:
            fails.append(_fail("standardize-idempotent", "%s: f(f(r)) = %r, f(r) = %r, r = %r" % (name, again, base, r)))
        for how, v in case.get("variants", []):
            fv = f(v)
            same = (_bare_sides(fv) == _bare_sides(base)) if (keeps and how == "renum") else (fv == base)
            if not same:
                fails.append(_fail("standardize-invariant", "%s: %s variant %r gives %r but %r gives %r" % (name, how, v, fv, r, base)))
                break
        if len(fails) >= 3:
            break
    return fails[:3]


def _oracle_expand(case):
    """expand_aam (first step of the canonicaliser): every atom is numbered afterwards, mapped atoms keep their number, the new
    numbers are fresh and pairwise different - so no unmapped atom gets a partner on the other side (reference: the numbers
    read off the two strings with a regular expression + RDKit's atom count)"""
    import re
    from synkit.Chem.Reaction.canon_rsmi import CanonRSMI
    r = case["rsmi"]
    if r.count(">>") != 1:
        return []
    sides = r.split(">>")
    mols = [G9._mol(x) if all(G9._mol(f) is not None for f in x.split(".")) else None for x in sides]
    if any(m is None for m in mols):
        return []
    try:
        out = CanonRSMI().expand_aam(r)
    except Exception as e:
        return [_fail("expand-raises", "%s on %r" % (type(e).__name__, r))]
    num = lambda x: [int(v) for v in re.findall(r":(\d+)\]", x)]
    a, b = out.split(">>")
    ia, ib, oa, ob = num(sides[0]), num(sides[1]), num(a), num(b)
    fails = []
    if len(oa) != mols[0].GetNumAtoms() or len(ob) != mols[1].GetNumAtoms() or 0 in oa + ob:
        fails.append(_fail("expand-all-mapped", "not every atom is numbered in %r (from %r)" % (out, r)))
    new_a, new_b = list(oa), list(ob)
    for x in [v for v in ia if v]:
        if x in new_a:
            new_a.remove(x)
        else:
            fails.append(_fail("expand-keeps", "reactant number %d of %r is gone in %r" % (x, r, out)))
    for x in [v for v in ib if v]:
        if x in new_b:
            new_b.remove(x)
        else:
            fails.append(_fail("expand-keeps", "product number %d of %r is gone in %r" % (x, r, out)))
    fresh = new_a + new_b
    if len(set(fresh)) != len(fresh) or set(fresh) & (set(ia) | set(ib)):
        fails.append(_fail("expand-fresh", "new numbers %r are not fresh / distinct: %r -> %r" % (sorted(fresh), r, out)))
    return fails[:3]


def _oracle_equiv(case):
    """check_equivariant_graph returns exactly the index pairs i < j of equivalent mappings (reference ITS / centre + VF2)"""
    from synkit.Chem.Reaction.aam_validator import AAMValidator
    Is = [G9.ref_its(r) for r in case["rsmis"]]
    if any(I is None for I in Is):
        return []
    gs = ST.equiv_graphs(case["rsmis"], case.get("method", "RC"))
    if gs is None:
        return []
    pairs, count = AAMValidator.check_equivariant_graph(gs)
    ref = [G9.ref_rc(I) for I in Is] if case.get("method", "RC") == "RC" else Is
    want = [(i, j) for i in range(len(ref)) for j in range(i + 1, len(ref)) if G9.iso(ref[i], ref[j])]
    if [tuple(p) for p in pairs] != want or count != len(want):
        return [_fail("validator-equivariant", "check_equivariant_graph gives %r / %r, reference %r on %r" % (pairs, count, want, case["rsmis"]))]
    return []


def _oracle_balstr(case):
    from synkit.Chem.Reaction.balance_check import BalanceReactionCheck
    fails = []
    for r in case["rsmis"]:
        want = G9.ref_balanced(r) if r.count(">>") == 1 else None
        if want is None:
            continue
        got = BalanceReactionCheck.rsmi_balance_check(r)
        if got != want:
            fails.append(_fail("balance-iff", "rsmi_balance_check(%r) = %r, reference %r" % (r, got, want)))
    return fails[:3]


def _oracle_validate(case):
    """validate_smiles: every entry of every column is the reference verdict of (mapped, ground truth) of its record, and EVERY public
    entry point gives the same verdict for the same options: the batch call, check_pair with keywords, and the direct call
    (smiles_check, or smiles_check_tautomer when ignore_tautomers=False) - for every combination of the two flags and the method"""
    from synkit.Chem.Reaction.aam_validator import AAMValidator
    res = _validate_call(case)
    taut = bool(case.get("taut", True))
    meth, ia = case["method"], case["ia"]
    fails = []
    for col, r in zip(case["cols"], res):
        got = [bool(x) for x in r["results"]]
        if len(got) != len(case["rows"]):
            fails.append(_fail("validator-batch", "column %s: %d results for %d records" % (col, len(got), len(case["rows"]))))
            continue
        for i, row in enumerate(case["rows"]):
            direct = (AAMValidator.smiles_check(row[col], row["gt"], meth, ia) if taut
                      else AAMValidator.smiles_check_tautomer(row[col], row["gt"], meth, ia))
            pair = AAMValidator.check_pair(dict(row), col, "gt", check_method=meth, ignore_aromaticity=ia, ignore_tautomers=taut)
            if not (got[i] == bool(direct) == bool(pair)):
                fails.append(_fail("validator-entry-points", "record %d column %s (%s, ignore_aromaticity=%r, ignore_tautomers=%r): validate_smiles %r, "
                                   "check_pair(keywords) %r, direct call %r on %r vs %r" % (i, col, meth, ia, taut, got[i], pair, direct, row[col], row["gt"])))
            if taut:
                want = _ref_check(dict(m=row[col], t=row["gt"], method=meth, ia=ia))
            else:
                # tautomer path: accepted iff the mapping is equivalent to the mapping of SOME enumerated tautomer of the ground truth
                # (the enumeration itself is RDKit's: an oracle input; the verdict per tautomer is the independent reference)
                from synkit.Chem.utils import enumerate_tautomers
                try:
                    refs = [_ref_check(dict(m=row[col], t=tt, method=meth, ia=ia)) for tt in (enumerate_tautomers(row["gt"]) or [])]
                except Exception:
                    refs = [None]
                want = None if (not refs or any(r is None for r in refs)) else any(refs)
            if want is not None and got[i] != want:
                fails.append(_fail("validator-batch", "record %d column %s: result %r, reference %r (%s, ia=%r)" % (i, col, got[i], want, meth, ia)))
    return fails[:3]


def _oracle_normcore(case):
    """monitor of theorem C09_normalize_keeps_balance on the real code: when the graphs NormalizeAAM.fit works on satisfy the premises
    (every hydrogen has at most one non-hydrogen neighbour; hydrogens bonded to a heavy atom are neutral and carry no hydrogens of
    their own), the two implicit_hydrogen results have the same element counts (with hydrogens) and total charge as the inputs"""
    try:
        _, rec = ST.normalize_capture(case["rsmi"], case.get("fix", True))
    except Exception:
        return []
    gh = rec["graphs"]
    if gh is None or gh[0] is None or gh[1] is None or len(rec["ih"]) != 2:
        return []
    fails = []
    for side, g, (_, out) in zip("GH", gh, rec["ih"]):
        ok = True
        for n, d in g.nodes(data=True):
            if d.get("element") == "H":
                heavy = [m for m in g.neighbors(n) if g.nodes[m].get("element") != "H"]
                if len(heavy) > 1 or d.get("hcount", 0) != 0 or (heavy and d.get("charge", 0) != 0):
                    ok = False
        if ok and _counts(g) != _counts(out):
            fails.append(_fail("normalize-balance", "side %s of %r: counts / charge %r before, %r after implicit_hydrogen inside NormalizeAAM.fit"
                               % (side, case["rsmi"], _counts(g), _counts(out))))
    return fails


def oracle(case):
    worker_init()
    k = case["kind"]
    if k == "expand":
        return _oracle_expand(case)
    if k == "equiv":
        return _oracle_equiv(case)
    if k == "balstr":
        return _oracle_balstr(case)
    if k == "validate":
        return _oracle_validate(case)
    if k == "fixaam":
        return _oracle_norm(case)
    if k == "normcore":
        return (_oracle_norm(case) + _oracle_normcore(case))[:3]
    if k.startswith("hist-"):
        return _oracle_hist(case)
    if k.startswith("canon-"):
        try:
            return _with_alarm(3 * SLOW_IMPL_S, _oracle_canon, case)[:3]
        except _Slow:
            return []
    if k.startswith("valid-"):
        return _oracle_valid(case)[:3]
    if k.startswith("bal-"):
        return _oracle_bal(case)
    if k == "std":
        return _oracle_std(case)
    if k == "norm":
        return _oracle_norm(case)
    return []


def nontrivial(case, obs):
    k = case["kind"]
    if k.startswith("hist-"):
        return isinstance(obs, list) and len(case["steps"]) >= 2 and obs[:1] != ["history-failed"]
    if k.startswith("canon-"):
        return isinstance(obs, list) and len(obs) == 3 and len(obs[1]) >= 2
    if k.startswith("valid-"):
        return isinstance(obs, list) and obs[0] is not None and obs[0] != "unparsable" and case["mapped"] != case["truth"]
    if k.startswith("bal-"):
        return isinstance(obs, list) and obs[0] in (True, False)
    if k == "expand":
        return isinstance(obs, list) and len(obs) == 2 and obs[1] is True
    if k == "equiv":
        return isinstance(obs, list) and len(obs) == 2 and len(case["rsmis"]) >= 3
    if k == "balstr":
        return isinstance(obs, list) and len(obs) >= 2
    if k == "fixaam":
        return isinstance(obs, list) and len(obs) == 2
    if k == "subgraph":
        return isinstance(obs, list) and len(obs) == 3 and len(case["keep"]) >= 2
    if k == "validate":
        return isinstance(obs, list) and len(case["rows"]) >= 2
    if k == "remap":
        return isinstance(obs, list) and len(obs) == 4
    if k == "records":
        return isinstance(obs, list) and len(obs) == 2 and obs[1] != [-1]
    if k == "normcore":
        return isinstance(obs, list) and len(obs) == 3
    return (k == "std" and bool(case.get("variants"))) or k == "norm"


def distribution(cases, obss):
    d = {"validator_RC": {}, "validator_ITS_modelled": {}, "balance": {}, "canon_sizes": {}, "canon_backend": {}}
    outside = dict(nauty_too_big=0, its_too_big=0, implementation_slow=0)
    for c, o in zip(cases, obss):
        k = c["kind"]
        if k.startswith("valid-") and isinstance(o, list) and o and o[0] != "unparsable" and o[0] != "EXC":
            key = "%s:%s" % (k, o[0])
            d["validator_RC"][key] = d["validator_RC"].get(key, 0) + 1
            if len(o) == 4:
                key = "%s:%s" % (k, o[1])
                d["validator_ITS_modelled"][key] = d["validator_ITS_modelled"].get(key, 0) + 1
            else:
                outside["its_too_big"] += 1
        elif k.startswith("bal-") and isinstance(o, list) and o and o[0] in (True, False):
            key = "%s:%s" % (k, o[0])
            d["balance"][key] = d["balance"].get(key, 0) + 1
        elif k.startswith("canon-") and o == ["slow"]:
            outside["implementation_slow"] += 1
        elif k.startswith("canon-") and isinstance(o, list) and len(o) == 3:
            n = len(o[0][0]["__set__"])
            key = "<=10" if n <= 10 else ("11-30" if n <= 30 else ("31-45" if n <= 45 else "46+"))
            d["canon_sizes"][key] = d["canon_sizes"].get(key, 0) + 1
            d["canon_backend"][c["backend"]] = d["canon_backend"].get(c["backend"], 0) + 1
            if c["backend"] == "nauty" and n > NAUTY_MAX_ATOMS:
                outside["nauty_too_big"] += 1
    d["outside_model_bounds"] = outside
    d["string_level"] = {kk: sum(1 for c in cases if c["kind"] == kk) for kk in ("std", "expand", "equiv", "balstr", "fixaam", "norm", "subgraph", "validate", "remap", "records", "normcore")}
    d["std_strings"] = sum(1 + len(c.get("variants", [])) for c in cases if c["kind"] == "std")
    d["expand_unmapped_atoms"] = {}
    for c, o in zip(cases, obss):
        if c["kind"] == "expand" and isinstance(o, list) and len(o) == 2 and isinstance(o[0], list) and len(o[0]) == 2:
            n = len(re_maps_zero(c["rsmi"]))
            key = "0" if n == 0 else ("1-5" if n <= 5 else "6+")
            d["expand_unmapped_atoms"][key] = d["expand_unmapped_atoms"].get(key, 0) + 1
    return d


def re_maps_zero(rsmi):
    """positions of the unmapped atoms of a reaction string as expand_aam reads them (empty list when unreadable)"""
    inp = ST.expand_input(rsmi)
    return [] if inp is None else [i for i, m in enumerate(inp[0]) if m == 0]


# ------------------------------------------------------------------ generators

HAND_BALANCE = [
    "CC(=O)O.CO>>CC(=O)OC.O", "CC(=O)O.CO>>CC(=O)OC", "[Na+].[Cl-]>>[Na]Cl", "[Na+].[Cl-]>>[Na+].[Cl]", "C>>[CH3]", "C.[H][H]>>C.[H].[H]",
    "[H+].[OH-]>>O", "[H+].[OH-]>>[OH-]", "CC>>C.C", "C=C.[H][H]>>CC", "c1ccccc1>>C1=CC=CC=C1", "N>>[NH4+]", "[NH4+].[OH-]>>N.O",
    "O=C=O>>[C-]#[O+].[O]", "CCO>>CC=O", "CCO>>CC=O.[H][H]", "[Fe+2]>>[Fe+3]", "C[N+](C)(C)C.[Cl-]>>CN(C)C.CCl",
]

# Fischer esterification: ground truth, a renumbered / re-ordered writing of it, and the WRONG mapping with the carbonyl and the hydroxyl
# oxygen of the acid transposed (it is the mapping of a tautomer of the ground truth)
ESTER = ("[CH3:1][C:2](=[O:3])[OH:4].[CH3:5][CH2:6][OH:7]>>[CH3:1][C:2](=[O:3])[O:7][CH2:6][CH3:5].[OH2:4]",
         "[OH:21][CH2:15][CH3:11].[OH:12][C:30](=[O:17])[CH3:14]>>[OH2:12].[CH3:11][CH2:15][O:21][C:30]([CH3:14])=[O:17]",
         "[CH3:1][C:2](=[O:3])[OH:4].[CH3:5][CH2:6][OH:7]>>[CH3:1][C:2](=[O:4])[O:7][CH2:6][CH3:5].[OH2:3]")
# benzene + H2 -> 1,3-cyclohexadiene / 1,4-cyclohexadiene: the centres differ only in bonds changing by less than 1
AROM_PAIR = ("[cH:1]1[cH:2][cH:3][cH:4][cH:5][cH:6]1.[H:7][H:8]>>[CH:1]1=[CH:2][CH:3]=[CH:4][CH:5]([H:7])[CH:6]1[H:8]",
             "[cH:1]1[cH:2][cH:3][cH:4][cH:5][cH:6]1.[H:7][H:8]>>[CH:1]1([H:7])[CH:2]=[CH:3][CH:4]([H:8])[CH:5]=[CH:6]1")
PBV = ("[CH3:5][CH2:4][CH2:1][Br:2].[OH-:3]>>[CH3:5][CH2:4][CH2:1][OH:3].[Br-:2]",
       "[CH3:6][CH2:5][CH2:4][CH2:1][Br:2].[OH-:3]>>[CH3:6][CH2:5][CH2:4][CH2:1][OH:3].[Br-:2]")

HAND_CANON = [
    "[CH3:3][CH2:5][OH:10]>>[CH2:3]=[CH2:5].[OH2:10]",
    "[CH3:1][C:2](=[O:3])[OH:4].[CH3:5][OH:6]>>[CH3:1][C:2](=[O:3])[O:6][CH3:5].[OH2:4]",
    "[CH3:1][Br:2].[OH-:3]>>[CH3:1][OH:3].[Br-:2]",
    "[CH2:1]=[CH2:2].[H:3][H:4]>>[CH2:1]([H:3])[CH2:2][H:4]",
    "[CH3:7][CH2:9][Cl:2].[NH3:4]>>[CH3:7][CH2:9][NH2:4].[ClH:2]",
    "CC(=O)O.OC>>CC(=O)OC.O",
    "[CH3:1][CH:2]=[O:3].[CH3:4][NH2:5]>>[CH3:1][CH:2]=[N:5][CH3:4].[OH2:3]",
]


# adversarial validator pairs: same shape and same order DIFFERENCES but other orders / other hydrogen counts or charges
HAND_VALID = [
    ("[CH:1][CH:2]>>[CH:1]=[CH:2]", "[CH:1]=[CH:2]>>[CH:1]#[CH:2]"),
    ("[CH2:1][CH2:2].[OH2:3]>>[CH2:1][CH2:2].[OH2:3]", "[CH2:1]=[CH2:2].[OH2:3]>>[CH2:1]=[CH2:2].[OH2:3]"),
    ("[CH3:1][OH:2]>>[CH3:1].[OH:2]", "[CH3:1][O-:2]>>[CH3:1].[O-:2]"),
    ("[CH3:1][OH:2]>>[CH3:1].[OH:2]", "[CH3:1][SH:2]>>[CH3:1].[SH:2]"),
    ("[CH3:2][OH:1]>>[CH3:2].[OH:1]", "[CH3:1][OH:2]>>[CH3:1].[OH:2]"),
    ("[CH3:1][Br:2].[OH-:3]>>[CH3:1][OH:3].[Br-:2]", "[CH3:1][Br:3].[OH-:2]>>[CH3:1][OH:2].[Br-:3]"),
    ("[CH3:1][Br:2].[OH-:3]>>[CH3:1][OH:2].[Br-:3]", "[CH3:1][Br:2].[OH-:3]>>[CH3:1][OH:3].[Br-:2]"),
    ("[CH2:1]=[CH:2][CH3:3]>>[CH3:1][CH:2]=[CH2:3]", "[CH2:3]=[CH:2][CH3:1]>>[CH3:3][CH:2]=[CH2:1]"),
    ("[CH2:1]=[CH:2][CH3:3]>>[CH3:1][CH:2]=[CH2:3]", "[CH2:1]=[CH:2][CH3:3]>>[CH2:1]=[CH:2][CH3:3]"),
    # unmapped spectator atoms are not part of the mapping (drop_non_aam=True)
    ("[CH3:1][Br:2].[OH-:3].O.CCO>>[CH3:1][OH:3].[Br-:2].O.CCO", "[CH3:5][Br:6].[OH-:7]>>[CH3:5][OH:7].[Br-:6]"),
]


# the same species twice on one side, each copy with its own map numbers (self-condensation, dimerisation, 2:1 stoichiometry)
REPEATED = [
    "[CH3:1][CH:2]=[O:3].[CH3:4][CH:5]=[O:6]>>[CH3:1][CH:2]([OH:3])[CH2:4][CH:5]=[O:6]",
    "[H:1][H:2].[H:3][H:4].[O:5]=[O:6]>>[H:1][O:5][H:2].[H:3][O:6][H:4]",
    "[CH2:1]=[CH:2][CH:3]=[CH:4][CH3:5].[CH2:6]=[CH:7][CH:8]=[CH:9][CH3:10]>>[CH2:1]1[CH:2]=[CH:3][CH:4]([CH3:5])[CH:7]([CH:8]=[CH:9][CH3:10])[CH2:6]1",
    "[CH3:1][OH:2].[CH3:3][OH:4].[CH2:5]=[O:6]>>[CH3:1][O:2][CH2:5][O:4][CH3:3].[OH2:6]",
    "[CH3:1][C:2](=[O:3])[OH:4].[CH3:5][C:6](=[O:7])[OH:8]>>[CH3:1][C:2](=[O:3])[O:8][C:6](=[O:7])[CH3:5].[OH2:4]",
    "[Na+:1].[Na+:2].[O-:3][S:4](=[O:5])(=[O:6])[O-:7]>>[Na:1][O:3][S:4](=[O:5])(=[O:6])[O:7][Na:2]",
    "[CH3:1][C@H:2]([OH:3])[Cl:4].[CH3:5][C@H:6]([OH:7])[Cl:8]>>[CH3:1][C@H:2]([OH:3])[O:7][C@@H:6]([CH3:5])[Cl:8].[ClH:4]",
    "[CH3:1][SH:2].[CH3:3][SH:4].[OH:5][OH:6]>>[CH3:1][S:2][S:4][CH3:3].[OH2:5].[OH2:6]",
]


def _all_orders(rsmi, rng, limit=6):
    """the reaction with its fragments in other orders (all of them when few, else a PRNG sample)"""
    import itertools
    a, b = rsmi.split(">>")
    fa, fb = a.split("."), b.split(".")
    allp = [(x, y) for x in itertools.permutations(fa) for y in itertools.permutations(fb)]
    allp = [p for p in allp if (list(p[0]), list(p[1])) != (fa, fb)]
    if len(allp) > limit:
        allp = rng.sample(allp, limit)
    return [".".join(x) + ">>" + ".".join(y) for x, y in allp]


def _std_case(r, rng, src, n_rewrites=1):
    vs = [["frag", v] for v in _all_orders(r, rng)]
    for how in ("renum", "reroot"):
        for _ in range(n_rewrites):
            try:
                vs.append([how, R.rewrite(r, how, rng)])
            except Exception:
                pass
    # fragment order AND atom order AND numbers at once
    try:
        w = R.reroot(R.shuffle_fragments(r, rng), rng)
        vs.append(["frag", w])
        vs.append(["renum", R.renumber_maps(w, rng)])
    except Exception:
        pass
    return dict(kind="std", rsmi=r, variants=vs, src=src)


def _canon_cases(how, r, orig=None, src=None, backends=BACKENDS, opts=None):
    out = []
    for be in backends:
        c = dict(kind="canon-" + how, rsmi=r, backend=be)
        if opts:
            c["opts"] = opts
        if orig is not None:
            c["orig"] = orig
        if src:
            c["src"] = src
        out.append(c)
    return out


# reactions whose centre contains bonds changing by less than 1 (an aromatic ring is formed or destroyed): the two modes of
# smiles_check (ignore_aromaticity) disagree about their centre
AROM = [
    "[CH3:8][c:1]1[cH:2][cH:3][cH:4][o:5]1.[CH2:6]=[CH2:7]>>[CH3:8][C:1]12[CH:2]=[CH:3][CH:4]([O:5]1)[CH2:7][CH2:6]2",
    "[cH:1]1[cH:2][cH:3][cH:4][cH:5][cH:6]1.[H:7][H:8]>>[CH:1]1=[CH:2][CH:3]=[CH:4][CH:5]([H:7])[CH:6]1[H:8]",
    "[CH:1]1=[CH:2][CH:3]=[CH:4][CH:5]([H:7])[CH:6]1[H:8]>>[cH:1]1[cH:2][cH:3][cH:4][cH:5][cH:6]1.[H:7][H:8]",
    "[cH:1]1[cH:2][cH:3][cH:4][nH:5]1.[CH2:6]=[CH2:7]>>[CH:1]12[CH:2]=[CH:3][CH:4]([NH:5]1)[CH2:7][CH2:6]2",
    "[cH:1]1[cH:2][cH:3][cH:4][cH:5][cH:6]1>>[CH:1]1=[CH:2][CH2:3][CH:4]=[CH:5][CH2:6]1",
    "[CH3:9][c:1]1[cH:2][cH:3][c:4]([CH3:10])[cH:5][cH:6]1.[CH2:7]=[CH2:8]>>[CH3:9][C:1]12[CH:2]=[CH:3][C:4]([CH3:10])([CH:5]=[CH:6]1)[CH2:8][CH2:7]2",
]
# degenerate / out-of-the-ordinary strings: empty sides, single atoms, unmapped, map number 0, repeated map numbers,
# two- and three-digit ring closures and map numbers
DEGENERATE = [
    ">>", "C>>", ">>C", "C>>C", "[CH4:1]>>[CH4:1]", "[H+:1]>>[H+:1]", "CC(=O)O.OC>>CC(=O)OC.O", "[CH3:0][OH:1]>>[CH3:0][OH:1]",
    "[CH3:1][CH3:1]>>[CH3:1][CH3:1]", "[CH3:1][OH:2]>>[CH3:1][OH:2]", "[CH3:1][OH:2].[CH3:1][OH:2]>>[CH3:1][OH:2]",
    "[CH3:100][Br:250].[OH-:999]>>[CH3:100][OH:999].[Br-:250]", "[CH3:1][Br:2].[OH-:3]>>[CH3:1][OH:3].[Br-:2]",
    "[CH2:1]%10[CH2:2][CH2:3][CH2:4][CH2:5][CH2:6]%10.[Cl:7][Cl:8]>>[CH2:1]%11[CH2:2][CH2:3][CH2:4][CH2:5][CH:6]%11[Cl:7].[ClH:8]",
    "C%12CCCCC%12.ClCl>>C%10CCCCC%10Cl.Cl", "[Fe+3:1].[Cl-:2]>>[Fe+2:1].[Cl:2]", "[Na+].[Cl-]>>[Na+].[Cl-]", "O>>O",
]


def _swap_of(r, rng):
    sw = [x for x in G9.centre_swaps(r, rng, per_kind=1) if x[0] == "noneq"]
    return sw[0][3] if sw else None


def _rewrite(r, rng):
    try:
        return R.reroot(R.renumber_maps(r, rng), rng)
    except Exception:
        return R.renumber_maps(r, rng)


def _hist(area, steps, src):
    return dict(kind="hist-" + area, steps=steps, src=src)


def gen_histories(tier, rng, corp):
    q = tier == "quick"
    cases = []
    small = [x for x in corp if len(R.map_numbers(x[2])) <= 28]
    plain = [HAND_CANON[1], HAND_CANON[2]] + [x[2] for x in rng.sample(small, 2 if q else 25)]
    arom = list(AROM) if not q else rng.sample(AROM, 4)
    APIS = ("pos", "kw", "inst", "pair", "batch", "df", "equiv")

    def chk(m, t, method="RC", ia=False, api=None):
        return dict(op="check", api=api or rng.choice(APIS), m=m, t=t, method=method, ia=ia)

    # ---- validator: the same strings under different options in sequence, in both orders; arguments swapped; API forms
    for n_, t in enumerate(arom + plain):
        m, m2, w = _rewrite(t, rng), _rewrite(t, rng), _swap_of(t, rng)
        src = "hv#%d" % n_
        tol_first = [chk(m, t, "RC", True), chk(m, t, "RC", False), chk(t, m, "RC", False), chk(m2, t, "ITS", False), chk(t, m2, "RC", False, "default")]
        def_first = [chk(m, t, "RC", False), chk(t, m2, "ITS", True), chk(m, t, "RC", True), chk(m2, t, "rc", False), chk(m, t, "its", False)]
        # option handling: only upper(method) == "RC" selects the centre, everything else the full ITS
        def_first += [chk(m, t, rng.choice(("Rc", "rC")), False, "pos"), chk(m2, t, rng.choice(("foo", "", "RC ", "R")), False, "kw")]
        if w:
            tol_first += [chk(w, t, "RC", False), chk(_rewrite(w, rng), t, "ITS", False)]
            def_first += [chk(w, t, "RC", True), chk(w, t, "RC", False)]
        cases.append(_hist("valid", tol_first, src))
        cases.append(_hist("valid", def_first, src))
        if n_ % 3 == 0:
            # interleaved with another reaction, every API form once, tautomer workflow in between
            o = plain[(n_ + 1) % len(plain)]
            steps = [chk(m, t, "RC", True, "pair"), chk(o, o, "RC", False, "batch"), chk(m, t, "RC", False, "kw"),
                     chk(m, o, "RC", False, "pos"), chk(m2, t, "RC", False, "df"), chk(t, t, "ITS", True, "inst"),
                     chk(m2, t, "RC", False, "equiv"), chk(m2, t, "RC", False, "default")]
            if len(R.map_numbers(t)) <= 10:
                steps.insert(1, chk(m, t, "RC", True, "taut"))
            cases.append(_hist("valid", steps, src))
    # option handling of check_method: two DIFFERENT reactions with isomorphic centres (propyl / butyl bromide + hydroxide): the RC verdict is
    # True, the ITS verdict False, so every spelling of the method shows which graphs were compared
    PB = ("[CH3:5][CH2:4][CH2:1][Br:2].[OH-:3]>>[CH3:5][CH2:4][CH2:1][OH:3].[Br-:2]",
          "[CH3:6][CH2:5][CH2:4][CH2:1][Br:2].[OH-:3]>>[CH3:6][CH2:5][CH2:4][CH2:1][OH:3].[Br-:2]")
    cases.append(_hist("valid", [chk(PB[0], PB[1], "RC", False, "pos"), chk(PB[0], PB[1], "ITS", False, "pos"), chk(PB[0], PB[1], "rc", False, "pos"),
                                 chk(PB[1], PB[0], "Rc", False, "kw"), chk(PB[0], PB[1], "its", False, "inst"), chk(PB[0], PB[1], "foo", False, "pair"),
                                 chk(PB[0], PB[1], "", False, "kw"), chk(PB[0], PB[1], "rC", True, "batch"), chk(PB[0], PB[1], "RC ", False, "df"),
                                 chk(PB[1], PB[0], "RC", False, "default"), chk(PB[0], PB[1], "rc", False, "equiv")], "method-spelling"))
    # the tautomer workflow and ignore_aromaticity on inputs where they discriminate, interleaved with the plain calls on the same strings
    cases.append(_hist("valid", [chk(ESTER[2], ESTER[0], "RC", False, "pos"), chk(ESTER[2], ESTER[0], "RC", False, "taut"), chk(ESTER[2], ESTER[0], "RC", False, "pair"),
                                 chk(ESTER[1], ESTER[0], "ITS", True, "taut"), chk(ESTER[2], ESTER[0], "ITS", False, "taut"), chk(ESTER[2], ESTER[0], "ITS", False, "batch"),
                                 chk(AROM_PAIR[1], AROM_PAIR[0], "RC", False, "taut"), chk(AROM_PAIR[1], AROM_PAIR[0], "RC", True, "taut"),
                                 chk(AROM_PAIR[1], AROM_PAIR[0], "RC", True, "kw"), chk(AROM_PAIR[1], AROM_PAIR[0], "RC", False, "df")], "flags"))
    for k in range(0, len(DEGENERATE), 3):
        steps = []
        for d in DEGENERATE[k:k + 3]:
            steps += [chk(d, d, "RC", False, "pos"), chk(d, d, "ITS", True, "kw"), chk(d, DEGENERATE[12], "RC", False, "pair"),
                      chk(DEGENERATE[12], d, "ITS", False, "batch")]
        cases.append(_hist("valid", steps, "degenerate"))

    # ---- canonicaliser: one object reused, results mutated by the caller, options / back-ends in sequence
    ATTRS = [list(DEFAULT_ATTRS), ["hcount", "charge", "aromatic", "element"], ["element"], ["element", "aromatic", "charge", "hcount", "neighbors"]]
    pool = plain + arom[:2]
    for n_, r in enumerate(pool):
        r2 = pool[(n_ + 1) % len(pool)]
        v = R.renumber_maps(r, rng)
        src = "hc#%d" % n_
        for be in (BACKENDS if not q else (BACKENDS[n_ % 2],)):
            cases.append(_hist("canon", [dict(op="new", obj="a", backend=be), dict(op="canon", obj="a", rsmi=r), dict(op="props", obj="a"),
                                         dict(op="canon", obj="a", rsmi=r2, call="call"), dict(op="canon", obj="a", rsmi=r),
                                         dict(op="mutate", obj="a"), dict(op="canon", obj="a", rsmi=r), dict(op="props", obj="a"),
                                         dict(op="mutate", obj="a"), dict(op="canon", obj="a", rsmi=v), dict(op="expand", obj="a", rsmi=r2),
                                         dict(op="helpers", obj="a", rsmi=r)], src))
        if n_ % 2 == 0:
            at = ATTRS[(n_ // 2) % len(ATTRS)]
            cases.append(_hist("canon", [dict(op="new", obj="a", backend="wl", wl_iterations=rng.choice((1, 2, 5)), node_attrs=at),
                                         dict(op="new", obj="b", backend="wl"), dict(op="new", obj="c", backend="generic"),
                                         dict(op="new", obj="d", backend="morgan"), dict(op="new", obj="e", backend="nauty", pos=True),
                                         dict(op="canon", obj="a", rsmi=r), dict(op="canon", obj="b", rsmi=r), dict(op="canon", obj="c", rsmi=r),
                                         dict(op="canon", obj="d", rsmi=r), dict(op="canon", obj="e", rsmi=r), dict(op="canon", obj="b", rsmi=v),
                                         dict(op="canon", obj="a", rsmi=v), dict(op="props", obj="b"), dict(op="props", obj="c")], src))
    for k in range(0, len(DEGENERATE), 3):
        ds = DEGENERATE[k:k + 3]
        steps = [dict(op="new", obj="a", backend="wl"), dict(op="new", obj="n", backend="nauty")]
        for d in ds:
            steps += [dict(op="canon", obj="a", rsmi=d), dict(op="canon", obj="n", rsmi=d), dict(op="props", obj="a")]
        cases.append(_hist("canon", steps, "degenerate"))

    # ---- Standardize: one object, options in sequence
    stereo = [x[2] for x in corp if "@" in x[2] and len(R.map_numbers(x[2])) <= 40]
    for n_, r in enumerate(plain[:4] + rng.sample(stereo, 2 if q else 20)):
        v = R.renumber_maps(r, rng)
        cases.append(_hist("std", [dict(op="snew", obj="s"), dict(op="std", obj="s", api="fit", rsmi=r, remove_aam=False, ignore_stereo=False),
                                   dict(op="std", obj="s", api="fit_default", rsmi=r), dict(op="std", obj="s", api="fit_pos", rsmi=v, remove_aam=True, ignore_stereo=False),
                                   dict(op="std", obj="s", api="fit", rsmi=v), dict(op="std", obj="s", api="std_rsmi", rsmi=r, ignore_stereo=True),
                                   dict(op="std", obj="s", api="rm_aam", rsmi=r), dict(op="std", obj="s", api="fit_default", rsmi=r),
                                   dict(op="std", obj="s", api="categorize", rsmi=r, others=[r, v, "C>>C"])], "hs#%d" % n_))
    cases.append(_hist("std", [dict(op="snew", obj="s")] + [dict(op="std", obj="s", api=a, rsmi=d) for d in DEGENERATE for a in ("fit_default", "std_rsmi")],
                       "degenerate"))

    # ---- balance: instance reused, input forms, n_jobs, results mutated by the caller
    brs = [x[2] for x in rng.sample(corp, 4 if q else 40)] + HAND_BALANCE[:6]
    for n_ in range(0, len(brs) - 2, 3):
        rs = brs[n_:n_ + 3] + ["C>>CC"]
        for nj in ((1,) if q and n_ else (1, 2)):
            cases.append(_hist("bal", [dict(op="bnew", obj="b", n_jobs=nj, pos=bool(n_ % 2)), dict(op="bal", obj="b", api="dicts", rsmis=rs, column="rx", mutate=True),
                                       dict(op="bal", obj="b", api="dicts_str", rsmis=rs, mutate=True), dict(op="bal", obj="b", api="rsmi", rsmis=rs),
                                       dict(op="bal", obj="b", api="dicts", rsmis=list(reversed(rs)), column="reactions", pos=True),
                                       dict(op="bal", obj="b", api="dict", rsmis=rs, column="r"), dict(op="bal", obj="b", api="dicts_one", rsmis=rs[1:]),
                                       dict(op="bal", obj="b", api="formula", rsmis=rs), dict(op="bal", obj="b", api="parse", rsmis=rs, column="k")],
                               "hb#%d" % n_))
    # the same reaction several times in one batch (repeated records must all come back)
    rep = [brs[0], HAND_BALANCE[1], brs[0], HAND_BALANCE[1], brs[0]]
    cases.append(_hist("bal", [dict(op="bnew", obj="b", n_jobs=1), dict(op="bal", obj="b", api="dicts", rsmis=rep, column="rx"),
                               dict(op="bal", obj="b", api="dicts_str", rsmis=rep), dict(op="bal", obj="b", api="rsmi", rsmis=rep),
                               dict(op="bal", obj="b", api="dict", rsmis=rep, column="rx")], "repeated"))
    cases.append(_hist("bal", [dict(op="bnew", obj="b", n_jobs=1), dict(op="bal", obj="b", api="rsmi", rsmis=[d for d in DEGENERATE]),
                               dict(op="bal", obj="b", api="dicts_str", rsmis=[d for d in DEGENERATE]),
                               dict(op="bal", obj="b", api="dicts", rsmis=[], column="x"), dict(op="bal", obj="b", api="formula", rsmis=DEGENERATE[:6])],
                       "degenerate"))
    return cases


def gen_cases(tier, rng):
    q = tier == "quick"
    corp = G9.corpus()
    us = [x for x in corp if x[0] == "uspto"]
    ec = [x for x in corp if x[0] == "ecoli"]
    cases = []
    for i, r in enumerate(HAND_CANON):
        cases += _canon_cases("corpus", r, src="hand#%d" % i)
        cases += _canon_cases("renum", R.renumber_maps(r, rng), orig=r, src="hand#%d" % i)
        cases.append(dict(kind="valid-renum", mapped=R.renumber_maps(r, rng), truth=r))
    for r in HAND_BALANCE:
        cases.append(dict(kind="bal-hand", rsmi=r))
    for i, (m, t) in enumerate(HAND_VALID):
        cases.append(dict(kind="valid-hand", mapped=m, truth=t, src="hand#%d" % i))
        cases.append(dict(kind="valid-hand", mapped=R.renumber_maps(m, rng), truth=t, src="hand#%d" % i))

    # ---- canonicaliser
    chosen = (rng.sample(us, 7) + rng.sample(ec, 5)) if q else corp
    for s, i, r in chosen:
        src = "%s#%d" % (s, i)
        cases += _canon_cases("corpus", r, src=src)
        for how in ("renum", "reroot", "frag"):
            for _ in range(1):
                try:
                    v = R.rewrite(r, how, rng)
                except Exception:
                    continue
                bes = BACKENDS if (not q or how == "renum") else (rng.choice(BACKENDS),)
                cases += _canon_cases(how, v, orig=r, src=src, backends=bes)
        extra = [("partial", G9.unmap_some(r, rng)), ("addH", G9.add_explicit_h(r, rng))]
        extra += [(h, v) for h, v in G9.unbalanced_variants(r, rng) if h in ("del", "dup")]
        for how, v in extra:
            if v is not None and (not q or rng.random() < 0.5):
                be = rng.choice(BACKENDS)
                # a duplicated fragment makes the reactant graph highly symmetric: the pure-Python nauty search can take minutes
                cases += _canon_cases(how, v, orig=r, src=src, backends=("wl",) if how == "dup" else (be,))

    # every back-end and option value with renumbered / re-rooted / fragment-shuffled variants (equivalence, unmapped sides, fixed point
    # for all; numbering independence is demanded for the default wl / nauty only), and reactions with a repeated species
    OPTS = [("generic", None), ("morgan", None), ("wl", {"wl_iterations": 1}), ("wl", {"wl_iterations": 5}),
            ("wl", {"node_attrs": ["hcount", "charge", "aromatic", "element"]}), ("wl", {"node_attrs": ["element"]}),
            ("wl", {"node_attrs": ["element", "aromatic", "charge", "hcount", "neighbors"]}), ("nauty", {"node_attrs": ["element", "charge"]})]
    pool = [(("hand#%d" % i), r) for i, r in enumerate(HAND_CANON[:5])] + [("repeated#%d" % i, r) for i, r in enumerate(REPEATED)]
    pool += [("%s#%d" % (s, i), r) for s, i, r in (rng.sample(us, 2) + rng.sample(ec, 2) if q else rng.sample(corp, 60))]
    for n_, (src, r) in enumerate(pool):
        if src.startswith("repeated"):
            cases += _canon_cases("corpus", r, src=src)
            cases += _canon_cases("frag", R.shuffle_fragments(r, rng), orig=r, src=src)
            cases.append(dict(kind="valid-renum", mapped=_rewrite(r, rng), truth=r, src=src))
            for kind, x, y, sw in G9.centre_swaps(r, rng, per_kind=1):
                cases.append(dict(kind="valid-swap-" + kind, mapped=sw, truth=r, x=x, y=y, src=src))
        for be, opts in (OPTS if not q else [OPTS[(n_ + k) % len(OPTS)] for k in (0, 3)]):
            cases += _canon_cases("corpus", r, src=src, backends=(be,), opts=opts)
            how = ("renum", "reroot", "frag")[n_ % 3]
            try:
                cases += _canon_cases(how, R.rewrite(r, how, rng), orig=r, src=src, backends=(be,), opts=opts)
            except Exception:
                pass

    # the SECOND run (round 6, C09_fixed_point_nauty): the canonical string of reactions with symmetric reactants goes through the
    # canonicaliser again - model (identity order) and implementation are compared on it like on any other input
    for i, r in enumerate((REPEATED + AROM) if not q else (REPEATED[:5] + AROM[:2])):
        for be in BACKENDS:
            try:
                out = _with_alarm(SLOW_IMPL_S, lambda: _canon(r, be).canonical_rsmi)
            except Exception:
                out = None
            if out and "None" not in out:
                cases += _canon_cases("fix", out, src="second-run#%d" % i, backends=(be,))
    # corpus reactions with a product atom that has no reactant partner (a released proton): the repaired path on real data
    if q:
        for s, i, r in [x for x in ec if x[1] in (132, 186)][:1]:
            src = "%s#%d" % (s, i)
            cases += _canon_cases("corpus", r, src=src, backends=("wl",))
            cases += _canon_cases("renum", R.renumber_maps(r, rng), orig=r, src=src)

    # ---- validator
    chosen = (rng.sample(us, 12) + rng.sample(ec, 6)) if q else corp
    for n_, (s, i, r) in enumerate(chosen):
        src = "%s#%d" % (s, i)
        cases.append(dict(kind="valid-renum", mapped=R.renumber_maps(r, rng), truth=r, src=src))
        if not q or n_ % 4 == 0:
            cases.append(dict(kind="valid-self", mapped=r, truth=r, src=src))
            try:
                cases.append(dict(kind="valid-reroot", mapped=R.reroot(R.renumber_maps(r, rng), rng), truth=r, src=src))
            except Exception:
                pass
        for kind, x, y, sw in G9.centre_swaps(r, rng, per_kind=1 if q else 2):
            cases.append(dict(kind="valid-swap-" + kind, mapped=sw, truth=r, x=x, y=y, src=src))
            if kind == "noneq" and (not q or n_ % 3 == 0):
                # the wrong mapping, renumbered: still wrong
                cases.append(dict(kind="valid-swap-noneq", mapped=R.renumber_maps(sw, rng), truth=r, x=x, y=y, src=src))
        if n_ + 1 < len(chosen) and (not q or n_ % 5 == 0):
            cases.append(dict(kind="valid-cross", mapped=chosen[n_ + 1][2], truth=r, src=src))

    # ---- balance
    chosen = (rng.sample(us, 5) + rng.sample(ec, 7)) if q else corp
    for s, i, r in chosen:
        src = "%s#%d" % (s, i)
        cases.append(dict(kind="bal-corpus", rsmi=r, src=src))
        st = _fit(r)
        if st not in (None, "ValueError") and (not q or rng.random() < 0.3):
            cases.append(dict(kind="bal-std", rsmi=st, src=src))
        if not q or rng.random() < 0.3:
            cases.append(dict(kind="bal-frag", rsmi=R.shuffle_fragments(r, rng), src=src))
        for how, v in G9.unbalanced_variants(r, rng):
            cases.append(dict(kind="bal-" + how, rsmi=v, src=src))

    # ---- Standardize (oracle only): every way of calling it, every fragment order, repeated species
    for i, r in enumerate(REPEATED):
        cases.append(_std_case(r, rng, "repeated#%d" % i))
    rep = [x for x in corp if any(c > 1 for side in _sides_unmapped(x[2]) for c in __import__("collections").Counter(side).values())]
    chosen = (rng.sample(us, 5) + rng.sample(ec, 5) + rng.sample(rep, min(4, len(rep)))) if q else corp
    for s, i, r in chosen:
        cases.append(_std_case(r, rng, "%s#%d" % (s, i), 1 if q else 2))
    # ---- FixAAM / NormalizeAAM (oracle only), also with three-digit map numbers
    chosen = (rng.sample(us, 6) + rng.sample(ec, 6)) if q else corp
    for n_, (s, i, r) in enumerate(chosen):
        cases.append(dict(kind="norm" if (q and n_ % 2) else "fixaam", rsmi=r, src="%s#%d" % (s, i)))
        # the graph-level core of NormalizeAAM.fit (graphs captured inside the call), also on the explicit-hydrogen rewriting
        if not q or n_ % 2 == 0:
            cases.append(dict(kind="normcore", rsmi=r, fix=bool(n_ % 4), src="%s#%d" % (s, i)))
            v = G9.add_explicit_h(r, rng)
            if v:
                cases.append(dict(kind="normcore", rsmi=v, fix=True, src="%s#%d" % (s, i)))
        if not q:
            cases.append(dict(kind="norm", rsmi=r, src="%s#%d" % (s, i)))
        if not q or rng.random() < 0.3:
            cases.append(dict(kind="norm", rsmi=G9.renumber_big(r, rng), src="%s#%d" % (s, i)))
    # ---- sizes: the largest corpus reaction (>= 100 atoms) and three/four-digit map numbers through every entry point
    s, i, big = max(corp, key=lambda x: len(R.map_numbers(x[2])))
    cases += _canon_cases("corpus", big, src="%s#%d" % (s, i), backends=("wl",))
    cases.append(dict(kind="valid-renum", mapped=G9.renumber_big(big, rng), truth=big, src="%s#%d" % (s, i)))
    cases.append(dict(kind="bal-corpus", rsmi=big, src="%s#%d" % (s, i)))
    for s, i, r in rng.sample(us, 3 if q else 30):
        v = G9.renumber_big(r, rng)
        cases += _canon_cases("renum", v, orig=r, src="%s#%d" % (s, i), backends=(rng.choice(BACKENDS),))
        cases.append(dict(kind="valid-renum", mapped=v, truth=r, src="%s#%d" % (s, i)))
        sw = _swap_of(v, rng)
        if sw:
            cases.append(dict(kind="valid-swap-noneq", mapped=sw, truth=r, src="%s#%d" % (s, i)))
    # ---- string level (round 5): expand_aam numbering, check_equivariant_graph on several graphs, balance check on odd strings
    import re
    chosen = (rng.sample(us, 4) + rng.sample(ec, 4)) if q else corp
    for s, i, r in chosen:
        src = "%s#%d" % (s, i)
        v = G9.unmap_some(r, rng)
        if v:
            cases.append(dict(kind="expand", rsmi=v, src=src))
            cases.append(dict(kind="expand", rsmi=G9.renumber_big(v, rng), src=src))
        cases.append(dict(kind="expand", rsmi=re.sub(r":\d+\]", "]", r), src=src))          # nothing mapped
        a, b = r.split(">>")
        cases.append(dict(kind="expand", rsmi=re.sub(r":\d+\]", "]", a) + ">>" + b, src=src))  # one side only
        if not q:
            cases.append(dict(kind="expand", rsmi=r, src=src))
    for i, r in enumerate(HAND_CANON + DEGENERATE + [HAND_VALID[-1][0], "[CH3:5][OH:0].[CH3:9]C>>[CH3:5]O[CH3:9].C", "C.C.[CH4:3]>>CC.[CH4:3]"]):
        cases.append(dict(kind="expand", rsmi=r, src="hand#%d" % i))
    small = [x for x in corp if len(R.map_numbers(x[2])) <= 28]
    eq_pool = [("hand", 1, HAND_CANON[1]), ("hand", 2, HAND_CANON[2]), ("arom", 0, AROM[0])] + rng.sample(small, 3 if q else 40)
    for n_, (s, i, t) in enumerate(eq_pool):
        o = eq_pool[(n_ + 1) % len(eq_pool)][2]
        rs = [t, _rewrite(t, rng), o, R.renumber_maps(t, rng), R.renumber_maps(o, rng)]
        w = _swap_of(t, rng)
        if w:
            rs.insert(2, w)
        cases.append(dict(kind="equiv", rsmis=rs, method="RC", src="%s#%d" % (s, i)))
        if n_ % 2 == 0:
            cases.append(dict(kind="equiv", rsmis=rs[:4], method="ITS", src="%s#%d" % (s, i)))
    # NormalizeAAM.extract_subgraph / reset_indices_and_atom_map on parsed sides: random, empty, full, foreign and repeated indices
    for n_, (s, i, t) in enumerate(eq_pool):
        ids = sorted(R.map_numbers(t))
        if not ids:
            continue
        for keep in (rng.sample(ids, max(1, len(ids) // 2)), [], list(reversed(ids)), rng.sample(ids, min(3, len(ids))) * 2 + [max(ids) + 5, 0]):
            cases.append(dict(kind="subgraph", rsmi=t, side=n_ % 2, keep=keep, src="%s#%d" % (s, i)))
    # the static helpers called directly: remap_graph with full / partial / colliding / missing / empty / repeated maps in both argument
    # forms, get_aam_pairwise_indices on graphs that still contain unmapped atoms (atom_map = 0)
    for n_, (s, i, t) in enumerate(eq_pool + [("hand", 9, HAND_VALID[-1][0]), ("hand", 10, "[CH3:5][OH:2].C>>[CH3:5]O.C[OH:2]")]):
        r_ = (G9.unmap_some(t, rng) or t) if n_ % 2 else t
        gh = _unexpanded_graphs(r_)
        if gh is None or gh[1].number_of_nodes() < 2:
            continue
        ns = sorted(gh[1].nodes)
        a, b = rng.sample(ns, 2)
        top = max(ns)
        pvars = [[(n + 100, n) for n in ns], [(n + 100, n) for n in rng.sample(ns, max(1, len(ns) // 2))], [(top + 50, a), (top + 50, b)], [(b, a)],
                 [(1, top + 7)], [], [(top + 20, a), (top + 30, a)], [(a, b), (b, a)], [(0, a)]]
        perm = list(ns)
        rng.shuffle(perm)
        lvars = [perm, perm[:2], [top + 7], [], [a, a], [b]]
        cases.append(dict(kind="remap", rsmi=r_, pvars=pvars, lvars=lvars, src="%s#%d" % (s, i)))
    # BalanceReactionCheck on records: every input form of parse_input / dicts_balance_check, records that already carry a "balanced" key
    # (any value, any position), extra keys, dicts without the column, foreign items, a string that is not a reaction
    brs_ = [r for r in HAND_BALANCE[:8]] + [x[2] for x in rng.sample(corp, 3 if q else 60)]
    for n_ in range(0, len(brs_) - 2, 3):
        a, b, c = brs_[n_:n_ + 3]
        old = ["old", True, False, 7][n_ % 4]
        cases.append(dict(kind="records", col="rx", src="rec#%d" % n_, input=dict(list=[
            dict(dict=[["id", 1], ["rx", a]]), dict(dict=[["balanced", old], ["rx", b], ["note", "x"]]), dict(other=5), dict(dict=[["zz", "C>>C"]]),
            c, dict(dict=[["rx", c], ["balanced", not old if isinstance(old, bool) else "new"]]), dict(dict=[["rx", a], ["rx2", b]])])))
        cases.append(dict(kind="records", col="reactions", src="rec#%d" % n_, input=dict(list=[a, b, c, a])))
        cases.append(dict(kind="records", col="reactions", src="rec#%d" % n_, input=dict(str=b)))
    cases.append(dict(kind="records", col="r", src="hand", input=dict(other=5)))
    cases.append(dict(kind="records", col="r", src="hand", input=dict(list=[])))
    cases.append(dict(kind="records", col="r", src="hand", input=dict(list=["C>>C", "a>>b>>c", "CC>>C"])))
    cases.append(dict(kind="records", col="balanced", src="hand", input=dict(list=[dict(dict=[["balanced", "C>>C"], ["k", 1]]), "CC>>C"])))
    # validate_smiles: several records, three mapper columns (renumbered / wrong / other reaction), options given positionally
    for n_ in range(0, len(eq_pool) - 2, 2 if q else 1):
        ts = [x[2] for x in eq_pool[n_:n_ + 3]]
        rows = []
        for k_, t in enumerate(ts):
            rows.append(dict(gt=t, x=_rewrite(t, rng), y=_swap_of(t, rng) or t, z=R.renumber_maps(ts[(k_ + 1) % 3], rng), extra=k_))
        meth, ia = [("RC", False), ("ITS", False), ("rc", True), ("its", True), ("Rc", False)][n_ % 5]
        cases.append(dict(kind="validate", rows=rows, cols=["x", "y", "z"], method=meth, ia=ia, df=bool(n_ % 4), src="pool#%d" % n_))
    cases.append(dict(kind="validate", rows=[dict(gt=PBV[0], x=PBV[1], y=">>", z="C>>")], cols=["z", "x", "y"], method="rc", ia=False, src="hand"))
    # the two flags must DISCRIMINATE: a wrong mapping that is the mapping of a tautomer of the ground truth (carbonyl / hydroxyl O of the
    # acid transposed: rejected unless tautomers are enumerated), and two mappings whose centres differ only in aromatic-type bond
    # changes (benzene -> 1,3- vs 1,4-cyclohexadiene: RC verdict False / True for ignore_aromaticity False / True); every combination of
    # ignore_aromaticity x ignore_tautomers x method, options positional and by keyword, list and DataFrame, n_jobs 1 and 2
    flag_rows = [dict(gt=ESTER[0], x=ESTER[1], y=ESTER[2], z=PBV[0]), dict(gt=AROM_PAIR[0], x=_rewrite(AROM_PAIR[0], rng), y=AROM_PAIR[1], z=AROM_PAIR[0])]
    n_ = 0
    for meth in ("RC", "ITS"):
        for ia in (False, True):
            for taut in (True, False):
                n_ += 1
                cases.append(dict(kind="validate", rows=flag_rows, cols=["x", "y", "z"], method=meth if n_ % 3 else meth.lower(), ia=ia, taut=taut,
                                  call="kw" if n_ % 2 else "pos", df=bool(n_ % 3 == 0), n_jobs=2 if n_ == 5 else 1, src="flags#%d" % n_))
    cases.append(dict(kind="equiv", rsmis=[], method="RC", src="empty"))
    cases.append(dict(kind="equiv", rsmis=[HAND_CANON[2]], method="RC", src="single"))
    odd = ["a>>b>>c", "xx>>yy", "C>C", "", "C>>>C", ">>>>", "C.>>C", "[H+].[OH-]>>O>>O"]
    cases.append(dict(kind="balstr", rsmis=DEGENERATE + HAND_BALANCE + odd, src="hand"))
    cases.append(dict(kind="balstr", rsmis=[x[2] for x in rng.sample(corp, 6 if q else 120)], src="corpus"))
    # odd strings through every way of calling the standardiser (ValueError / None / filtered fragments)
    for i, d in enumerate(DEGENERATE + odd + ["CC.xx.O>>CC.O", "[H][H].C>>C.[HH]", ".>>.", "xx>>C", "C>>xx", "c1ccccc1.C1=CC=CC=C1>>c1ccccc1"]):
        cases.append(dict(kind="std", rsmi=d, variants=[], src="odd#%d" % i))
    cases += gen_histories(tier, rng, corp)
    return cases


RULE = ("mapped reactions of the two corpora (USPTO test set 100, E. coli 274 minus 28 malformed) and hand-written ones, with PRNG renumberings "
        "(also into 100..2500), RDKit re-rootings (RenumberAtoms + non-canonical writer), fragment shuffles, partial un-mapping, explicit-H "
        "rewriting, centre-atom transpositions classified by the automorphisms of the reference centre, unbalanced variants (fragment deleted / "
        "duplicated, charge changed, hydrogen dropped / added); back-ends wl, nauty, generic, morgan and their options; HISTORIES: scripts of "
        "3-14 API calls on shared objects in one process (validator options in both orders, every API form, reused CanonRSMI / Standardize / "
        "BalanceReactionCheck objects, results mutated by the caller), every step judged; degenerate strings (empty side, single atom, unmapped, "
        "map number 0, repeated map numbers, %10 ring closures); non-trivial = canonicalisation with >= 2 mapping pairs, validator pair of two "
        "different strings, balance verdict on a readable reaction, Standardize / NormalizeAAM case, history with >= 2 steps; distinct = distinct case inputs")
EXHAUSTIVE = {"quick": False, "thorough": False}
EXPLANATION = ("Sampled (quick) / whole corpus (thorough).  The correspondence compares graph-level intermediate results: canonical reactant "
               "graph, mapping_pairs and canonical product graph of CanonRSMI (model: canonical order from the C08 model of the back-end, "
               "pairwise index remap, nx.relabel_nodes with partial / colliding maps, atom-map sync), both validator verdicts and both reaction "
               "centres (model: exhaustive matcher over lib/Mono's candidate test on typesGH + order), balance verdict and element counts; and "
               "string-level results (model/C09_Strings.v): every way of calling Standardize (fit x 4 option combinations, standardize_rsmi x 2, "
               "remove_atom_mapping, the filtered fragment lists before sorting, categorize_reactions) with RDKit as oracle tables, the map number "
               "of every atom after expand_aam, rsmi_balance_check on odd strings, check_equivariant_graph on 0-6 graphs, validate_smiles columns, "
               "parse_input / dict(s)_balance_check records with their key order, remap_graph in both forms with its error cases, "
               "extract_subgraph / reset_indices, the re-parsed FixAAM output; the whole CanonRSMI instance state after every history step.")
TRUSTED_BASE = [
    "Coq 8.16.1 kernel + vm_compute (no native_compute); stdlib only",
    "hand-written models coq/model/C09_Model.v (on the datatypes of C01_Model.v, get_rc of C02_Model.v, canonical orders of C08_Model.v), "
    "C09_Strings.v, C09_State.v, C09_Helpers.v, C09_Records.v tied to canon_rsmi.py / aam_validator.py / balance_check.py / standardize.py / "
    "fix_aam.py / normalize_aam.py by the per-run correspondence",
    "RDKit (SMILES parser, sanitiser, canonical SMILES writer, CalcMolFormula) and MolToGraph / GraphToMol: the graphs reach the graph-level model "
    "AFTER them; the string-level model receives their answers as finite oracle tables computed by direct RDKit calls (harness/gen/c09_str.py)",
    "networkx: relabel_nodes, is_isomorphic (VF2; the model is an exhaustive matcher), weisfeiler_lehman_subgraph_hashes (colours are an oracle input)",
    "harness encoders harness/gen/c01_enc.py, harness/gen/c09_str.py; independent references harness/gen/c09_gen.py (plain RDKit reading + VF2 + Counter)",
]
ASSUMPTIONS = [
    "premise [parsed] of the canonicaliser theorems (node id = atom_map > 0, simple graphs) is what rsmi_to_graph(expand_aam(r)) delivers: "
    "monitored on every canonicaliser case (clause monitor-parsed); its numbering half is proved (C09_expand_sides_spec)",
    "reactions are 'reactants>>products' strings RDKit can read; a map number occurs at most once per side",
    "explicit premises of the string-level theorems: [writer_ok] (graph_to_smi is a function of the graph up to atom / bond listing order), "
    "[reads_back] (the canonical string is parsed back to the written graphs up to listing order), writer contract of Standardize "
    "(a written fragment is read back and written as itself, no '.' or '>' inside): RDKit contracts, monitored by the oracle clauses "
    "canon-fixed-point, canon-numbering-independent, standardize-idempotent, standardize-invariant on every run",
    "numbering independence only (the fixed point needs neither): wl: WL colours of corresponding atoms correspond (networkx contract) and are pairwise distinct; nauty: reactant graph without non-trivial automorphism",
]
TESTED_NOT_PROVED = [
    "history independence of the IMPLEMENTATION (no stale instance state / module-level cache / aliasing of returned objects): every step of "
    "every history is compared with a fresh evaluation and with the pure model function; in the model it holds by construction",
    "NormalizeAAM.fit keeps the reaction centre (oracle only); back-end morgan (oracle only)",
    "the RDKit contracts named as premises (canonical writer is a function of the graph, parse-write round trip, canonical SMILES of one fragment "
    "is a fixed point, remove_atom_mapping's canonical side string does not depend on atom order / fragment order / numbers): oracle on every run",
    "CalcMolFormula string equality <=> equal element counts and charge (RDKit oracle; the graph-level formula is proved, the verdicts are compared on every run)",
    "rsmi_to_graph / graph_to_smi (RDKit front and back end of the canonicaliser): 'same unmapped reactants and products' of the returned STRING "
    "is checked by the oracle on every run (graph level: proved, the canonical graphs are relabelled copies)",
    "WL colours are an input of the model (any ranking); nauty model evaluated only for reactant graphs of <= %d atoms, ITS matcher for <= %d atoms "
    "(larger cases: oracle + reaction-centre matcher only)" % (NAUTY_MAX_ATOMS, ITS_MAX_ATOMS),
    "validate_smiles: success_rate and the float accuracy (derived by the harness from the modelled exact count); RDKit's tautomer enumeration "
    "(oracle input of the modelled smiles_check_tautomer / check_pair); "
    "NormalizeAAM.fit (oracle: reaction centre preserved); list(subgraph.nodes()) of a networkx subgraph-view copy (oracle input of reset_indices_by)",
]
TECHNIQUE = "Coq proof about an executable Gallina model + per-run correspondence (vm_compute) + independent property oracle"
LEVEL_TEXT = ("Machine-checked proof (Coq) over executable models of CanonRSMI.canonicalise (graph level, after RDKit parsing, before RDKit "
              "writing; plus the numbering of expand_aam), AAMValidator.smiles_check / check_equivariant_graph, the balance formula, and the "
              "string-level logic of Standardize and rsmi_balance_check around the RDKit calls. Proved for all inputs: the canonical reactant "
              "and product graphs are the input graphs renamed by one injective map (canonical position on reactant atoms, fresh numbers after "
              "them on product atoms without partner), mapping_pairs are exactly the shared atoms, the ITS of the canonical reaction is "
              "isomorphic to the ITS of the input; expand_aam keeps mapped numbers and gives unmapped atoms fresh, pairwise different numbers (no "
              "unmapped atom gets a partner). Numbering / atom-order / bond-order independence: for nauty on reactant graphs without "
              "non-trivial automorphism (the text's hypothesis 'all atoms distinguishable'; from the C08 theorems about the search), for wl only under "
              "the STRONGER hypothesis of corresponding, pairwise distinct WL colours - under the text's hypothesis wl is REFUTED "
              "(C09_numbering_independent_wl_refuted, known finding wl-tied-colours-distinguishable); for EVERY parsed presentation of the reaction "
              "(any renaming that keeps the relative order of partner-less product atoms, any atom order, bond order, bond orientation) at graph "
              "level, and for the canonical_rsmi STRING relative to two explicit RDKit contracts (writer is a function of the graph; the canonical "
              "string is read back as the written graphs). The fixed-point clause, which the text states without condition, is proved without "
              "condition for both back-ends (wl: tied colours included; nauty: every reactant graph, automorphisms or not - on a canonical graph the "
              "search visits the identity order first and keeps it), for every presentation and at string level. The validator's matcher answers true exactly when "
              "the two ITS graphs / reaction centres are isomorphic on typesGH and bond-order pairs (both values of ignore_aromaticity), hence "
              "accepts every renumbering and rejects every non-equivalent swap; check_equivariant_graph returns exactly the index pairs of "
              "isomorphic graphs. Balance: true exactly when all element counts (with hydrogens) and the total charge agree; dicts_balance_check "
              "is a loss-free split. Standardize: the standard form depends only on the multiset of canonical fragment strings of each side "
              "(fragment order, atom order), is idempotent relative to the writer contract of a single fragment, and fit with the default "
              "remove_aam=True is a function of the two cleaned sides. The models are compared with the Python code on every run.")
LEVEL_NOTE = ("Not proved, only tested on every run (independent oracle: plain RDKit reading + VF2 + Counter): the RDKit contracts that appear as "
              "explicit premises (canonical SMILES writer / parser round trip), CalcMolFormula string equality = equal counts and charge, "
              "FixAAM / NormalizeAAM, back-end morgan. WL colours are an input of the model. Model evaluation is bounded (nauty <= 45 reactant "
              "atoms, ITS matcher <= 40 atoms); larger cases are checked by the oracle and the reaction-centre matcher. Known findings: >= 2 "
              "product atoms without reactant partner are numbered in the order of their input numbers (C09_numbering_partnerless_refuted); "
              "back-end wl orders distinguishable atoms with tied WL colours by the input numbering (C09_numbering_independent_wl_refuted). "
              "Defects found and repaired: 8092e28 (product atoms without reactant partner dropped or merged), 7b06bf6, b262050.")
