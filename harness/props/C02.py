"""C02 — reaction centre = changed bonds (+ H-H bonds); radius-k context = atoms within k bonds; monotone chain.

case kinds
  {"kind": "its-exh"|"its-exh15"|"its-rand"|"its-incons"|"its-toplevel"|"regress", "I": <json ITS graph>, "pi": {old: new}?}
  {"kind": "pair-exh1"|"pair-exh2"|"pair-rand", "G": ..., "H": ...}            ITS = ITSGraph(G, H)
  {"kind": "corpus"|"rw-renum"|..., "rsmi": "...", "orig": "..."?}             ITS = rsmi_to_its(rsmi)
  any of the above + "ia": bool, "bal": bool      ITS = ITSGraph(G, H, ignore_aromaticity=ia, balance_its=bal)      (model: run_pair_o)
  any of the above + "helpers": [radii]           find_unequal_order_edges, remove_normal_edges, extract_k(radii)   (model: run_helpers)
  {"kind": "lre", "I": <ITS in networkx iteration order>, "lre": true}         longest_radius_extension, extract_k(-1)  (model: run_lre)
  {"kind": "x-exh"|"x-rand"|..., "X": <ITS with optional labels / is_mtg>, "keys": [...]}
                                                  get_rc(X, element_key=keys) under the four (disconnected, keep_mtg) settings + centre of the centre (run_opts)
  {"kind": "list", "Is": [<ITS>...], "k": n_knn}  paralle_context_extraction over [{"ITS": .., "id": i}]              (model: run_list)
Observable: centre (nodes with attributes, edges with order pair and standard_order), the centre of the centre,
node set and edge set of extract_k(ITS, k) for k = 0..3, the full radius-1 context with attributes.
"""
import itertools

from ..gen import c01_enc as E
from ..gen import c01_rsmi as R
from ..gen import c02_enc as X
from ..gen import c02_hist as HS
from ..gen import c02_store as ST
from . import C01 as P1

PID = "C02"
COQ_HEADER = ("From Coq Require Import List NArith ZArith.\nFrom SK Require Import lib.Tok lib.LGraph model.C01_Model model.C01_Opts model.C01_String model.C02_Model model.C02_Store model.C02_Api model.C02_Compare.\n"
              "Import ListNotations.\nOpen Scope Z_scope.\n")
SHARD = 450
IMPL_TIMEOUT = 1500
COQ_TIMEOUT = 900
RULE = ("rounds 4-5 add pair-labelled ITS graphs (non-trivial = a centre atom carries a pair label), reaction dicts / direct helper calls / pass-by-pass states (non-trivial = "
        "the call returns a result and, for the passes, a later pass adds something); round 3 adds histories (one case = a script of queries, in-place edits and result mutations on ONE shared ITS object; non-trivial = two steps "
        "answer differently), wrapper, degenerate-value and 100-150-atom cases.  ITS graphs (synthetic, ITSGraph of synthetic pairs with and without ignore_aromaticity/balance_its, rsmi_to_its of corpus reactions and "
        "rewritings), radii 0..3 (helpers: 0,1,4,7 and -1); get_rc under all four (disconnected, keep_mtg) settings and several element_key "
        "lists; lists of reaction dicts; non-trivial = ITS of a recognised class (standard_order = difference, or the ignore_aromaticity rule) "
        "whose centre is non-empty and strictly smaller than the ITS / an option that changes the centre / a list of >= 2 / an extension path "
        "of >= 2 atoms; distinct = distinct case inputs")
EXHAUSTIVE = {"quick": True, "thorough": True}
EXPLANATION = ("Exhaustive sub-spaces (both tiers): ALL ITS graphs on 1..3 nodes over top-level element in {C,H} and per-pair state in "
               "{absent} + ({0,1,2}^2 minus (0,0)) (2 + 36 + 5832 graphs, standard_order = difference), all 2-node ITS graphs over orders "
               "{0,1,1.5,2} with standard_order = difference and with the ignore_aromaticity rule; ITS of all 32 one-node pairs of C01's alphabet; "
               "for get_rc's options ALL 2-node graphs over node kinds {C,H,charge-changing C/H, C/H without typesGH} x pair state {absent} + "
               "4 order pairs x is_mtg {absent,False,True} and ALL 3-node graphs over {C,H,charge-changing C} x {absent, unchanged, unchanged+is_mtg, "
               "changed}^3, each under the four (disconnected, keep_mtg) settings.  Sampled: C01's two-node pair scope, random tree-like ITS "
               "graphs up to 12 nodes, ITS graphs whose standard_order is NOT the difference, ITS graphs whose top-level element differs from "
               "typesGH, random option graphs up to 9 nodes with missing labels and seven element_key lists, ITSGraph(ignore_aromaticity=True, "
               "balance_its) of random/malformed pairs and corpus reactions, RadiusExpand helpers (find_unequal_order_edges, remove_normal_edges, "
               "extract_k for radii 0,1,4,7; n_knn=-1 with longest_radius_extension on graphs in networkx iteration order incl. rings with many "
               "equally long paths), lists of 1..5 reaction dicts through paralle_context_extraction, corpus reactions with renumbering (also into "
               "10..99 and 100..999), ring closures rewritten as %1d, re-rooting, fragment shuffle, reversal.  Round 3: 500 histories in 7 flavours (radii in different "
               "orders; count-preserving / count-changing / rewiring in-place edits between extractions; options before and after defaults, positional and by "
               "keyword; caller-side mutation of returned graphs; the same object several times in a list) + 12 hand-written ones, get_rc with bond_key / "
               "standard_key, remove_normal_edges('is_mtg'), rsmi_to_its(core), HierContext.fit, 70 fixed degenerate cases (empty ITS, single/isolated atoms, "
               "no changed bond, 0 / 0.0 / -0.0, ids 0 and 4e9, elements '' and '*', absent labels, radius 50, self loops; raw values outside the model are "
               "monitored only), ITS graphs with 100-150 atoms.  Rounds 4-5: 1340 pair-labelled cases (construct defaults / options on C01's two-node scope, random, malformed "
               "and corpus pairs; the exhaustive two-node option scope pair-labelled; random partly pair-labelled graphs; mixed store=True/False histories; raw label shapes), "
               "190 reaction-dict cases (key options, key order, existing / identical context key, KeyError / non-graph value, lists with an erroneous element), 120 direct "
               "find_nearest_neighbors calls (start atoms outside the graph, n_knn <= 0), 276 pass-by-pass cases + truth tables, n_knn < -1, rsmi_to_its(core, explicit_hydrogen).  "
               "Theorems: see LEVEL_TEXT.")
TRUSTED_BASE = [
    "Coq 8.16.1 kernel + vm_compute (no native_compute); stdlib only",
    "hand-written models coq/model/C02_Model.v (get_rc, get_rc with element_key/disconnected/keep_mtg, find_nearest_neighbors, extract_k incl. "
    "n_knn=-1, find_unequal_order_edges, remove_normal_edges, longest_radius_extension with fuel |nodes|+1, context extraction over a list, "
    "ITSGraph with ignore_aromaticity/balance_its) and C01_Model.v (ITS datatypes, its_construct) tied to synkit/Graph/ITS/its_decompose.py, "
    "synkit/Graph/Context/radius_expand.py and synkit/Graph/ITS/its_construction.py by the per-run correspondence",
    "harness encoders harness/gen/c01_enc.py and harness/gen/c02_enc.py (nx ITS graph -> Gallina literal, half-unit orders, element interning, "
    "absent attributes -> None, element_key -> seven booleans; attributes -> tok)",
    "networkx Graph.subgraph / neighbors / copy semantics; for n_knn=-1 the adjacency iteration order of networkx (cases are fed in networkx "
    "iteration order so that the model's edge-list order is the implementation's)",
    "joblib.Parallel(n_jobs=1) runs the generator sequentially in-process",
    "models coq/model/C02_Store.v (get_rc / extract_k / find_unequal_order_edges on pair- and absent-label graphs) and coq/model/C02_Api.v (reaction dicts, direct "
    "find_nearest_neighbors, the four passes of get_rc, truth tables), encoder harness/gen/c02_store.py; C01's models its_construct_o / its_construct_S / h_to_explicit_its "
    "(imported read-only); networkx Graph.neighbors raising NetworkXError for a missing node; rc.nodes iteration order = insertion order (pass-by-pass cases)",
    "rsmi_to_its(core=...) for corpus cases goes through RDKit + MolToGraph (C01's modelled-not-verified half) before the graphs reach the model",
]
ASSUMPTIONS = [
    "ITS nodes carry a subset of element, charge, atom_map, typesGH, aromatic, hcount, neighbors (round-1 populations: all four main labels); "
    "edges carry order=(a,b) as a tuple, a numeric standard_order and optionally a boolean is_mtg",
    "the property's 'order differs' is identified with 'standard_order != 0' only on ITS graphs where standard_order = order_G - order_H "
    "(std_consistent: proved for every output of ITSGraph, C01_union / C02_construct_default); on ITSGraph(ignore_aromaticity=True) graphs "
    "(ia_consistent, proved: C02_ia_construct) the oracle and theorem C02_rc_edges_ia demand '|difference| >= 1' instead and the property's clause "
    "is refuted by design (C02_rc_edges_ia_refuted); on other graphs only the model/implementation correspondence is checked",
    "element_key is modelled as the set of the seven attribute names it contains (order and duplicates are not observable; other strings select nothing)",
    "n_knn = -1 is modelled only on graphs fed in networkx iteration order (the path chosen among equally long ones depends on adjacency order)",
]
TESTED_NOT_PROVED = [
    "isomorphic centres under atom-map renumbering of a reaction STRING (through rsmi_to_its; multi-digit maps, %1d ring closures): oracle on every "
    "renumbered corpus case; the graph-level statement is theorem C02_rc_equivariant",
    "idempotence of get_rc under options is proved when element_key keeps element and typesGH (C02_rcx_idem) and refuted by witnesses when either is "
    "dropped; the centre of the centre is compared with the model on every option case",
    "statefulness: the Gallina functions are pure, so 'every step of a history equals the fresh value' holds in the model by construction; that the "
    "Python code has no state surviving between calls / aliasing between results and inputs is what the history cases test (every step judged by the "
    "oracle against a fresh evaluation and against the set-based reference); nested attribute lists (neighbors) ARE shared by reference between an ITS, "
    "its centre and its contexts (networkx shallow copies) and the oracle does not demand otherwise",
    "paralle_context_extraction with n_jobs > 1 (joblib falls back to 1 inside the harness' daemonic workers)",
    "context_extraction leaves the input dict and its graphs untouched and the result's other entries equal the input's (oracle; identity is not demanded); the model's dicts are values",
    "get_rc / the RadiusExpand helpers do not mutate their input graph, their element_key list or earlier results; context_extraction copies the dict "
    "(oracle on every option / helper / list / history case)",
    "isinstance(order, tuple) in find_unequal_order_edges: ITS graphs whose order is a list are outside the model (the library never builds them)",
]
LEVEL_TEXT = ("Machine-checked proof (Coq, 124 theorems, all closed under the global context) over an executable model of get_rc and RadiusExpand: on every "
              "well-formed ITS graph whose standard_order is the order difference the centre contains a bond iff its two orders differ or both atoms "
              "are hydrogens (for ignore_aromaticity ITS graphs: iff the orders differ by at least 1, with a witness that 'differs' alone fails; "
              "stated also on the two sides: for the ITS of a reactant graph G and a product graph H two atoms are joined in the centre iff they are "
              "bonded on some side and the order differs between G and H, or both are hydrogens), "
              "contains exactly the endpoints of these bonds with the ITS labels (element, charge, typesGH, atom_map), get_rc is idempotent and "
              "commutes with every injective renumbering; for every k >= 1 the radius-k context is the induced subgraph on exactly the atoms at "
              "distance <= k from the centre, and centre within context(1) within context(2) ... within ITS.  Options: exact characterisation of the "
              "bonds and of the atoms with their labels for every element_key / disconnected / keep_mtg (keep_mtg adds exactly the flagged bonds; "
              "disconnected adds exactly the charge-changing atoms and makes the centre the induced subgraph; the default centre is a subgraph of "
              "every variant; with default options the general function is get_rc; every variant is well-formed, commutes with injective renumberings and is "
              "idempotent when element_key keeps element and typesGH).  Helpers: find_unequal_order_edges is a subset of the centre "
              "atoms, equal without unchanged H-H bonds, strict in general; remove_normal_edges keeps exactly the standard_order != 0 bonds; "
              "extract_k option handling incl. n_knn=-1 (longest_radius_extension: the result is the first longest path of the search trace and every traced path is a longest simple chain of unchanged bonds from its start atom avoiding the atoms excluded at that moment); the contexts commute with renumbering, carry the centre (the centre of a context is the centre) and nest (the radius-k context of a radius-k' context is the radius-k context); remove_normal_edges for standard_order and is_mtg; extract_subgraph; list extraction is element-wise.  The model is compared with the Python code on every run "
              "(exhaustive <= 3-node scopes for the default and for the options, random/inconsistent/ignore_aromaticity ITS graphs, corpus "
              "reactions and rewritings, radii 0..7, 50 and -1, lists, wrappers rsmi_to_its(core) and HierContext.fit, degenerate values, 100-150 atoms) and, since "
              "round 3, on HISTORIES: scripts of 3-7 calls and in-place edits on one shared ITS object.  Rounds 4-5: ITS graphs whose labels are (reactant, product) "
              "pairs (ITSConstruction.construct, store=True): get_rc runs in lock step with the scalar model on the flattened graph, copies every label unchanged, keeps "
              "H-H bonds (element 'H' or the pair ('H','H'): defect repaired in /repo 01341f7), is well-formed, idempotent and equivariant there, and its flattened centre is "
              "the centre of the store=False ITS of the same graphs; contexts for every label shape and any start atoms; calling conventions (reaction dicts through "
              "context_extraction / paralle_context_extraction, direct find_nearest_neighbors, n_knn < -1); get_rc pass by pass (the four helpers called one by one, every "
              "intermediate state compared); rsmi_to_its(core=True, explicit_hydrogen=True): explicit hydrogens do not change the centre's bonds unless a hydrogen atom "
              "carries implicit hydrogens (witness, replayed on the code).")
LEVEL_NOTE = ("ITS graphs whose standard_order follows neither rule are outside the hypotheses of the 'order differs' theorems and are checked by "
              "correspondence only; on ignore_aromaticity ITS graphs the property text's clause 'order differs => in the centre' is false by design "
              "of the option (the check demands the |difference| >= 1 version there); the RDKit front end used to obtain corpus ITS graphs is "
              "C01's monitored oracle; n_knn=-1 is compared only on graphs fed in networkx iteration order.")


def worker_init():
    import logging
    logging.disable(logging.CRITICAL)


# ------------------------------------------------------------------ the ITS of a case

def _its_nx(case):
    """-> networkx ITS or None"""
    if "I" in case:
        return E.to_nx(case["I"])
    from synkit.Graph.ITS.its_construction import ITSConstruction
    gh = P1._graphs_nx(case)
    if gh is None:
        return None
    if "ia" in case:
        return ITSConstruction.ITSGraph(gh[0], gh[1], ignore_aromaticity=case["ia"], balance_its=case.get("bal", False))
    return ITSConstruction.ITSGraph(*gh)


RADII = (0, 1, 2, 3)


OPTS = ((False, False), (False, True), (True, False), (True, True))     # (disconnected, keep_mtg), order of run_opts


def _rename_edges(G, old, new):
    for _, _, d in G.edges(data=True):
        for a, b in zip(old, new):
            if a in d:
                d[b] = d.pop(a)
    return G


def impl_x(case):
    from synkit.Graph.ITS.its_decompose import get_rc
    if case.get("rne"):
        from synkit.Graph.Context.radius_expand import RadiusExpand
        return [X.obs_xits(RadiusExpand.remove_normal_edges(E.to_nx(case["X"]), k)) for k in ("is_mtg", "order", "no_such_key")]
    if case.get("alt"):
        # bond_key / standard_key other than the defaults: the same graph with the two edge attributes renamed
        out = []
        for disc, keep in OPTS:
            I = _rename_edges(E.to_nx(case["X"]), ("order", "standard_order"), ("bo", "so"))
            rc = get_rc(I, list(case["keys"]), "bo", "so", disc, keep)
            rc2 = get_rc(rc, element_key=list(case["keys"]), standard_key="so", bond_key="bo", keep_mtg=keep, disconnected=disc)
            out.append([X.obs_xits(_rename_edges(rc, ("bo", "so"), ("order", "standard_order"))),
                        X.obs_xits(_rename_edges(rc2, ("bo", "so"), ("order", "standard_order")))])
        return out
    out = []
    for disc, keep in OPTS:
        I = E.to_nx(case["X"])
        rc = get_rc(I, element_key=list(case["keys"]), disconnected=disc, keep_mtg=keep)
        rc2 = get_rc(rc, element_key=list(case["keys"]), disconnected=disc, keep_mtg=keep)
        out.append([X.obs_xits(rc), X.obs_xits(rc2)])
    return out


def impl_helpers(case):
    from synkit.Graph.Context.radius_expand import RadiusExpand
    from ..tok import S
    I = _its_nx(case)
    if I is None:
        return ["unparsable"]
    return [S(sorted(RadiusExpand.find_unequal_order_edges(I))), E.obs_its(RadiusExpand.remove_normal_edges(I, "standard_order")),
            [X.obs_ctx(RadiusExpand.extract_k(I, k)) for k in case["helpers"]]]


def _lre_json(case):
    """the ITS of an lre case in networkx iteration order: the literal of the case, or (kind lre-corpus) the ITS of a corpus reaction
    rebuilt from its own edge iteration order, so that implementation and model read the same adjacency order"""
    if "I" in case:
        return case["I"]
    from synkit.IO.chem_converter import rsmi_to_its
    return X.canon(E.from_nx(rsmi_to_its(case["rsmi"])))


def impl_lre(case):
    from synkit.Graph.ITS.its_decompose import get_rc
    from synkit.Graph.Context.radius_expand import RadiusExpand
    I = E.to_nx(_lre_json(case))
    rcn = list(get_rc(I).nodes())
    path = RadiusExpand.longest_radius_extension(I, list(rcn))
    return [list(path), X.obs_ctx(RadiusExpand.extract_k(I, -1)),
            [list(RadiusExpand.longest_radius_extension(I, [n])) for n in rcn], list(RadiusExpand.longest_radius_extension(I, rcn[::-1]))]


def impl_list(case):
    from synkit.Graph.Context.radius_expand import RadiusExpand
    data = [{"ITS": E.to_nx(g), "id": i} for i, g in enumerate(case["Is"])]
    out = RadiusExpand.paralle_context_extraction(data, n_knn=case["k"])
    return [[E.obs_its(d["ITS"]), E.obs_its(d["K"])] for d in out]


def _wrap_graphs(case):
    """(G, H) as the wrapper's own front end produces them (RDKit + MolToGraph: monitored, not verified)"""
    from synkit.IO.chem_converter import rsmi_to_graph
    if case["wrap"] == "implicit_rule":
        from synkit.Chem.utils import remove_explicit_H_from_rsmi
        return rsmi_to_graph(remove_explicit_H_from_rsmi(case["rsmi"]))
    return rsmi_to_graph(case["rsmi"])


def _raw_nx(g):
    """networkx graph with the attribute values exactly as in the JSON (order stays a LIST, standard_order may be None / a string / absent)"""
    import networkx as nx
    G = nx.Graph()
    for n, a_ in g["nodes"]:
        G.add_node(n, **a_)
    for u, v, a_ in g["edges"]:
        G.add_edge(u, v, **a_)
    return G


def impl_raw(case):
    """values OUTSIDE the model's domain (monitored only: the calls must not raise; no clause is demanded)"""
    from synkit.Graph.ITS.its_decompose import get_rc
    from synkit.Graph.Context.radius_expand import RadiusExpand
    I = _raw_nx(case["I"])
    out = []
    for f in (lambda: sorted(get_rc(I).nodes), lambda: sorted(map(sorted, get_rc(I).edges)),
              lambda: sorted(RadiusExpand.find_unequal_order_edges(I)), lambda: sorted(RadiusExpand.extract_k(I, 1).nodes),
              lambda: sorted(map(sorted, RadiusExpand.remove_normal_edges(I, "standard_order").edges))):
        try:
            out.append(f())
        except Exception as e:          # recorded, not demanded
            out.append("raised " + type(e).__name__)
    return out


def _build_S(case, which=None):
    """the networkx ITS of an S-case: a JSON literal with pair labels, or ITSConstruction on (G, H) under the case's options"""
    if "S" in case:
        return ST.to_nx_S(case["S"])
    from synkit.Graph.ITS.its_construction import ITSConstruction
    G, H = P1._graphs_nx(case)
    opts = case["sopts"] if which is None else case["sopts"][which]
    if opts.get("api") == "construct-defaults":
        return ITSConstruction.construct(G, H)             # store=True, balance_its=True, ignore_aromaticity=False
    return E.call_construct(G, H, opts)


def impl_S(case):
    from synkit.Graph.ITS.its_decompose import get_rc
    from synkit.Graph.Context.radius_expand import RadiusExpand
    from ..tok import S
    if "shist" in case:
        objs = {w: _build_S(case, w) for w in case["sopts"]}
        return [ST.obs_sits(_s_query(objs[w], q)) for w, q in case["shist"]]
    if case.get("slre"):
        I = _build_S(case)
        rcn = list(get_rc(I).nodes())
        path = RadiusExpand.longest_radius_extension(I, list(rcn))
        return [rcn, list(path)] + [ST.obs_sits(RadiusExpand.extract_k(_build_S(case), k)) for k in (-1, -2, 2)]
    keys = list(case["keys"])
    out = []
    for disc, keep in OPTS:
        I = _build_S(case)
        rc = get_rc(I, element_key=list(keys), disconnected=disc, keep_mtg=keep)
        rc2 = get_rc(rc, element_key=list(keys), disconnected=disc, keep_mtg=keep)
        out.append([ST.obs_sits(rc), ST.obs_sits(rc2)])
    I = _build_S(case)
    out.append([ST.obs_sits(RadiusExpand.extract_k(I, k)) for k in RADII])
    out.append(S(sorted(RadiusExpand.find_unequal_order_edges(I))))
    return out


def _s_query(I, q):
    from synkit.Graph.ITS.its_decompose import get_rc
    from synkit.Graph.Context.radius_expand import RadiusExpand
    if q[0] == "rc":
        return get_rc(I)
    if q[0] == "rcx":
        return get_rc(I, list(q[1]), "order", "standard_order", q[2], q[3])
    if q[0] == "k":
        return RadiusExpand.extract_k(I, q[1])
    if q[0] == "ctx":
        return RadiusExpand.context_extraction({"ITS": I}, n_knn=q[1])["K"]
    if q[0] == "hk":
        from synkit.Graph.Context.hier_context import HierContext
        return HierContext.extract_k(I, n_knn=q[1])
    if q[0] == "rck":                                      # the centre of a context (theorem 35c)
        return get_rc(RadiusExpand.extract_k(I, q[1]))
    if q[0] == "kk":                                       # the radius-q[1] context of the radius-q[2] context (theorem 35d)
        return RadiusExpand.extract_k(RadiusExpand.extract_k(I, q[2]), q[1])
    raise AssertionError(q)


def _s_lit(case, which=None):
    if "S" in case:
        return ST.coq_sits(case["S"])
    gh = P1._graphs_nx(case)
    opts = case["sopts"] if which is None else case["sopts"][which]
    o = dict(ST.DEFAULT_CONSTRUCT, api="construct") if opts.get("api") == "construct-defaults" else opts
    return ST.coq_built(o, E.coq_mgraph(E.from_nx(gh[0])), E.coq_mgraph(E.from_nx(gh[1])))


def coq_S(case):
    if case.get("sraw"):
        return None
    if "shist" in case:
        lits = {w: _s_lit(case, w) for w in case["sopts"]}
        ts = []
        for w, q in case["shist"]:
            if q[0] == "rc":
                ts.append("tsits (get_rc_S K_default false false %s)" % lits[w])
            elif q[0] == "rcx":
                ts.append("tsits (get_rc_S %s %s %s %s)" % (X.coq_keys(q[1]), E.cb(q[2]), E.cb(q[3]), lits[w]))
            elif q[0] == "rck":
                ts.append("tsits (get_rc_S K_default false false (extract_k_S %s %d%%nat))" % (lits[w], q[1]))
            elif q[0] == "kk":
                ts.append("tsits (extract_k_S (extract_k_S %s %d%%nat) %d%%nat)" % (lits[w], q[2], q[1]))
            else:
                ts.append("tsits (extract_k_S %s %d%%nat)" % (lits[w], q[1]))
        return "L [%s]" % "; ".join(ts)
    if case.get("slre"):
        return "run_S_lre %s" % _s_lit(case)
    return "run_S_all %s %s" % (X.coq_keys(case["keys"]), _s_lit(case))


def _labels_clause(tag, got, I, keys=None, hh_nodes=()):
    """'with their ITS labels': every label of an atom of a centre / context is EQUAL to the ITS atom's label and has the same shape and type"""
    for n in got.nodes:
        if n not in I.nodes:
            continue
        src = I.nodes[n]
        for k, v in got.nodes[n].items():
            if keys is not None and k not in keys and k != "typesGH":
                continue
            if k == "typesGH" and k not in src:
                continue                                   # the H-H fallback
            if k not in src or not ST.same_label(v, src[k]):
                return [dict(clause="atom-labels-unchanged", detail="%s: atom %r label %s is %r (%s), the ITS atom has %r (%s)"
                             % (tag, n, k, v, type(v).__name__, src.get(k, "<absent>"), type(src.get(k)).__name__))]
    return []


def oracle_S(case):
    from synkit.Graph.ITS.its_decompose import get_rc
    from synkit.Graph.Context.radius_expand import RadiusExpand
    fails = []
    if "shist" in case:
        objs = {w: _build_S(case, w) for w in case["sopts"]}
        for i, (w, q) in enumerate(case["shist"]):
            got = _s_query(objs[w], q)
            fresh = _s_query(_build_S(case, w), q)
            if not HS.graph_eq(got, fresh):
                fails.append(dict(clause="history-step-fresh", detail="step %d %r on the %s ITS differs from the same call on a freshly built ITS; earlier steps %r" % (i, q, w, case["shist"][:i])))
                break
            fails += _labels_clause("step %d %r on the %s ITS" % (i, q, w), got, objs[w])
            if q[0] == "rck" and not HS.graph_eq(got, get_rc(_build_S(case, w))):
                fails.append(dict(clause="context-carries-centre", detail="step %d: the centre of the radius-%d context of the %s ITS is not the centre of the ITS" % (i, q[1], w)))
            if q[0] == "kk" and q[1] <= q[2] and not HS.graph_eq(got, RadiusExpand.extract_k(_build_S(case, w), q[1])):
                fails.append(dict(clause="contexts-nest", detail="step %d: the radius-%d context of the radius-%d context of the %s ITS is not its radius-%d context" % (i, q[1], q[2], w, q[1])))
            if not HS.graph_eq(objs[w], _build_S(case, w)):
                fails.append(dict(clause="history-its-changed", detail="step %d %r changed the %s ITS" % (i, q, w)))
            if fails:
                break
        return fails[:3]
    if case.get("slre"):
        I = _build_S(case)
        rcn = list(get_rc(I).nodes())
        path = RadiusExpand.longest_radius_extension(I, list(rcn))
        ok = len(set(path)) == len(path) and (not path or path[0] in rcn) and (bool(path) == bool(rcn)) \
            and all(I.has_edge(a, b) and I[a][b].get("standard_order", 1) == 0 for a, b in zip(path, path[1:]))
        if not ok:
            fails.append(dict(clause="extension-path", detail="longest_radius_extension %r is not a simple path of unchanged bonds starting in a centre atom %r" % (path, rcn)))
        elif rcn:
            ref = _longest_zero_path_from(I, rcn[0])
            if ref is not None and len(path) < ref:
                fails.append(dict(clause="extension-longest", detail="longest_radius_extension has %d atoms, a simple path of unchanged bonds with %d atoms starts in the first centre atom %r" % (len(path), ref, rcn[0])))
        for k, r in ((-1, len(path)), (2, 2)):
            ctx = RadiusExpand.extract_k(I, k)
            if set(ctx.nodes) != _ball(I, rcn, r):
                fails.append(dict(clause="context-atoms", detail="n_knn=%d: context atoms %r, atoms within %d bonds of the centre %r" % (k, sorted(ctx.nodes), r, sorted(_ball(I, rcn, r)))))
            fails += _labels_clause("context n_knn=%d" % k, ctx, I)
        return fails[:3]
    keys = list(case["keys"])
    for disc, keep in OPTS:
        I = _build_S(case)
        tag = "disconnected=%s keep_mtg=%s element_key=%r" % (disc, keep, keys)
        rc = get_rc(I, element_key=list(keys), disconnected=disc, keep_mtg=keep)
        fails += _labels_clause(tag, rc, I, keys)
        try:
            bonds, atoms = ref_centre(_build_S(case), keys, disc, keep)
        except (KeyError, TypeError):
            bonds = None
        if bonds is not None:
            if {frozenset(e) for e in rc.edges} != set(bonds) or set(rc.nodes) != set(atoms):
                fails.append(dict(clause="opt-centre-bonds", detail="%s: centre atoms %r bonds %r, expected atoms %r bonds %r (changed%s bonds, H-H bonds: element 'H' or the pair ('H', 'H'))"
                                  % (tag, sorted(rc.nodes), sorted(map(sorted, rc.edges)), sorted(atoms), sorted(map(sorted, bonds)), " or is_mtg" if keep else "")))
            else:
                for n in rc.nodes:
                    if set(rc.nodes[n]) != set(atoms[n]):
                        fails.append(dict(clause="opt-centre-atom-labels", detail="%s: atom %r carries the labels %r, expected %r" % (tag, n, sorted(rc.nodes[n]), sorted(atoms[n]))))
                        break
        if not HS.graph_eq(I, _build_S(case)):
            fails.append(dict(clause="opt-input-mutated", detail="%s: get_rc changed its input graph" % tag))
        fails += _store_twin_clause(case, tag, rc, keys, disc, keep)
        if not disc and not keep:
            fails += _sides_clause_S(case, rc)
        if disc == keep:
            # renumbering the atoms yields the renumbered centre (theorem C02_rcS_equivariant), whatever the label shapes
            import networkx as nx
            pi = {n: 3 * n + 101 for n in I.nodes}
            rcJ = get_rc(nx.relabel_nodes(_build_S(case), pi, copy=True), element_key=list(keys), disconnected=disc, keep_mtg=keep)
            if not HS.graph_eq(rcJ, nx.relabel_nodes(rc, pi, copy=True)):
                fails.append(dict(clause="centre-renumbering", detail="%s: the centre of the renumbered ITS (n -> 3n+101) is not the renumbered centre" % tag))
        if fails:
            return fails[:3]
    I = _build_S(case)
    centre = set(get_rc(I).nodes)
    for k in RADII[1:]:
        ctx = RadiusExpand.extract_k(I, k)
        if set(ctx.nodes) != _ball(I, centre, k):
            fails.append(dict(clause="context-atoms", detail="radius %d: context atoms %r, atoms within %d bonds of the centre %r" % (k, sorted(ctx.nodes), k, sorted(_ball(I, centre, k)))))
        fails += _labels_clause("context of radius %d" % k, ctx, I)
        if any(set(ctx.nodes[n]) != set(I.nodes[n]) for n in ctx.nodes):
            fails.append(dict(clause="context-induced", detail="radius %d: a context atom lost or gained labels" % k))
        if fails:
            break
    return fails[:3]


# ------------------------------------------------------------------ calling conventions (model/C02_Api.v): reaction dicts, direct find_nearest_neighbors

def _mk_dict(D):
    return {k: (E.to_nx(v["its"]) if isinstance(v, dict) else v) for k, v in D}


def _call_ctx(case, data):
    from synkit.Graph.Context.radius_expand import RadiusExpand
    ik, ck, k, style = case["its_key"], case["ctx_key"], case["k"], case.get("style", "kw")
    if "Ds" in case:
        if style == "pos":
            return RadiusExpand.paralle_context_extraction(data, ik, ck, 1, 0, k)
        return RadiusExpand.paralle_context_extraction(data, n_knn=k, context_key=ck, its_key=ik)
    if style == "pos":
        return RadiusExpand.context_extraction(data, ik, ck, k)
    if style == "default" and ik == "ITS" and ck == "K":
        return RadiusExpand.context_extraction(data, n_knn=k)
    return RadiusExpand.context_extraction(data, n_knn=k, context_key=ck, its_key=ik)


def _obs_dict(d):
    from ..tok import S
    return S([[E.elem_code(k), ([1, E._int(v)] if isinstance(v, int) and not isinstance(v, bool) else [0, E.obs_its(v)])] for k, v in d.items()])


PASSES = ("_add_changed_bonds", "_add_hh_bonds", "_add_charge_change_nodes", "_reconnect_rc_edges", "_add_bond_order_changes")
TRUTH_STDS = (0, 0.0, 0.5, -0.5, 1, -1, 1.5, 2, -2.0, 3)
TRUTH_ELS = ("H", "C", "", "*", "He", ("H", "H"), ("H", "C"), ("C", "H"), ("C", "C"), ("*", "*"))


def _has_passes():
    import importlib
    D = importlib.import_module("synkit.Graph.ITS.its_decompose")
    return all(callable(getattr(D, f, None)) for f in PASSES + ("_should_include_edge", "_is_hydrogen"))


def _obs_state(rc):
    o = X.obs_xits(rc)
    return [list(o[0]["__set__"]), o[1]]          # atoms in rc.nodes order, bonds as a set


ALL_NODE_ATTRS = ["element", "charge", "atom_map", "typesGH", "aromatic", "hcount", "neighbors"]
ALL_EDGE_ATTRS = ["order", "standard_order", "is_mtg"]


def _coq_esel(ea):
    return "(ES %s)" % " ".join("true" if k in ea else "false" for k in ALL_EDGE_ATTRS)


def impl_cmp(case):
    """compare_graphs (its_decompose.py) on two graphs under several attribute selections, then as the judge of the idempotence clause"""
    from synkit.Graph.ITS.its_decompose import compare_graphs, get_rc
    G1, G2 = E.to_nx(case["X"]), E.to_nx(case["Y"])
    out = [[compare_graphs(G1, G2, list(na), list(ea)), compare_graphs(G2, G1, list(na), list(ea))] for na, ea in case["sels"]]
    if case.get("defaults"):
        out.append([compare_graphs(G1, G2), compare_graphs(G2, G1)])
    rc = get_rc(G1)
    return [out, compare_graphs(get_rc(rc), rc, list(ALL_NODE_ATTRS), list(ALL_EDGE_ATTRS)), compare_graphs(rc, G1, list(ALL_NODE_ATTRS), list(ALL_EDGE_ATTRS))]


def coq_cmp(case):
    sels = [(na, ea) for na, ea in case["sels"]]
    if case.get("defaults"):
        sels.append((["element", "aromatic", "hcount", "charge", "neighbors"], ["order"]))
    return "run_compare [%s] %s %s" % ("; ".join("(%s, %s)" % (X.coq_keys(na), _coq_esel(ea)) for na, ea in sels), X.coq_xits(case["X"]), X.coq_xits(case["Y"]))


def oracle_cmp(case):
    """compare_graphs is no part of the property text: nothing is demanded of it (its answers are compared with the model); the idempotence
    clause itself is judged, independently of the library's comparator, on the ITS graphs of a recognised class"""
    from synkit.Graph.ITS.its_decompose import get_rc
    G1 = E.to_nx(case["X"])
    if its_class(G1) is None:
        return []
    rc = get_rc(G1)
    if not HS.graph_eq(get_rc(rc), rc):
        return [dict(clause="centre-idempotent", detail="get_rc(get_rc(I)) differs from get_rc(I)")]
    return []


def _perturb(rng, g):
    """a copy of the x-ITS graph g, re-ordered, with at most one difference; returns (copy, what)"""
    import copy
    h = copy.deepcopy(g)
    rng.shuffle(h["nodes"])
    rng.shuffle(h["edges"])
    for e in h["edges"]:
        if rng.random() < 0.5:
            e[0], e[1] = e[1], e[0]
    z = rng.random()
    if z < 0.25 or not h["nodes"]:
        return h, "same"
    n, a = rng.choice(h["nodes"])
    if z < 0.4 and a:
        k = rng.choice(sorted(a))
        if k == "typesGH":
            a[k][rng.randrange(2)][rng.choice((2, 3))] += 1
        elif k == "neighbors":
            a[k] = a[k] + ["C"]
        elif k == "aromatic":
            a[k] = not a[k]
        elif k == "element":
            a[k] = "N" if a[k] != "N" else "O"
        else:
            a[k] = a[k] + 1
        return h, "label " + k
    if z < 0.5 and a:
        k = rng.choice(sorted(a))
        del a[k]
        return h, "label-absent " + k
    if z < 0.75 and h["edges"]:
        e = rng.choice(h["edges"])
        w = rng.choice(("order", "standard_order", "is_mtg", "is_mtg-absent"))
        if w == "order":
            e[2]["order"] = [e[2]["order"][0], e[2]["order"][1] + 1]
        elif w == "standard_order":
            e[2]["standard_order"] = e[2]["standard_order"] + 1
        elif w == "is_mtg":
            e[2]["is_mtg"] = not e[2].get("is_mtg", False)
        else:
            e[2].pop("is_mtg", None)
        return h, "bond " + w
    if z < 0.85 and h["edges"]:
        h["edges"].pop(rng.randrange(len(h["edges"])))
        return h, "bond-removed"
    if z < 0.93:
        h["nodes"] = [x for x in h["nodes"] if x[0] != n]
        h["edges"] = [e for e in h["edges"] if n not in e[:2]]
        return h, "atom-removed"
    ids = [x[0] for x in h["nodes"]]
    if len(ids) >= 2:
        u, v = rng.sample(ids, 2)
        if not any({e[0], e[1]} == {u, v} for e in h["edges"]):
            h["edges"].append([u, v, {"order": [1, 1], "standard_order": 0}])
            return h, "bond-added"
    return h, "same"


def impl_api(case):
    from synkit.Graph.Context.radius_expand import RadiusExpand
    from ..tok import S
    if "sels" in case:
        return impl_cmp(case)
    if "steps" in case or "truth" in case:
        # the private helpers named in the property's anchors, one by one (a tree without them: nothing to compare)
        if not _has_passes():
            return ["helpers-missing"]
        import importlib
        D = importlib.import_module("synkit.Graph.ITS.its_decompose")
        if "truth" in case:
            return [[[D._should_include_edge(s_, fl, keep) for keep in (False, True) for fl in (False, True)] for s_ in TRUTH_STDS],
                    [D._is_hydrogen(e) for e in TRUTH_ELS]]
        import networkx as nx
        I = E.to_nx(case["X"])
        keys = list(case["keys"])
        rc = nx.Graph()
        out = []
        D._add_changed_bonds(I, rc, keys, "order", "standard_order", case["keep"])
        out.append(_obs_state(rc))
        D._add_hh_bonds(I, rc, keys, "order", "standard_order")
        out.append(_obs_state(rc))
        D._add_charge_change_nodes(I, rc, keys)
        out.append(_obs_state(rc))
        D._reconnect_rc_edges(I, rc, "order", "standard_order")
        out.append(_obs_state(rc))
        rc0 = nx.Graph()
        D._add_bond_order_changes(I, rc0, keys, "order", "standard_order")       # the older "step 1" helper, no caller in the library
        out.append(_obs_state(rc0))
        return out
    if "nn" in case:
        import networkx as nx
        I = E.to_nx(case["I"])
        out = []
        for k in case["ks"]:
            try:
                out.append([S(sorted(RadiusExpand.find_nearest_neighbors(I, list(case["nn"]), k)))])
            except nx.NetworkXError:
                out.append([])
        try:
            first = [E.obs_its(RadiusExpand.extract_subgraph(I, list(RadiusExpand.find_nearest_neighbors(I, list(case["nn"]), case["ks"][0]))))]
        except nx.NetworkXError:
            first = []
        return [out, first]
    data = [_mk_dict(D) for D in case["Ds"]] if "Ds" in case else _mk_dict(case["D"])
    try:
        r = _call_ctx(case, data)
    except (KeyError, AttributeError):
        return []
    return [[_obs_dict(d) for d in r]] if "Ds" in case else [_obs_dict(r)]


def _coq_dict(D):
    return "[" + "; ".join("(%d%%N, %s)" % (E.elem_code(k), ("DG %s" % E.coq_its(v["its"])) if isinstance(v, dict) else "DZ %s" % E.cZ(v)) for k, v in D) + "]"


def coq_api(case):
    if "sels" in case:
        return coq_cmp(case)
    if "steps" in case or "truth" in case:
        if not _has_passes():
            return None
        if "truth" in case:
            els = "; ".join(("(Pr %d%%N %d%%N)" % (E.elem_code(e[0]), E.elem_code(e[1]))) if isinstance(e, tuple) else "(Sc %d%%N)" % E.elem_code(e) for e in TRUTH_ELS)
            return "run_truth [%s] [%s]" % ("; ".join("(%d)" % E.half(s_) for s_ in TRUTH_STDS), els)
        return "run_steps %s %s %s" % (X.coq_keys(case["keys"]), E.cb(case["keep"]), X.coq_xits(case["X"]))
    if "nn" in case:
        return "run_fnn %s [%s] [%s]" % (E.coq_its(case["I"]), "; ".join(E.cN(n) for n in case["nn"]), "; ".join("(%d)" % k for k in case["ks"]))
    ik, ck = E.elem_code(case["its_key"]), E.elem_code(case["ctx_key"])
    if "Ds" in case:
        return "run_dicts [%s] %d%%N %d%%N (%d)" % ("; ".join(_coq_dict(D) for D in case["Ds"]), ik, ck, case["k"])
    return "run_dict %s %d%%N %d%%N (%d)" % (_coq_dict(case["D"]), ik, ck, case["k"])


def _centre_ref(V, cls):
    el = {n: d["element"] for n, d in V.nodes(data=True)}
    return {x for u, v, d in V.edges(data=True) if differs(d["order"], cls) or (el[u] == "H" and el[v] == "H") for x in (u, v)}


def oracle_api(case):
    """reaction dicts: the result has the input's keys in the input's order (+ context_key at the end when new), every other entry IS the
    input's object, the input dict and its graphs are untouched, the context has exactly the atoms within k bonds of the centre (plain-set
    reference on graphs of a recognised class); direct find_nearest_neighbors: the ball around ANY start atoms of the graph"""
    from synkit.Graph.Context.radius_expand import RadiusExpand
    fails = []
    if "sels" in case:
        return oracle_cmp(case)
    if "truth" in case:
        return []
    if "steps" in case:
        # the stepwise construction ends in get_rc(disconnected=True) and passes through get_rc(disconnected=False) — judged by oracle_x
        return oracle_x(dict(kind=case["kind"], X=case["X"], keys=case["keys"]))
    if "nn" in case:
        I = E.to_nx(case["I"])
        if any(n not in I for n in case["nn"]):
            return []
        for k in case["ks"]:
            if k < 1:
                continue
            got = RadiusExpand.find_nearest_neighbors(I, list(case["nn"]), k)
            want = _ball(I, case["nn"], k)
            if set(got) != want:
                fails.append(dict(clause="context-atoms", detail="find_nearest_neighbors(I, %r, %d) = %r, atoms within %d bonds %r" % (case["nn"], k, sorted(got), k, sorted(want))))
        if not HS.graph_eq(I, E.to_nx(case["I"])):
            fails.append(dict(clause="helper-input-mutated", detail="find_nearest_neighbors changed its input graph"))
        return fails[:3]
    Ds = case["Ds"] if "Ds" in case else [case["D"]]
    data = [_mk_dict(D) for D in Ds]
    before = [list(d.items()) for d in data]
    try:
        r = _call_ctx(case, data if "Ds" in case else data[0])
    except (KeyError, AttributeError):
        r = None
    ik, ck, k = case["its_key"], case["ctx_key"], case["k"]
    for d, b, D in zip(data, before, Ds):
        if [x[0] for x in b] != list(d) or any(d[key] is not v for key, v in b) or any(isinstance(v, dict) and not HS.graph_eq(d[key], E.to_nx(v["its"])) for key, v in D):
            fails.append(dict(clause="list-input-mutated", detail="context extraction changed an input dict (keys %r -> %r) or one of its graphs" % ([x[0] for x in b], list(d))))
    if r is None:
        return fails[:3]
    rs = r if "Ds" in case else [r]
    if len(rs) != len(data):
        return [dict(clause="list-order", detail="%d results for %d input dicts" % (len(rs), len(data)))]
    for i, (res, d) in enumerate(zip(rs, data)):
        want_keys = list(d) + ([ck] if ck not in d else [])
        if sorted(res) != sorted(want_keys):
            fails.append(dict(clause="list-output-dict", detail="dict %d: result keys %r, expected %r (in any order)" % (i, list(res), want_keys)))
            continue
        # the other entries carry the input's VALUES (the same object or a copy: identity is not demanded)
        if any(not (HS.graph_eq(res[key], d[key]) if hasattr(d[key], "nodes") else (not hasattr(res[key], "nodes") and res[key] == d[key])) for key in d if key != ck):
            fails.append(dict(clause="list-output-dict", detail="dict %d: an entry other than %r differs from the input's" % (i, ck)))
        V = d[ik]
        cls = its_class(V)
        if cls is not None and k >= 0:
            want = _ball(V, _centre_ref(V, cls), k)
            if set(res[ck].nodes) != want:
                fails.append(dict(clause="context-atoms", detail="dict %d (its_key=%r, context_key=%r, n_knn=%d): context atoms %r, atoms within %d bonds of the centre %r"
                                  % (i, ik, ck, k, sorted(res[ck].nodes), k, sorted(want))))
    return fails[:3]



def _sides_clause_S(case, rc):
    """theorem C02_centre_vs_sides_store_true on the code: the centre bonds of ITSConstruction(G, H, options of the case) are the bonds whose
    order differs between G and H (by >= 1 under ignore_aromaticity) or that join two hydrogens, computed from G and H"""
    if "sopts" not in case or "shist" in case:
        return []
    opts = case["sopts"]
    o = dict(ST.DEFAULT_CONSTRUCT, api="construct") if opts.get("api") == "construct-defaults" else dict(opts)
    G, H = P1._graphs_nx(case)
    if any(not isinstance(d.get("order"), (int, float)) for Y in (G, H) for _, _, d in Y.edges(data=True)):
        return []
    I = _build_S(case)
    el = {n: d.get("element") for n, d in I.nodes(data=True)}
    if any(isinstance(e, tuple) and (len(e) != 2 or e[0] != e[1]) for e in el.values()) or any(e is None for e in el.values()):
        return []
    ia = bool(o.get("ia", False))
    want = set()
    for u, v in set(map(frozenset, G.edges)) | set(map(frozenset, H.edges)):
        og = G[u][v]["order"] if G.has_edge(u, v) else 0
        oh = H[u][v]["order"] if H.has_edge(u, v) else 0
        if (abs(og - oh) >= 1 if ia else og != oh) or (_is_h(el[u]) and _is_h(el[v])):
            want.add(frozenset((u, v)))
    got = {frozenset(e) for e in rc.edges}
    if got != want:
        return [dict(clause="centre-vs-sides", detail="options %r: centre bonds %r; bonds whose order differs between reactant and product graph%s, or H-H: %r"
                     % (o, sorted(map(sorted, got)), " by at least 1 (ignore_aromaticity)" if ia else "", sorted(map(sorted, want))))]
    return []


PAIR_ATTRS = ("element", "aromatic", "hcount", "charge", "neighbors")


def _store_twin_clause(case, tag, rc, keys, disc, keep):
    """the centre does not depend on HOW the ITS stores its atom labels: get_rc of ITSConstruction(G, H, store=True) has the atoms and
    the bonds (with attributes) of get_rc of ITSConstruction(G, H, store=False) under the same options, and every pair label of a centre
    atom has the store=False label as its reactant side (theorem C02_rcS_construct).  Demanded when every atom has the same element on
    both sides (true for every reaction; synthetic malformed pairs may differ, then "H" on one side only is no hydrogen)."""
    from synkit.Graph.ITS.its_decompose import get_rc
    if "sopts" not in case or "shist" in case:
        return []
    opts = case["sopts"]
    o = dict(ST.DEFAULT_CONSTRUCT, api="construct") if opts.get("api") == "construct-defaults" else dict(opts)
    if not o.get("store"):
        return []
    G, H = P1._graphs_nx(case)
    IT = _build_S(case)
    if any(not (isinstance(d.get("element"), tuple) and len(d["element"]) == 2 and d["element"][0] == d["element"][1]) for _, d in IT.nodes(data=True)):
        return []
    IF = E.call_construct(G, H, dict(o, store=False))
    rcF = get_rc(IF, element_key=list(keys), disconnected=disc, keep_mtg=keep)
    eT = {frozenset((u, v)): dict(d) for u, v, d in rc.edges(data=True)}
    eF = {frozenset((u, v)): dict(d) for u, v, d in rcF.edges(data=True)}
    if set(rc.nodes) != set(rcF.nodes) or eT != eF:
        return [dict(clause="store-independent-centre", detail="%s: centre of the store=True ITS has atoms %r bonds %r, centre of the store=False ITS of the same "
                     "graphs has atoms %r bonds %r" % (tag, sorted(rc.nodes), sorted(map(sorted, eT)), sorted(rcF.nodes), sorted(map(sorted, eF))))]
    for n in rc.nodes:
        a, b = rc.nodes[n], rcF.nodes[n]
        if set(a) != set(b) or any((a[k][0] if k in PAIR_ATTRS else a[k]) != b[k] for k in a):
            return [dict(clause="store-independent-centre", detail="%s: atom %r: store=True centre labels %r, store=False centre labels %r" % (tag, n, dict(a), dict(b)))]
    return []


def impl_wrap(case):
    """thin wrappers around get_rc / extract_k"""
    w = case["wrap"]
    if w == "rsmi_to_its":
        from synkit.IO.chem_converter import rsmi_to_its
        if case.get("eh"):
            return E.obs_its(rsmi_to_its(case["rsmi"], core=True, explicit_hydrogen=True))
        return E.obs_its(rsmi_to_its(case["rsmi"], core=case["core"]))
    if w == "implicit_rule":
        try:
            from synkit.Rule.Modify.implict_rule import implicit_rule
        except ImportError:                          # a tree older than /repo fix 28c46fa: the module cannot be imported
            return ["unimportable"]
        if case.get("style") == "pos":
            rc = implicit_rule(case["rsmi"], case["disc"], case["bal"])
        elif case.get("style") == "default":
            rc = implicit_rule(case["rsmi"])                                  # disconnected=True, balance_its=False
        elif case.get("style") == "list":
            rc = implicit_rule([case["rsmi"], case["rsmi"]], case["disc"], case["bal"])
            return [X.obs_xits(x) for x in rc]
        else:
            rc = implicit_rule(case["rsmi"], balance_its=case["bal"], disconnected=case["disc"])
        return X.obs_xits(rc)
    if w == "hier":
        # HierContext.fit extracts the contexts of radius 0..max_radius from the SAME (deep-copied) ITS objects, one radius after the other
        from synkit.Graph.Context.hier_context import HierContext
        data = [{"R-id": i, "ITS": E.to_nx(g)} for i, g in enumerate(case["Is"])]
        res, _tpl = HierContext(max_radius=case["R"]).fit(data)
        by = {d["R-id"]: d for d in res}
        return [X.obs_ctx(by[i]["K"]) for i in range(len(data))]
    raise AssertionError(w)


def impl(case):
    from synkit.Graph.ITS.its_decompose import get_rc
    from synkit.Graph.Context.radius_expand import RadiusExpand
    from ..tok import S
    if "S" in case or "sopts" in case:
        return impl_S(case)
    if "api" in case:
        return impl_api(case)
    if "hist" in case:
        return HS.run_history(case, False)[0]
    if "wrap" in case:
        return impl_wrap(case)
    if case.get("raw"):
        return impl_raw(case)
    if "X" in case:
        return impl_x(case)
    if "Is" in case:
        return impl_list(case)
    if case.get("lre"):
        return impl_lre(case)
    if "helpers" in case:
        return impl_helpers(case)
    I = _its_nx(case)
    if I is None:
        return ["unparsable"]
    rc = get_rc(I)
    ctx = [RadiusExpand.extract_k(I, k) for k in RADII]
    return [E.obs_its(rc), E.obs_its(get_rc(rc)),
            [[S(sorted(c.nodes)), S([[min(u, v), max(u, v)] for u, v in c.edges])] for c in ctx],
            E.obs_its(ctx[1])]


def coq_case(case):
    worker_init()
    try:
        if "S" in case or "sopts" in case:
            return coq_S(case)
        if "api" in case:
            return coq_api(case)
        if "hist" in case:
            return HS.coq_history(case)
        if "wrap" in case:
            w = case["wrap"]
            if w == "hier":
                return "tlist (fun g => tctx (extract_k_z g (%d))) %s" % (case["R"], X.coq_its_list(case["Is"]))
            G, H = _wrap_graphs(case)
            if G is None or H is None:
                return None
            lg, lh = E.coq_mgraph(E.from_nx(G)), E.coq_mgraph(E.from_nx(H))
            if w == "rsmi_to_its" and case.get("eh"):
                # rsmi_to_its(core=True, explicit_hydrogen=True): the centre of the explicit-hydrogen ITS (h_to_explicit: C01's model, read-only)
                return "tits (get_rc (fst (C01_String.h_to_explicit_its (its_construct %s %s))))" % (lg, lh)
            if w == "rsmi_to_its":
                return "tits (%s(its_construct %s %s))" % ("get_rc " if case["core"] else "", lg, lh)
            try:
                import synkit.Rule.Modify.implict_rule  # noqa: F401
            except ImportError:
                return None
            t_ = "txits (get_rc_x K_default %s false (emb (its_construct_ab false %s %s %s)))" % (E.cb(case["disc"]), E.cb(case["bal"]), lg, lh)
            return "L [%s; %s]" % (t_, t_) if case.get("style") == "list" else t_
        if case.get("raw"):
            return None
        if "X" in case and case.get("rne"):
            return "run_rne %s" % X.coq_xits(case["X"])
        if "X" in case:
            return "run_opts %s %s" % (X.coq_keys(case["keys"]), X.coq_xits(case["X"]))
        if "Is" in case:
            return "run_list %s (%d)" % (X.coq_its_list(case["Is"]), case["k"])
        if case.get("lre"):
            return "run_lre %s" % E.coq_its(_lre_json(case))
        if "helpers" in case:
            ks = "[%s]" % "; ".join("(%d)" % k for k in case["helpers"])
            if "I" in case:
                return "run_helpers %s %s" % (E.coq_its(case["I"]), ks)
            gh = P1._graphs_nx(case)
            if gh is None:
                return None
            return "run_helpers (its_construct_ab %s %s %s %s) %s" % (E.cb(case.get("ia", False)), E.cb(case.get("bal", False)),
                                                                    E.coq_mgraph(E.from_nx(gh[0])), E.coq_mgraph(E.from_nx(gh[1])), ks)
        if "I" in case:
            return "run %s" % E.coq_its(case["I"])
        gh = P1._graphs_nx(case)
        if gh is None:
            return None
        if "ia" in case:
            return "run_pair_o %s %s %s %s" % (E.cb(case["ia"]), E.cb(case.get("bal", False)),
                                               E.coq_mgraph(E.from_nx(gh[0])), E.coq_mgraph(E.from_nx(gh[1])))
        return "run_pair %s %s" % (E.coq_mgraph(E.from_nx(gh[0])), E.coq_mgraph(E.from_nx(gh[1])))
    except (KeyError, TypeError, ValueError):
        return None


# ------------------------------------------------------------------ property oracle (plain sets, BFS)

def proper_its(I):
    """precondition of the property clauses: every edge has a numeric order pair and standard_order = difference,
    every node has the four labels and its top-level element is the reactant-side element of typesGH."""
    for n, d in I.nodes(data=True):
        if any(k not in d for k in ("element", "charge", "typesGH", "atom_map")):
            return False
        if d["typesGH"][0][0] != d["element"]:
            return False
    for u, v, d in I.edges(data=True):
        o = d.get("order")
        if not isinstance(o, (tuple, list)) or len(o) != 2 or "standard_order" not in d:
            return False
        if d["standard_order"] != o[0] - o[1]:
            return False
    return True


LABELS = ("element", "charge", "typesGH", "atom_map")


def its_class(I):
    """'std': standard_order = order difference on every edge (ITSGraph default);
    'ia' : standard_order = difference with |difference| < 1 zeroed (ITSGraph(ignore_aromaticity=True)) and not 'std';
    None : neither, or a label is missing (only the model/implementation correspondence is checked)."""
    for n, d in I.nodes(data=True):
        if any(k not in d for k in LABELS) or d["typesGH"][0][0] != d["element"]:
            return None
    std, ia = True, True
    for u, v, d in I.edges(data=True):
        if u == v:
            return None                      # self loops: outside the property's domain (correspondence only)
        o = d.get("order")
        if not isinstance(o, (tuple, list)) or len(o) != 2 or "standard_order" not in d:
            return None
        diff = o[0] - o[1]
        std = std and d["standard_order"] == diff
        ia = ia and d["standard_order"] == (0 if abs(diff) < 1 else diff)
    return "std" if std else ("ia" if ia else None)


def differs(order, cls):
    """the bond counts as changed: orders differ; on ignore_aromaticity ITS graphs: differ by at least 1"""
    return order[0] != order[1] if cls == "std" else abs(order[0] - order[1]) >= 1


def _same_edge_attrs(d1, d2):
    return tuple(d1.get("order")) == tuple(d2.get("order")) and d1.get("standard_order") == d2.get("standard_order")


def centre_clauses(I, cls="std"):
    from synkit.Graph.ITS.its_decompose import get_rc
    from synkit.Graph.Context.radius_expand import RadiusExpand
    fails = []
    rc = get_rc(I)
    el = {n: d["element"] for n, d in I.nodes(data=True)}
    want = {}
    for u, v, d in I.edges(data=True):
        if differs(d["order"], cls) or (el[u] == "H" and el[v] == "H"):
            want[frozenset((u, v))] = d
    got = {frozenset((u, v)): d for u, v, d in rc.edges(data=True)}
    if set(got) != set(want):
        fails.append(dict(clause="centre-bonds", detail="centre bonds %r, changed-or-HH bonds %r"
                          % (sorted(map(sorted, got)), sorted(map(sorted, want)))))
    else:
        for k in got:
            if not _same_edge_attrs(got[k], want[k]):
                fails.append(dict(clause="centre-bond-labels", detail="bond %r: centre %r, ITS %r" % (sorted(k), got[k], want[k])))
                break
    ends = {x for k in want for x in k}
    if set(rc.nodes) != ends:
        fails.append(dict(clause="centre-atoms", detail="centre atoms %r, endpoints of the centre bonds %r" % (sorted(rc.nodes), sorted(ends))))
    else:
        for n in rc.nodes:
            for k in LABELS:
                if k not in rc.nodes[n] or not ST.same_label(rc.nodes[n][k], I.nodes[n][k]):
                    fails.append(dict(clause="centre-atom-labels", detail="atom %r label %s: centre %r, ITS %r"
                                      % (n, k, rc.nodes[n].get(k, "<absent>"), I.nodes[n][k])))
                    break
    # idempotence
    rc2 = get_rc(rc)
    if (set(rc2.nodes) != set(rc.nodes) or any(rc2.nodes[n] != rc.nodes[n] for n in rc.nodes)
            or {frozenset(e) for e in rc2.edges} != {frozenset(e) for e in rc.edges}
            or any(not _same_edge_attrs(rc2.edges[e], rc.edges[e]) for e in rc.edges)):
        fails.append(dict(clause="centre-idempotent", detail="get_rc(get_rc(I)) differs from get_rc(I)"))
    # context = ball of radius k (independent BFS on plain sets), induced subgraph, chain
    adj = {n: set() for n in I.nodes}
    for u, v in I.edges:
        adj[u].add(v)
        adj[v].add(u)
    ball = set(rc.nodes)
    prev_nodes, prev_edges = None, None
    for k in RADII:
        if k > 0:
            ball = ball | {m for x in ball for m in adj[x]}
        ctx = RadiusExpand.extract_k(I, k)
        nodes = set(ctx.nodes)
        edges = {frozenset(e) for e in ctx.edges}
        if nodes != ball:
            fails.append(dict(clause="context-atoms", detail="radius %d: context atoms %r, atoms within %d bonds of the centre %r"
                              % (k, sorted(nodes), k, sorted(ball))))
            break
        if k == 0:
            if edges != set(got):
                fails.append(dict(clause="context-0", detail="context(0) is not the centre"))
        else:
            ind = {frozenset((u, v)) for u, v in I.edges if u in ball and v in ball}
            if edges != ind or any(not _same_edge_attrs(ctx.edges[tuple(e)], I.edges[tuple(e)]) for e in edges) \
                    or any(ctx.nodes[n] != I.nodes[n] or _labels_clause("", ctx.subgraph([n]), I) for n in nodes):
                fails.append(dict(clause="context-induced", detail="radius %d: context is not the induced subgraph of the ITS" % k))
        if prev_nodes is not None and not (prev_nodes <= nodes and prev_edges <= edges):
            fails.append(dict(clause="context-chain", detail="context(%d) is not within context(%d)" % (k - 1, k)))
        prev_nodes, prev_edges = nodes, edges
    if prev_nodes is not None and not (prev_nodes <= set(I.nodes) and prev_edges <= {frozenset(e) for e in I.edges}):
        fails.append(dict(clause="context-chain", detail="context(3) is not within the ITS"))
    return fails, rc


def _tup(x):
    return tuple(_tup(y) for y in x) if isinstance(x, (list, tuple)) else x


def _strip(d):
    """node label without the numbering: element, charge, typesGH"""
    return (d.get("element"), d.get("charge"), _tup(d.get("typesGH", ())))


def _iso_centres(rc1, rc2, pi=None):
    import networkx as nx
    if pi is not None:
        ok = set(rc2.nodes) == {pi[n] for n in rc1.nodes} and all(_strip(rc1.nodes[n]) == _strip(rc2.nodes[pi[n]]) for n in rc1.nodes) \
            and {frozenset((pi[u], pi[v])) for u, v in rc1.edges} == {frozenset(e) for e in rc2.edges} \
            and all(_same_edge_attrs(rc1.edges[u, v], rc2.edges[pi[u], pi[v]]) for u, v in rc1.edges)
        if ok:
            return True
    return nx.is_isomorphic(rc1, rc2, node_match=lambda a, b: _strip(a) == _strip(b), edge_match=_same_edge_attrs)


# ------------------------------------------------------------------ oracles of the option / helper populations

HH_FALLBACK = (("H", False, 0, 0, []), ("*", False, 0, 0, []))


def _is_h(el):
    """a hydrogen: the element label "H", or the (reactant, product) pair ("H", "H") of a store=True ITS"""
    return (el == "H") if not isinstance(el, tuple) else (len(el) == 2 and el[0] == "H" and el[1] == "H")


def _gh_eq(a, b):
    return _tup(a) == _tup(b)


def ref_centre(I, keys, disc, keep):
    """what get_rc(I, element_key=keys, disconnected=disc, keep_mtg=keep) is documented to return, on plain dicts:
    bonds {pair: (order, standard_order, is_mtg or '<absent>')}, atoms {id: expected attribute dict}"""
    el = {n: d.get("element") for n, d in I.nodes(data=True)}
    inc, hh = {}, {}
    for u, v, d in I.edges(data=True):
        std = d.get("standard_order")
        if (isinstance(std, (int, float)) and std != 0) or (keep and d.get("is_mtg", False)):
            inc[frozenset((u, v))] = d
        elif _is_h(el[u]) and _is_h(el[v]):
            hh[frozenset((u, v))] = d
    bonds = {k: (tuple(d["order"]), d["standard_order"], d.get("is_mtg", False)) for k, d in list(inc.items()) + list(hh.items())}
    inc_atoms = {x for k in inc for x in k}
    hh_atoms = {x for k in hh for x in k} - inc_atoms
    atoms = {}
    for n in inc_atoms | hh_atoms:
        d = I.nodes[n]
        atoms[n] = {k: d[k] for k in keys if k in d}
        if n in hh_atoms:
            atoms[n]["typesGH"] = d.get("typesGH", HH_FALLBACK)
    if disc:
        for n, d in I.nodes(data=True):
            gh = d.get("typesGH")
            if gh is not None and gh[0][3] != gh[1][3] and n not in atoms:
                atoms[n] = {k: d[k] for k in keys if k in d}
        for u, v, d in I.edges(data=True):
            k = frozenset((u, v))
            if u in atoms and v in atoms and k not in bonds:
                bonds[k] = (tuple(d["order"]), d["standard_order"], "<absent>")
    return bonds, atoms


def _attrs_eq(got, want):
    if set(got) != set(want):
        return False
    return all(ST.same_label(got[k], want[k]) for k in want)


def oracle_x(case):
    from synkit.Graph.ITS.its_decompose import get_rc
    if case.get("rne"):
        from synkit.Graph.Context.radius_expand import RadiusExpand
        I = E.to_nx(case["X"])
        R_ = RadiusExpand.remove_normal_edges(I, "is_mtg")
        want = {frozenset((u, v)) for u, v, d in I.edges(data=True) if d.get("is_mtg", 1) != 0}
        if set(R_.nodes) != set(I.nodes) or {frozenset(e) for e in R_.edges} != want or not HS.graph_eq(I, E.to_nx(case["X"])):
            return [dict(clause="helper-remove-normal-edges", detail="remove_normal_edges(I, 'is_mtg') keeps %r, expected the bonds whose is_mtg is absent or True %r"
                         % (sorted(map(sorted, R_.edges)), sorted(map(sorted, want))))]
        return []
    if case.get("alt"):
        fails = []
        for disc, keep in OPTS:
            I = _rename_edges(E.to_nx(case["X"]), ("order", "standard_order"), ("bo", "so"))
            rc = _rename_edges(get_rc(I, list(case["keys"]), "bo", "so", disc, keep), ("bo", "so"), ("order", "standard_order"))
            bonds, atoms = ref_centre(E.to_nx(case["X"]), list(case["keys"]), disc, keep)
            got = {frozenset((u, v)): (tuple(d.get("order", ())), d.get("standard_order"), d.get("is_mtg", "<absent>")) for u, v, d in rc.edges(data=True)}
            if got != bonds or set(rc.nodes) != set(atoms):
                fails.append(dict(clause="opt-bond-key-standard-key", detail="bond_key='bo', standard_key='so', disconnected=%s keep_mtg=%s: bonds %r atoms %r, expected %r %r"
                                  % (disc, keep, sorted(map(sorted, got)), sorted(rc.nodes), sorted(map(sorted, bonds)), sorted(atoms))))
                break
        return fails
    fails = []
    keys = list(case["keys"])
    base = None
    shared_keys = list(keys)
    for disc, keep in OPTS:
        I = E.to_nx(case["X"])
        rc = get_rc(I, element_key=shared_keys, disconnected=disc, keep_mtg=keep)
        if shared_keys != keys:
            return [dict(clause="opt-argument-mutated", detail="get_rc changed the element_key list it was given: %r -> %r" % (keys, shared_keys))]
        tag = "disconnected=%s keep_mtg=%s element_key=%r" % (disc, keep, keys)
        bonds, atoms = ref_centre(E.to_nx(case["X"]), keys, disc, keep)
        got = {frozenset((u, v)): (tuple(d.get("order", ())), d.get("standard_order"), d.get("is_mtg", "<absent>")) for u, v, d in rc.edges(data=True)}
        if set(got) != set(bonds):
            fails.append(dict(clause="opt-centre-bonds", detail="%s: centre bonds %r, expected (changed%s or H-H%s) %r"
                              % (tag, sorted(map(sorted, got)), " or is_mtg" if keep else "", ", then all ITS bonds between centre atoms" if disc else "",
                                 sorted(map(sorted, bonds)))))
        elif got != bonds:
            bad = sorted(sorted(k) for k in got if got[k] != bonds[k])[0]
            fails.append(dict(clause="opt-centre-bond-labels", detail="%s: bond %r: centre %r, expected %r"
                              % (tag, bad, got[frozenset(bad)], bonds[frozenset(bad)])))
        if set(rc.nodes) != set(atoms):
            fails.append(dict(clause="opt-centre-atoms", detail="%s: centre atoms %r, expected %r" % (tag, sorted(rc.nodes), sorted(atoms))))
        else:
            for n in rc.nodes:
                if not _attrs_eq(dict(rc.nodes[n]), atoms[n]):
                    fails.append(dict(clause="opt-centre-atom-labels", detail="%s: atom %r: centre %r, expected %r" % (tag, n, dict(rc.nodes[n]), atoms[n])))
                    break
        # the default centre is a subgraph of every variant
        if (disc, keep) == (False, False):
            base = (set(rc.nodes), set(got))
        elif base is not None and not (base[0] <= set(rc.nodes) and base[1] <= set(got)):
            fails.append(dict(clause="opt-default-within-variant", detail="%s: the default centre is not a subgraph of this variant" % tag))
        # the input is not mutated
        J = E.to_nx(case["X"])
        if dict(I.nodes(data=True)) != dict(J.nodes(data=True)) or {frozenset(e[:2]): e[2] for e in I.edges(data=True)} != {frozenset(e[:2]): e[2] for e in J.edges(data=True)}:
            fails.append(dict(clause="opt-input-mutated", detail="%s: get_rc changed its input graph" % tag))
        if fails:
            break
    return fails[:3]


def _ball(I, seeds, k):
    adj = {n: set() for n in I.nodes}
    for u, v in I.edges:
        adj[u].add(v)
        adj[v].add(u)
    ball = set(seeds)
    for _ in range(k):
        ball = ball | {m for x in ball for m in adj[x]}
    return ball


def oracle_helpers(case):
    from synkit.Graph.ITS.its_decompose import get_rc
    from synkit.Graph.Context.radius_expand import RadiusExpand
    import copy
    I = _its_nx(case)
    if I is None or any(u == v for u, v in I.edges):
        return []
    cls = its_class(I)
    fails = []
    I0 = copy.deepcopy(I)
    un = set(RadiusExpand.find_unequal_order_edges(I))
    rc = get_rc(I)
    if cls is not None:
        want = {x for u, v, d in I.edges(data=True) if differs(d["order"], cls) for x in (u, v)}
        if un != want:
            fails.append(dict(clause="helper-unequal-order-atoms", detail="find_unequal_order_edges %r, atoms on a bond whose order changes %r" % (sorted(un), sorted(want))))
        hh = any(I.nodes[u]["element"] == "H" and I.nodes[v]["element"] == "H" and not differs(d["order"], cls) for u, v, d in I.edges(data=True))
        if not un <= set(rc.nodes) or (not hh and un != set(rc.nodes)):
            fails.append(dict(clause="helper-unequal-vs-centre", detail="find_unequal_order_edges %r vs centre atoms %r (unchanged H-H bond present: %s)" % (sorted(un), sorted(rc.nodes), hh)))
    if all("standard_order" in d for _, _, d in I.edges(data=True)):
        R_ = RadiusExpand.remove_normal_edges(I, "standard_order")
        want_e = {frozenset((u, v)) for u, v, d in I.edges(data=True) if d["standard_order"] != 0}
        if set(R_.nodes) != set(I.nodes) or {frozenset(e) for e in R_.edges} != want_e or any(R_.nodes[n] != I.nodes[n] for n in I.nodes) \
                or any(not _same_edge_attrs(R_.edges[tuple(e)], I.edges[tuple(e)]) for e in want_e):
            fails.append(dict(clause="helper-remove-normal-edges", detail="remove_normal_edges(I, 'standard_order') is not I without its standard_order = 0 bonds"))
    for k in case["helpers"]:
        if k <= 0:
            continue
        ctx = RadiusExpand.extract_k(I, k)
        ball = _ball(I, rc.nodes, k)
        if set(ctx.nodes) != ball or {frozenset(e) for e in ctx.edges} != {frozenset((u, v)) for u, v in I.edges if u in ball and v in ball}:
            fails.append(dict(clause="context-atoms", detail="radius %d: context atoms %r, atoms within %d bonds of the centre %r" % (k, sorted(ctx.nodes), k, sorted(ball))))
            break
    if dict(I.nodes(data=True)) != dict(I0.nodes(data=True)) or sorted(map(repr, I.edges(data=True))) != sorted(map(repr, I0.edges(data=True))):
        fails.append(dict(clause="helper-input-mutated", detail="a RadiusExpand helper changed its input graph"))
    return fails[:3]


def _longest_zero_path_from(I, start, limit=200000):
    best, count = [1], [0]

    def go(n, seen, length):
        count[0] += 1
        if count[0] > limit:
            return
        best[0] = max(best[0], length)
        for m in I.neighbors(n):
            if m not in seen and I[n][m].get("standard_order", 1) == 0:
                go(m, seen | {m}, length + 1)
    go(start, {start}, 1)
    return best[0] if count[0] <= limit else None


def oracle_lre(case):
    from synkit.Graph.ITS.its_decompose import get_rc
    from synkit.Graph.Context.radius_expand import RadiusExpand
    gj = _lre_json(case)
    I = E.to_nx(gj)
    rc_nodes = list(get_rc(I).nodes())
    path = RadiusExpand.longest_radius_extension(I, list(rc_nodes))
    fails = []
    ok = len(set(path)) == len(path) and (not path or path[0] in rc_nodes) and (bool(path) == bool(rc_nodes)) \
        and all(I.has_edge(a, b) and I[a][b].get("standard_order", 1) == 0 for a, b in zip(path, path[1:]))
    if not ok:
        fails.append(dict(clause="extension-path", detail="longest_radius_extension %r is not a simple path of unchanged bonds starting in a centre atom %r" % (path, rc_nodes)))
    elif rc_nodes:
        ref = _longest_zero_path_from(I, rc_nodes[0])
        if ref is not None and len(path) < ref:
            fails.append(dict(clause="extension-longest", detail="longest_radius_extension has %d atoms, a simple path of unchanged bonds with %d atoms starts in the first centre atom %r" % (len(path), ref, rc_nodes[0])))
    ctx = RadiusExpand.extract_k(I, -1)
    ball = _ball(I, rc_nodes, len(path))
    if set(ctx.nodes) != ball:
        fails.append(dict(clause="context-atoms", detail="n_knn=-1: context atoms %r, atoms within %d bonds of the centre %r" % (sorted(ctx.nodes), len(path), sorted(ball))))
    return fails


def _graph_eq(A, B):
    return dict(A.nodes(data=True)) == dict(B.nodes(data=True)) and \
        {frozenset(e[:2]): e[2] for e in A.edges(data=True)} == {frozenset(e[:2]): e[2] for e in B.edges(data=True)}


def oracle_list(case):
    """paralle_context_extraction / context_extraction over a list: inputs not mutated, K added, order preserved,
    element i of the result depends only on element i (compared with extract_k on a fresh copy of element i alone)."""
    from synkit.Graph.Context.radius_expand import RadiusExpand
    k = case["k"]
    data = [{"ITS": E.to_nx(g), "id": i} for i, g in enumerate(case["Is"])]
    out = RadiusExpand.paralle_context_extraction(data, n_knn=k)
    fails = []
    if len(out) != len(data) or [d.get("id") for d in out] != list(range(len(data))):
        return [dict(clause="list-order", detail="result ids %r for %d inputs" % ([d.get("id") for d in out], len(data)))]
    for i, (d, o) in enumerate(zip(data, out)):
        fresh = E.to_nx(case["Is"][i])
        if set(d) != {"ITS", "id"} or not _graph_eq(d["ITS"], fresh):
            fails.append(dict(clause="list-input-mutated", detail="input dict %d was changed (keys %r)" % (i, sorted(d))))
        if set(o) != {"ITS", "id", "K"} or not _graph_eq(o["ITS"], fresh):
            fails.append(dict(clause="list-output-dict", detail="output dict %d: keys %r or its ITS differs from the input" % (i, sorted(o))))
            continue
        want = RadiusExpand.extract_k(E.to_nx(case["Is"][i]), k)
        if not _graph_eq(o["K"], want):
            fails.append(dict(clause="list-element-independent", detail="element %d of %d: K has atoms %r, extract_k on this element alone gives %r (n_knn=%d)"
                              % (i, len(data), sorted(o["K"].nodes), sorted(want.nodes), k)))
        one = RadiusExpand.context_extraction({"ITS": E.to_nx(case["Is"][i])}, n_knn=k)
        if not _graph_eq(one["K"], want):
            fails.append(dict(clause="list-element-independent", detail="context_extraction on element %d alone differs from extract_k" % i))
    return fails[:3]


def sides_clause(case, I):
    """the property as stated on the two sides: a bond is in the centre iff its order differs between the reactant graph and
    the product graph (absent = 0; under ignore_aromaticity: differs by at least 1) or both atoms are hydrogens.
    Independent of the ITS's own order / standard_order attributes."""
    from synkit.Graph.ITS.its_decompose import get_rc
    G, H = P1._graphs_nx(case)
    for Y in (G, H):
        if any(not isinstance(d.get("order"), (int, float)) for _, _, d in Y.edges(data=True)):
            return []
    if any("element" not in d for _, d in I.nodes(data=True)):
        return []
    ia = bool(case.get("ia", False))
    want = set()
    for u, v in set(map(frozenset, G.edges)) | set(map(frozenset, H.edges)):
        og = G[u][v]["order"] if G.has_edge(u, v) else 0
        oh = H[u][v]["order"] if H.has_edge(u, v) else 0
        if (abs(og - oh) >= 1 if ia else og != oh) or (I.nodes[u]["element"] == "H" and I.nodes[v]["element"] == "H"):
            want.add(frozenset((u, v)))
    got = {frozenset(e) for e in get_rc(I).edges}
    if got != want:
        return [dict(clause="centre-vs-sides", detail="centre bonds %r; bonds whose order differs between reactant and product graph%s, or H-H: %r"
                     % (sorted(map(sorted, got)), " by at least 1 (ignore_aromaticity)" if ia else "", sorted(map(sorted, want))))]
    return []


def oracle_hist(case):
    """every step judged against a fresh evaluation (HS.run_history) and, on ITS values of a recognised class, the centre /
    context steps against the plain-set reference (changed-or-HH bonds, BFS ball)"""
    _obs, fails = HS.run_history(case, True)
    if fails:
        return fails[:3]
    vals, _ = HS.values(case)
    I = E.to_nx(case["I"])
    for i, (st, g) in enumerate(vals):
        if not HS.is_query(st):
            if st[0] != "mut_res":
                HS.apply_edit_nx(I, st)
            continue
        V = E.to_nx(g)
        cls = its_class(V)
        if cls is None or st[0] not in ("rc", "rck", "kk", "k", "hk", "ctx", "ctx2", "list", "list2") or (st[0] != "rc" and st[1] is not None and st[1] < 0):
            continue
        el = {n: d["element"] for n, d in V.nodes(data=True)}
        bonds = {frozenset((u, v)) for u, v, d in V.edges(data=True) if differs(d["order"], cls) or (el[u] == "H" and el[v] == "H")}
        centre = {x for b in bonds for x in b}
        ret, _o = HS.run_query(I, st)
        k = 0 if (st[0] in ("rc", "rck") or st[1] is None) else (min(st[1], st[2]) if st[0] == "kk" else st[1])
        want = _ball(V, centre, k)
        for r in ret:
            if set(r.nodes) != want:
                fails.append(dict(clause="history-context-atoms", detail="step %d %r: atoms %r, atoms within %d bonds of the centre of the CURRENT ITS %r; earlier steps %r"
                                  % (i, st, sorted(r.nodes), k, sorted(want), [s_ for s_, _ in vals[:i]])))
                return fails
    return fails


def oracle_wrap(case):
    w = case["wrap"]
    from synkit.Graph.ITS.its_construction import ITSConstruction
    from synkit.Graph.ITS.its_decompose import get_rc
    from synkit.Graph.Context.radius_expand import RadiusExpand
    fails = []
    if w == "hier":
        from synkit.Graph.Context.hier_context import HierContext
        data = [{"R-id": i, "ITS": E.to_nx(g)} for i, g in enumerate(case["Is"])]
        res, _tpl = HierContext(max_radius=case["R"]).fit(data)
        if sorted(d["R-id"] for d in res) != list(range(len(data))):
            return [dict(clause="wrapper-hier", detail="HierContext.fit returned entries %r for %d inputs" % ([d.get("R-id") for d in res], len(data)))]
        for d in res:
            V = E.to_nx(case["Is"][d["R-id"]])
            cls = its_class(V)
            if cls is None:
                continue
            el = {n: x["element"] for n, x in V.nodes(data=True)}
            centre = {x for u, v, e in V.edges(data=True) if differs(e["order"], cls) or (el[u] == "H" and el[v] == "H") for x in (u, v)}
            want = _ball(V, centre, case["R"])
            if set(d["K"].nodes) != want:
                fails.append(dict(clause="wrapper-hier", detail="HierContext.fit(max_radius=%d): entry %d has context atoms %r, atoms within %d bonds of the centre %r"
                                  % (case["R"], d["R-id"], sorted(d["K"].nodes), case["R"], sorted(want))))
        return fails[:3]
    G, H = _wrap_graphs(case)
    if G is None or H is None:
        return []
    if w == "rsmi_to_its" and case.get("eh"):
        # the explicit-hydrogen ITS is an ITS like any other: its core is its centre, and the centre clauses hold on it
        from synkit.IO.chem_converter import rsmi_to_its
        I = rsmi_to_its(case["rsmi"], core=False, explicit_hydrogen=True)
        got = rsmi_to_its(case["rsmi"], core=True, explicit_hydrogen=True)
        if not HS.graph_eq(got, get_rc(I)):
            fails.append(dict(clause="wrapper-rsmi_to_its", detail="rsmi_to_its(core=True, explicit_hydrogen=True) is not get_rc of rsmi_to_its(explicit_hydrogen=True)"))
        cls = its_class(I)
        if cls is not None:
            fails += centre_clauses(I, cls)[0]
        return fails[:3]
    if w == "rsmi_to_its":
        from synkit.IO.chem_converter import rsmi_to_its
        got = rsmi_to_its(case["rsmi"], core=case["core"])
        I = ITSConstruction.ITSGraph(G, H)
        want = get_rc(I) if case["core"] else I
        if not HS.graph_eq(got, want):
            fails.append(dict(clause="wrapper-rsmi_to_its", detail="rsmi_to_its(core=%s) is not %s" % (case["core"], "get_rc(ITSGraph(r, p))" if case["core"] else "ITSGraph(r, p)")))
        if case["core"]:
            fails += sides_clause(dict(rsmi=case["rsmi"]), I)
        return fails
    if w == "implicit_rule":
        try:
            from synkit.Rule.Modify.implict_rule import implicit_rule
        except ImportError:
            return []
        got = implicit_rule(case["rsmi"], case["disc"], case["bal"])
        I = ITSConstruction.ITSGraph(G, H, balance_its=case["bal"])
        bonds, atoms = ref_centre(I, list(X.DEFAULT_KEYS), case["disc"], False)
        if {frozenset(e) for e in got.edges} != set(bonds) or set(got.nodes) != set(atoms):
            fails.append(dict(clause="wrapper-implicit_rule", detail="implicit_rule(disconnected=%s, balance_its=%s): atoms %r bonds %r, expected atoms %r bonds %r"
                              % (case["disc"], case["bal"], sorted(got.nodes), sorted(map(sorted, got.edges)), sorted(atoms), sorted(map(sorted, bonds)))))
        return fails
    return fails


def oracle(case):
    from synkit.Graph.ITS.its_decompose import get_rc
    if "S" in case or "sopts" in case:
        return oracle_S(case)
    if "api" in case:
        return oracle_api(case)
    if "hist" in case:
        return oracle_hist(case)
    if "wrap" in case:
        return oracle_wrap(case)
    if case.get("raw"):
        return []
    if "X" in case:
        return oracle_x(case)
    if "Is" in case:
        return oracle_list(case)
    if case.get("lre"):
        return oracle_lre(case)
    if "helpers" in case:
        return oracle_helpers(case)
    I = _its_nx(case)
    if I is None:
        return []
    side_fails = sides_clause(case, I) if "I" not in case else []
    cls = its_class(I)
    if cls is None:
        return side_fails
    fails, rc = centre_clauses(I, cls)
    fails = side_fails + fails
    # renumbering the atom maps yields an isomorphic centre
    if "pi" in case:
        import networkx as nx
        pi = {int(k): v for k, v in case["pi"].items()}
        J = nx.relabel_nodes(I, pi, copy=True)
        for n, d in J.nodes(data=True):
            d["atom_map"] = n
        if not _iso_centres(rc, get_rc(J), pi):
            fails.append(dict(clause="centre-renumbering", detail="centre of the renumbered ITS is not isomorphic to the centre; pi=%r" % pi))
    if case.get("kind", "").startswith(("rw-renum", "rw-ring")) and "orig" in case:
        I0 = _its_nx(dict(case, rsmi=case["orig"]))
        if I0 is not None and its_class(I0) == cls and not _iso_centres(get_rc(I0), rc):
            fails.append(dict(clause="centre-renumbering", detail="centre of the renumbered reaction is not isomorphic to the centre of %r" % case["orig"]))
    return fails[:3]


def _special(case):
    return "X" in case or "Is" in case or "helpers" in case or bool(case.get("lre")) or "hist" in case or "wrap" in case or bool(case.get("raw")) \
        or "S" in case or "sopts" in case or "api" in case


def nontrivial(case, obs):
    if "S" in case or "sopts" in case:
        # a centre atom carries a pair-valued label
        return "pair" in repr(case.get("S", "")) or any(o.get("store") for o in ([case["sopts"]] if "api" in case.get("sopts", {}) else list(case.get("sopts", {}).values())))
    if "api" in case:
        return isinstance(obs, list) and len(obs) > 0 and (len(obs) == 1 or bool(obs[1]))
    if "hist" in case:
        # the answers of two steps differ (the history is not a repetition of one value)
        return isinstance(obs, list) and len(obs) >= 2 and any(o != obs[0] for o in obs[1:])
    if "wrap" in case or case.get("raw"):
        return isinstance(obs, list) and len(obs) > 0
    if "X" in case and case.get("rne"):
        return True
    if "X" in case:
        # some option changes the centre
        return isinstance(obs, list) and len(obs) == 4 and any(o != obs[0] for o in obs[1:])
    if "Is" in case:
        return len(case["Is"]) >= 2
    if case.get("lre"):
        return isinstance(obs, list) and len(obs) == 4 and len(obs[0]) >= 2
    if "helpers" in case:
        return isinstance(obs, list) and len(obs) == 3 and len(obs[0]["__set__"]) > 0
    I = _its_nx(case)
    if I is None or its_class(I) is None:
        return False
    n_rc = len(obs[0][0]["__set__"])
    return 0 < n_rc < I.number_of_nodes()


def distribution(cases, obss):
    sizes, rcs, grow, hh, incons, empty = {}, {}, 0, 0, 0, 0
    kinds, opt_eff, lre_len, ia_zeroed = {}, {"keep_mtg": 0, "disconnected": 0, "both_differ_from_each": 0}, {}, 0
    hist_ops = {}
    r5 = {"pair_label_centre_with_unchanged_HH_bond": 0, "dict_call_raises": 0, "dict_call_returns": 0, "direct_nn_raises": 0, "compare_true": 0, "compare_false": 0,
          "pass_by_pass_later_pass_adds": 0}
    for c, o in zip(cases, obss):
        kinds[c.get("kind", "?")] = kinds.get(c.get("kind", "?"), 0) + 1
        try:
            if ("S" in c or "sopts" in c) and "shist" not in c and not c.get("slre") and isinstance(o, list) and len(o) == 6:
                r5["pair_label_centre_with_unchanged_HH_bond"] += any(e[4] == 0 for e in o[0][0][1]["__set__"])
            elif "api" in c and ("D" in c or "Ds" in c):
                r5["dict_call_raises" if o == [] else "dict_call_returns"] += 1
            elif "api" in c and "nn" in c:
                r5["direct_nn_raises"] += any(x == [] for x in o[0])
            elif "api" in c and "sels" in c:
                for pair in o[0]:
                    r5["compare_true" if pair[0] else "compare_false"] += 1
            elif "api" in c and "steps" in c and isinstance(o, list) and len(o) == 5:
                r5["pass_by_pass_later_pass_adds"] += o[0] != o[3]
        except Exception:
            pass
        if "S" in c or "sopts" in c or "api" in c:
            continue
        if "hist" in c:
            for st in c["hist"]:
                hist_ops[st[0]] = hist_ops.get(st[0], 0) + 1
            continue
        if "wrap" in c or c.get("raw"):
            continue
        if "X" in c:
            if isinstance(o, list) and len(o) == 4 and not c.get("rne"):
                opt_eff["keep_mtg"] += o[1] != o[0]
                opt_eff["disconnected"] += o[2] != o[0]
                opt_eff["both_differ_from_each"] += o[3] != o[1] and o[3] != o[2]
            continue
        if c.get("lre"):
            if isinstance(o, list) and len(o) == 4:
                lre_len[str(len(o[0]))] = lre_len.get(str(len(o[0])), 0) + 1
            continue
        if _special(c):
            continue
        if not (isinstance(o, list) and len(o) == 4):
            sizes["unparsable"] = sizes.get("unparsable", 0) + 1
            continue
        nrc = len(o[0][0]["__set__"])
        rcs[str(min(nrc, 8))] = rcs.get(str(min(nrc, 8)), 0) + 1
        ks = [len(x[0]["__set__"]) for x in o[2]]
        key = str(ks[-1]) if ks[-1] <= 9 else ("10-29" if ks[-1] < 30 else "30+")
        sizes[key] = sizes.get(key, 0) + 1
        if ks[3] > ks[2] > ks[1] > ks[0]:
            grow += 1
        if nrc == 0:
            empty += 1
        if any(e[4] == 0 for e in o[0][1]["__set__"]):
            hh += 1
        if any(e[4] != e[2] - e[3] for e in o[0][1]["__set__"]):
            incons += 1
        if "ia" in c and c["ia"] and any(e[4] == 0 and e[2] != e[3] for e in o[3][1]["__set__"]):
            ia_zeroed += 1
    return dict(round5=r5, history_step_kinds=hist_ops, option_changes_centre=opt_eff, longest_extension_lengths=lre_len,
                ignore_aromaticity_its_with_zeroed_half_order_change=ia_zeroed, context3_sizes=sizes, centre_sizes=rcs, strictly_growing_to_radius_3=grow, centre_with_unchanged_HH_bond=hh,
                centre_with_inconsistent_standard_order=incons, empty_centre=empty)


def shrink(case, fl):
    if "hist" in case or "wrap" in case or case.get("raw") or "S" in case or "sopts" in case or "api" in case:
        return case
    if "X" in case:
        cur = case
        changed = True
        while changed:
            changed = False
            for n in [x[0] for x in cur["X"]["nodes"]]:
                cand = dict(cur, X={"nodes": [x for x in cur["X"]["nodes"] if x[0] != n],
                                    "edges": [e for e in cur["X"]["edges"] if n not in e[:2]]})
                try:
                    if oracle(cand):
                        cur = dict(cand, name=case.get("name", "") + "(shrunk)")
                        changed = True
                        break
                except Exception:
                    pass
        return cur
    if "I" not in case or _special(case):
        return case
    cur = case
    changed = True
    while changed:
        changed = False
        for n in [x[0] for x in cur["I"]["nodes"]]:
            cand = dict(cur, I={"nodes": [x for x in cur["I"]["nodes"] if x[0] != n],
                                "edges": [e for e in cur["I"]["edges"] if n not in e[:2]]})
            cand.pop("pi", None)
            try:
                if oracle(cand):
                    cur = dict(cand, name=case.get("name", "") + "(shrunk)")
                    changed = True
                    break
            except Exception:
                pass
    return cur


# ------------------------------------------------------------------ generators

def its_node(i, el, tg=None, th=None, ch=0, extras=False, amap=None):
    tg = tg if tg is not None else [el, False, 0, 0, []]
    th = th if th is not None else [el, False, 0, 0, []]
    a = {"element": el, "charge": ch, "atom_map": i if amap is None else amap, "typesGH": [tg, th]}
    if extras:
        a.update(aromatic=tg[1], hcount=tg[2], neighbors=list(tg[4]))
    return a


def its_edge(a, b, std=None):
    return {"order": [a, b], "standard_order": (a - b) if std is None else std}


def gen_exhaustive_its():
    cases = []
    states = [None] + [(a, b) for a in (0, 1, 2) for b in (0, 1, 2) if (a, b) != (0, 0)]
    for n in (1, 2, 3):
        pairs = [(i, j) for i in range(1, n + 1) for j in range(i + 1, n + 1)]
        for els in itertools.product(E.ELEMS2, repeat=n):
            for st in itertools.product(states, repeat=len(pairs)):
                g = {"nodes": [[i + 1, its_node(i + 1, els[i])] for i in range(n)],
                     "edges": [[u, v, its_edge(*s)] for (u, v), s in zip(pairs, st) if s is not None]}
                cases.append(dict(kind="its-exh", I=g))
    st15 = [(a, b) for a in (0, 1, 1.5, 2) for b in (0, 1, 1.5, 2) if (a, b) != (0, 0)]
    for els in itertools.product(E.ELEMS2, repeat=2):
        for s in st15:
            cases.append(dict(kind="its-exh15", I={"nodes": [[2, its_node(2, els[0], extras=True)], [1, its_node(1, els[1], extras=True)]],
                                                   "edges": [[2, 1, its_edge(*s)]]}))
    for els in itertools.product(E.ELEMS2, repeat=2):
        for (a, b) in st15:
            d = a - b
            cases.append(dict(kind="its-exh15-ia", I={"nodes": [[2, its_node(2, els[0], extras=True)], [1, its_node(1, els[1], extras=True)]],
                                                      "edges": [[2, 1, its_edge(a, b, 0 if abs(d) < 1 else d)]]}))
    return cases


def _rand_its(rng, n, kind):
    ids = rng.sample(range(0, max(40, 2 * n)), n)
    els = [rng.choice(("C", "C", "H", "H", "O", "N", "C", "H", "Hg", "He")) for _ in range(n)]      # Hg / He: not hydrogens
    nodes = []
    extras = rng.random() < 0.5
    for i, el in zip(ids, els):
        tg = [el, rng.random() < 0.2, rng.choice((0, 1, 2)), rng.choice((0, 0, 1, -1)), sorted(rng.choice(("C", "H", "O")) for _ in range(rng.randint(0, 3)))]
        th = [el, rng.random() < 0.2, rng.choice((0, 1, 2)), rng.choice((0, 0, 1, -1)), list(tg[4])]
        top = el
        if kind == "its-toplevel" and rng.random() < 0.4:
            top = rng.choice(("C", "H", "*"))
        a = its_node(i, el, tg, th, ch=tg[3], extras=extras, amap=i if rng.random() < 0.9 else rng.randint(0, 50))
        a["element"] = top
        nodes.append([i, a])
    # tree-like skeleton (long paths make radius 3 matter) + a few chords
    have = {}
    order = list(range(n))
    rng.shuffle(order)
    for k in range(1, n):
        if rng.random() < 0.92:
            j = order[rng.randrange(max(0, k - 2), k)]
            have[(order[k], j)] = None
    for _ in range(rng.randint(0, 3)):
        i, j = rng.sample(range(n), 2)
        if (i, j) not in have and (j, i) not in have:
            have[(i, j)] = None
    edges = []
    nchg = 0
    for (i, j) in have:
        z = rng.random()
        if z < 0.72:
            a = rng.choice((1, 1, 1.5, 2))
            b = a
        else:
            a, b = rng.choice([(0, 1), (1, 0), (1, 2), (2, 1), (1, 1.5), (1.5, 1), (2, 1.5), (0, 2), (3, 1), (1.5, 2)])
            nchg += 1
        std = None
        if kind == "its-incons" and rng.random() < 0.5:
            std = rng.choice((0, 0, 0.5, -0.5, 1, -1, 2, -2, 1.5))
        e = [ids[i], ids[j], its_edge(a, b, std)]
        if rng.random() < 0.15:
            e[2]["is_mtg"] = False
        edges.append(e)
    rng.shuffle(edges)
    rng.shuffle(nodes)
    return {"nodes": nodes, "edges": edges}


def gen_random_its(rng, count, kind, maxn=10):
    cases = []
    for _ in range(count):
        g = _rand_its(rng, rng.randint(2, maxn), kind)
        c = dict(kind=kind, I=g)
        if rng.random() < 0.5:
            ids = [n for n, _ in g["nodes"]]
            new = rng.sample(range(0, 60), len(ids))
            c["pi"] = {str(a): b for a, b in zip(ids, new)}
        cases.append(c)
    return cases


def gen_pairs(rng, tier):
    cases = []
    small = P1.gen_exhaustive_small(rng)
    ex1 = [c for c in small if c["kind"] == "exh1"]
    ex2 = [c for c in small if c["kind"] == "exh2"]
    ex2 = rng.sample(ex2, 600 if tier == "quick" else 3000)
    for c in ex1 + ex2:
        cases.append(dict(kind="pair-" + c["kind"], G=c["G"], H=c["H"]))
    for c in P1.gen_random(rng, 300 if tier == "quick" else 2000, maxn=10):
        cases.append(dict(kind="pair-rand", G=c["G"], H=c["H"]))
    for c in P1.gen_malformed(rng, 150 if tier == "quick" else 800):
        cases.append(dict(kind="pair-malformed", G=c["G"], H=c["H"]))
    return cases


def gen_corpus(rng, n_sample, n_rewrites):
    corpus = R.load_corpus()
    good = [(s, i, r) for s, i, r in corpus if R.well_formed(r)]
    if n_sample is None:
        chosen = good
    else:
        us = [x for x in good if x[0] == "uspto"]
        ec = [x for x in good if x[0] == "ecoli"]
        chosen = rng.sample(us, n_sample // 2) + rng.sample(ec, n_sample - n_sample // 2)
    cases = []
    for s, i, r in chosen:
        cases.append(dict(kind="corpus", rsmi=r, src="%s#%d" % (s, i)))
        for kind in R.REWRITES:
            for k in range(n_rewrites if kind != "rev" else 1):
                try:
                    cases.append(dict(kind="rw-" + kind, rsmi=R.rewrite(r, kind, rng), orig=r, src="%s#%d" % (s, i)))
                except Exception:
                    pass
    return cases


def gen_options(rng, tier):
    """get_rc(element_key, disconnected, keep_mtg): exhaustive small scope with the default keys and one PRNG key list,
    random graphs up to 9 nodes with PRNG key lists"""
    cases = []
    for g in X.gen_x_exhaustive():
        cases.append(dict(kind="x-exh", X=g, keys=list(X.DEFAULT_KEYS)))
        if len(g["nodes"]) == 2:
            cases.append(dict(kind="x-exh-keys", X=g, keys=list(rng.choice(X.KEY_CHOICES[1:]))))
    for _ in range(500 if tier == "quick" else 2500):
        cases.append(dict(kind="x-rand", X=X.rand_x(rng, rng.randint(2, 9)), keys=list(rng.choice(X.KEY_CHOICES))))
    for _ in range(40 if tier == "quick" else 200):
        cases.append(dict(kind="x-altkeys", X=X.rand_x(rng, rng.randint(2, 8)), keys=list(rng.choice(X.KEY_CHOICES)), alt=True))
    for _ in range(40 if tier == "quick" else 200):
        cases.append(dict(kind="x-rne", X=X.rand_x(rng, rng.randint(2, 8)), keys=[], rne=True))
    return cases


HELPER_RADII = [0, 1, 4, 7]


def _cyclic_its(rng, n):
    """ring(s) of unchanged bonds with a changed bond: many equally long extension paths"""
    ids = rng.sample(range(0, 30), n)
    edges = [[ids[i], ids[(i + 1) % n], its_edge(1, 1)] for i in range(n)]
    for _ in range(rng.randint(0, 2)):
        i, j = rng.sample(range(n), 2)
        if abs(i - j) not in (1, n - 1) and not any({e[0], e[1]} == {ids[i], ids[j]} for e in edges):
            edges.append([ids[i], ids[j], its_edge(1, 1)])
    for e in rng.sample(edges, rng.randint(1, 2)):
        e[2] = its_edge(*rng.choice([(1, 2), (0, 1), (1, 0)]))
    rng.shuffle(edges)
    nodes = [[i, its_node(i, rng.choice(("C", "C", "H", "O")))] for i in ids]
    rng.shuffle(nodes)
    return {"nodes": nodes, "edges": edges}


def gen_helpers(rng, tier, exh):
    q = tier == "quick"
    cases = []
    small = [c for c in exh if len(c["I"]["nodes"]) <= 2]
    three = [c for c in exh if len(c["I"]["nodes"]) == 3]
    for c in small + rng.sample(three, 250 if q else 2000):
        cases.append(dict(kind="help-exh", I=c["I"], helpers=HELPER_RADII))
    for kind in ("its-rand", "its-incons"):
        for c in gen_random_its(rng, 250 if q else 1500, kind, maxn=12):
            cases.append(dict(kind="help-" + kind[4:], I=c["I"], helpers=HELPER_RADII))
    # n_knn = -1 on graphs in canonical (networkx iteration) order
    for _ in range(250 if q else 1500):
        g = _rand_its(rng, rng.randint(2, 9), "its-rand") if rng.random() < 0.6 else _cyclic_its(rng, rng.randint(3, 7))
        for e in g["edges"]:
            e[2].pop("is_mtg", None)
        cases.append(dict(kind="lre", I=X.canon(g), lre=True))
    # lists of reaction dicts
    pool = [c["I"] for c in gen_random_its(rng, 120 if q else 600, "its-rand", maxn=8)] + [c["I"] for c in rng.sample(three, 60)]
    for _ in range(60 if q else 300):
        gs = [rng.choice(pool) for _ in range(rng.randint(1, 5))]
        if rng.random() < 0.3 and len(gs) >= 2:
            gs[-1] = gs[0]                 # the same graph twice in one list
        cases.append(dict(kind="list", Is=gs, k=rng.choice((0, 1, 1, 2, 3))))
    return cases


def gen_ia(rng, tier):
    """ITSGraph(G, H, ignore_aromaticity=True[, balance_its=True]) of synthetic pairs and corpus reactions"""
    q = tier == "quick"
    cases = []
    for c in P1.gen_random(rng, 300 if q else 1500, maxn=8):
        cases.append(dict(kind="pair-ia", G=c["G"], H=c["H"], ia=True, bal=rng.random() < 0.5))
    for c in P1.gen_malformed(rng, 100 if q else 500):
        cases.append(dict(kind="pair-ia-malformed", G=c["G"], H=c["H"], ia=rng.random() < 0.7, bal=True))
    small = [c for c in P1.gen_exhaustive_small(rng) if c["kind"] == "exh2"]
    for c in rng.sample(small, 200 if q else 1000):
        cases.append(dict(kind="pair-ia-exh2", G=c["G"], H=c["H"], ia=True, bal=rng.random() < 0.5))
    for c in P1.gen_random(rng, 150 if q else 800, maxn=8):
        cases.append(dict(kind="help-pair-ia", G=c["G"], H=c["H"], ia=True, bal=False, helpers=HELPER_RADII))
    return cases


def gen_corpus_ext(rng, n_sample):
    """corpus reactions: ignore_aromaticity / balance_its ITS, atom maps renumbered into 10..99 and 100..999,
    ring-closure digits rewritten as %1d"""
    corpus = R.load_corpus()
    good = [(s, i, r) for s, i, r in corpus if R.well_formed(r)]
    chosen = good if n_sample is None else rng.sample(good, n_sample)
    cases = []
    for s, i, r in chosen:
        src = "%s#%d" % (s, i)
        cases.append(dict(kind="corpus-ia", rsmi=r, src=src, ia=True, bal=rng.random() < 0.5))
        cases.append(dict(kind="rw-renum10", rsmi=X.renumber_into(r, rng, 10, 100), orig=r, src=src))
        cases.append(dict(kind="rw-renum100", rsmi=X.renumber_into(r, rng, 100, 1000), orig=r, src=src))
        cases.append(dict(kind="help-corpus", rsmi=r, src=src, helpers=HELPER_RADII))
        cases.append(dict(kind="lre-corpus", rsmi=r, src=src, lre=True))          # n_knn = -1 on real ITS graphs (round 5)
        rr = X.ring_digits_plus(r)
        if rr is not None:
            cases.append(dict(kind="rw-ring10", rsmi=X.renumber_into(rr, rng, 10, 100), orig=r, src=src))
    return cases


def _big_its(rng, n, many=False):
    """25..60 atoms, several changed bonds spread over the graph, at least two unchanged H-H bonds, a few chords"""
    g = _rand_its(rng, n, "its-rand")
    for e in g["edges"]:
        e[2].pop("is_mtg", None)
    attrs = dict((i, a) for i, a in g["nodes"])
    for e in rng.sample(g["edges"], min(3, len(g["edges"]))):
        for x in e[:2]:
            a = attrs[x]
            a["element"] = "H"
            a["typesGH"] = [["H"] + list(a["typesGH"][0][1:]), ["H"] + list(a["typesGH"][1][1:])]
        e[2] = its_edge(1, 1)
    for e in rng.sample(g["edges"], min((len(g["edges"]) * 2) // 5 if many else rng.randint(4, 16), len(g["edges"]))):
        if not (attrs[e[0]]["element"] == "H" and attrs[e[1]]["element"] == "H"):
            e[2] = its_edge(*rng.choice([(0, 1), (1, 0), (1, 2), (2, 1)]))
    return g


def gen_big(rng, tier):
    """size classes: ITS graphs beyond 20 / 30 atoms, centres beyond 12 bonds, contexts beyond 30 atoms"""
    q = tier == "quick"
    cases = []
    for _ in range(40 if q else 200):
        cases.append(dict(kind="its-big", I=_big_its(rng, rng.randint(22, 60))))
    for _ in range(30 if q else 150):
        cases.append(dict(kind="help-big", I=_big_its(rng, rng.randint(22, 60)), helpers=HELPER_RADII))
    for _ in range(20 if q else 100):
        cases.append(dict(kind="lre-big", I=X.canon(_big_its(rng, rng.randint(22, 40))), lre=True))
    for _ in range(30 if q else 150):
        cases.append(dict(kind="x-big", X=X.rand_x(rng, rng.randint(22, 45)), keys=list(rng.choice(X.KEY_CHOICES))))
    gs = [_big_its(rng, rng.randint(22, 40)) for _ in range(6)]
    for _ in range(6 if q else 30):
        cases.append(dict(kind="list-big", Is=[rng.choice(gs) for _ in range(rng.randint(2, 4))], k=rng.choice((1, 2, 3))))
    # round 5: LONG lists (>= 10 and >= 25 reaction dicts) of small graphs, and radii >= 10 that matter (chains of 30-45 atoms with
    # the changed bond at one end: context(k) has exactly k + 2 atoms)
    small = [c["I"] for c in gen_random_its(rng, 12, "its-rand", maxn=6)]
    for n_el in ((12, 27) if q else (10, 12, 16, 27, 40, 64)):
        cases.append(dict(kind="list-long", Is=[rng.choice(small) for _ in range(n_el)], k=rng.choice((0, 1, 2))))
    for _ in range(4 if q else 20):
        n = rng.randint(30, 45)
        ids = rng.sample(range(1, 400), n)
        chain = {"nodes": [[i, its_node(i, rng.choice(("C", "C", "N", "O")))] for i in ids],
                 "edges": [[ids[0], ids[1], its_edge(1, 2)]] + [[ids[j], ids[j + 1], its_edge(1, 1)] for j in range(1, n - 1)]}
        rng.shuffle(chain["nodes"])
        cases.append(dict(kind="help-chain", I=chain, helpers=[9, 10, 11, rng.randint(12, 29), 30]))
        cases.append(dict(kind="lre-chain", I=X.canon(chain), lre=True))
    return cases


def gen_histories(rng, tier):
    """scripts on ONE shared ITS object (round 3): radii in different orders, in-place edits between extractions (count-preserving
    and count-changing), non-default options before/after defaults, caller-side mutation of returned graphs, the same object
    several times in one list"""
    q = tier == "quick"
    cases = []
    per = {"a": 60, "b": 120, "b2": 90, "b3": 60, "c": 70, "d": 50, "e": 40} if q else {"a": 200, "b": 450, "b2": 350, "b3": 200, "c": 250, "d": 150, "e": 150}
    for fl, cnt in per.items():
        for _ in range(cnt):
            g = _rand_its(rng, rng.randint(2, 9), "its-rand") if rng.random() < 0.85 else _cyclic_its(rng, rng.randint(3, 6))
            for e in g["edges"]:
                e[2].pop("is_mtg", None)
            g = X.canon(g)
            cases.append(dict(kind="hist-" + fl, I=g, hist=HS.gen_history(rng, g, fl)))
    # hand-written: the C02-w2-1 scenario and its siblings on a chain 1-2-3-4-5-6 with one changed bond
    chain = {"nodes": [[i, its_node(i, "C")] for i in range(1, 7)],
             "edges": [[1, 2, its_edge(1, 2)]] + [[i, i + 1, its_edge(1, 1)] for i in range(2, 6)]}
    fixed = [
        [["k", 1], ["set_edge", 5, 6, 1, 0, 1], ["k", 1], ["k", 0], ["k", 2]],
        [["k", 1], ["set_edge", 1, 2, 1, 1, 0], ["k", 1], ["rc"], ["uneq"]],
        [["k", 2], ["k", 0], ["k", 1], ["k", -1], ["k", 3]],
        [["ctx", 1], ["set_el", 5, "H"], ["set_el", 6, "H"], ["ctx", 1], ["k", 1]],
        [["k", -1], ["set_edge", 3, 4, 1, 2, -1], ["k", -1], ["k", 1]],
        [["rcx", ["element"], True, True, "pos"], ["rc"], ["k", 1], ["rcx", ["element", "charge", "typesGH", "atom_map"], False, False, "kw"]],
        [["rc"], ["mut_res", 0, "clear"], ["rc"], ["k", 1], ["mut_res", 2, "del_node"], ["k", 1]],
        [["list", 1, 3, 1], ["set_edge", 5, 6, 1, 2, -1], ["list", 1, 3, 1], ["hk", 1]],
        [["k", 1], ["del_edge", 1, 2], ["k", 1], ["add_edge", 1, 6, 0, 1, -1], ["k", 1]],
        [["k", 1], ["del_node", 1], ["k", 1], ["add_node", 9, "C"], ["add_edge", 9, 6, 0, 1, -1], ["k", 1]],
        [["k", 1], ["set_chg", 4, 1], ["k", 1], ["rcx", ["element", "charge", "typesGH", "atom_map"], True, False, "kw"]],
        [["nn", 1], ["set_edge", 4, 5, 1, 0, 1], ["nn", 1], ["rne"], ["uneq"]],
    ]
    for h in fixed:
        cases.append(dict(kind="hist-fixed", I=X.canon(chain), hist=h))
    return cases


def gen_wrappers(rng, tier):
    """rsmi_to_its(core=...), implicit_rule(disconnected, balance_its) positional and by keyword, HierContext.fit"""
    q = tier == "quick"
    corpus = [(s_, i, r) for s_, i, r in R.load_corpus() if R.well_formed(r)]
    cases = []
    for s_, i, r in rng.sample(corpus, 24 if q else 100):
        src = "%s#%d" % (s_, i)
        cases.append(dict(kind="wrap-core", wrap="rsmi_to_its", rsmi=r, core=rng.random() < 0.8, src=src))
        cases.append(dict(kind="wrap-core-eh", wrap="rsmi_to_its", rsmi=r, core=True, eh=True, src=src))
        # synkit.Rule.Modify.implict_rule.implicit_rule(rsmi, disconnected=True, balance_its=False): importable since /repo fix 28c46fa (round 5);
        # its body is get_rc(ITSGraph(r, p, balance_its=...), disconnected=...) on the hydrogen-stripped reaction
        st = rng.choice(("pos", "kw", "default", "list"))
        cases.append(dict(kind="wrap-implicit", wrap="implicit_rule", rsmi=r, src=src, style=st,
                          disc=True if st == "default" else rng.random() < 0.5, bal=False if st == "default" else rng.random() < 0.5))
    # the hypothesis of theorem C02_explicit_h_bonds, on the real code: a hydrogen ATOM with an implicit hydrogen ("[HH]") gets an explicit H
    # neighbour and the new H-H bond enters the centre; with both hydrogens written as atoms, and without H2, nothing changes
    for i, r in enumerate(("[HH:1].[CH2:2]=[CH2:3]>>[HH:1].[CH3:2][CH2:3]", "[H:1][H:4].[CH2:2]=[CH2:3]>>[H:1][H:4].[CH3:2][CH2:3]",
                           "[CH2:2]=[CH2:3].[OH2:1]>>[CH3:2][CH2:3][OH:1]")):
        cases.append(dict(kind="wrap-core-eh", wrap="rsmi_to_its", rsmi=r, core=True, eh=True, name="wrap/explicit-hydrogen/%d" % i))
        cases.append(dict(kind="wrap-core", wrap="rsmi_to_its", rsmi=r, core=True, name="wrap/explicit-hydrogen/%d/implicit" % i))
    pool = [c["I"] for c in gen_random_its(rng, 60, "its-rand", maxn=8)]
    for _ in range(12 if q else 50):
        cases.append(dict(kind="wrap-hier", wrap="hier", Is=[rng.choice(pool) for _ in range(rng.randint(1, 4))], R=rng.choice((1, 2, 3))))
    return cases


def gen_degenerate():
    """empty ITS, single atom, isolated atoms, no changed bond, node ids 0 and large, large radii, standard_order 0 / 0.0 / -0.0,
    element "" / "*" / absent, self loops; and (raw: outside the model, monitored only) standard_order None / absent / a string, order as a list"""
    cases = []
    empty = {"nodes": [], "edges": []}
    one = {"nodes": [[0, its_node(0, "C")]], "edges": []}
    iso = {"nodes": [[0, its_node(0, "H")], [7, its_node(7, "H")], [1000000, its_node(1000000, "C")]], "edges": []}
    nochg = {"nodes": [[0, its_node(0, "C")], [1, its_node(1, "O")], [2, its_node(2, "H")]], "edges": [[0, 1, its_edge(1, 1)], [1, 2, its_edge(1, 1)]]}
    hh_only = {"nodes": [[0, its_node(0, "H")], [1, its_node(1, "H")], [2, its_node(2, "C")]], "edges": [[0, 1, its_edge(1, 1)], [1, 2, its_edge(1, 1)]]}
    zeros = {"nodes": [[0, its_node(0, "C")], [1, its_node(1, "C")], [2, its_node(2, "C")], [3, its_node(3, "C")]],
             "edges": [[0, 1, its_edge(1, 1, 0.0)], [1, 2, its_edge(1.5, 1.5, -0.0)], [2, 3, its_edge(0, 1)]]}
    big_ids = {"nodes": [[0, its_node(0, "C")], [4000000000, its_node(4000000000, "C")], [123456, its_node(123456, "N", amap=-5)]],
               "edges": [[0, 4000000000, its_edge(2, 1)], [4000000000, 123456, its_edge(1, 1)]]}
    odd_el = {"nodes": [[0, its_node(0, "")], [1, its_node(1, "*")], [2, its_node(2, "H")]], "edges": [[0, 1, its_edge(1, 0)], [1, 2, its_edge(1, 1)]]}
    for name, g in (("empty", empty), ("one", one), ("isolated", iso), ("no-changed-bond", nochg), ("hh-only", hh_only),
                    ("zero-forms", zeros), ("ids-0-and-large", big_ids), ("element-empty-star", odd_el)):
        cases.append(dict(kind="degen", I=g, name="degen/%s" % name))
        cases.append(dict(kind="degen-help", I=g, helpers=[0, 1, 50], name="degen/%s/helpers" % name))
        cases.append(dict(kind="degen-lre", I=X.canon(g), lre=True, name="degen/%s/n_knn=-1" % name))
        cases.append(dict(kind="degen-x", X=g, keys=list(X.DEFAULT_KEYS), name="degen/%s/options" % name))
        cases.append(dict(kind="degen-x", X=g, keys=[], name="degen/%s/options-no-keys" % name))
        cases.append(dict(kind="degen-list", Is=[g, empty, g], k=1, name="degen/%s/list" % name))
        cases.append(dict(kind="degen-hist", I=X.canon(g), hist=[["k", 1], ["add_node", 77, "H"], ["k", 1], ["k", -1], ["rc"], ["list", 0, 2, 1]],
                          name="degen/%s/history" % name))
    cases.append(dict(kind="degen-list", Is=[], k=1, name="degen/empty-list"))
    # element key absent / falsy labels on some nodes only
    xg = {"nodes": [[0, {"charge": 0, "atom_map": 0, "typesGH": [["H", False, 0, 0, []], ["H", False, 0, 0, []]]}],
                    [1, {"element": "H", "charge": 0, "atom_map": 0}], [2, {"element": "", "atom_map": 2, "typesGH": [["", False, 0, 0, []], ["", False, 0, 1, []]]}]],
          "edges": [[0, 1, {"order": [1, 1], "standard_order": 0, "is_mtg": False}], [1, 2, {"order": [0, 0], "standard_order": 0, "is_mtg": True}]]}
    for keys in X.KEY_CHOICES:
        cases.append(dict(kind="degen-x", X=xg, keys=list(keys), name="degen/absent-labels/%s" % "+".join(keys)))
    # self loop (networkx allows it; outside the theorems' wf hypothesis, inside the executable model)
    loop = {"nodes": [[0, its_node(0, "H")], [1, its_node(1, "C")]], "edges": [[0, 0, its_edge(1, 0)], [0, 1, its_edge(1, 1)], [1, 1, its_edge(1, 1)]]}
    cases.append(dict(kind="degen-selfloop", I=loop, name="degen/self-loop"))
    cases.append(dict(kind="degen-selfloop", I=loop, helpers=[0, 1, 2], name="degen/self-loop/helpers"))
    # outside the model: monitored only
    for name, attrs in (("std-none", {"order": [1, 2], "standard_order": None}), ("std-absent", {"order": [1, 2]}),
                        ("std-string", {"order": [1, 2], "standard_order": "1"}), ("order-as-list", {"order": [1, 2], "standard_order": -1}),
                        ("order-absent", {"standard_order": -1})):
        g = {"nodes": [[0, its_node(0, "C")], [1, its_node(1, "C")], [2, its_node(2, "C")]], "edges": [[0, 1, attrs], [1, 2, {"order": [1, 1], "standard_order": 0}]]}
        cases.append(dict(kind="degen-raw", I=g, raw=True, name="degen/raw/%s" % name))
    return cases


def gen_huge(rng, tier):
    """>= 100 atoms (three-digit node ids / atom maps)"""
    cases = []
    for _ in range(4 if tier == "quick" else 12):
        cases.append(dict(kind="its-huge", I=_big_its(rng, rng.randint(100, 150))))
    for _ in range(2 if tier == "quick" else 6):
        cases.append(dict(kind="help-huge", I=_big_its(rng, rng.randint(100, 150)), helpers=HELPER_RADII))
    g = X.canon(_big_its(rng, 110))
    cases.append(dict(kind="hist-huge", I=g, hist=HS.gen_history(rng, g, "b")))
    # round 5: beyond 256 atoms (and, thorough, beyond 1024)
    cases.append(dict(kind="its-manychg", I=_big_its(rng, 160, many=True)))           # a centre of ~60 changed bonds / ~100 atoms
    cases.append(dict(kind="help-manychg", I=_big_its(rng, 160, many=True), helpers=[0, 1, 3]))
    for n in ((320,) if tier == "quick" else (320, 1100)):
        cases.append(dict(kind="its-giant", I=_big_its(rng, n)))
        cases.append(dict(kind="help-giant", I=_big_its(rng, n), helpers=[0, 1, 12]))
    return cases


def gen_store(rng, tier):
    """ITS graphs with (reactant, product) PAIR labels: ITSConstruction.construct with its defaults (store=True, balance_its=True) and
    with option combinations, on synthetic pairs and corpus reactions; literal graphs with all / some nodes pair-labelled; histories
    mixing the store=True and the store=False ITS of one reaction; label shapes outside the model (oracle only)"""
    q = tier == "quick"
    cases = []
    small = [c for c in P1.gen_exhaustive_small(rng) if c["kind"] == "exh2"]
    for c in rng.sample(small, 150 if q else 1200):
        cases.append(dict(kind="s-pair-exh2", G=c["G"], H=c["H"], sopts=dict(ST.DEFAULT_CONSTRUCT), keys=list(X.DEFAULT_KEYS)))
    for c in P1.gen_random(rng, 200 if q else 1500, maxn=8):
        cases.append(dict(kind="s-pair-default", G=c["G"], H=c["H"], sopts=dict(ST.DEFAULT_CONSTRUCT), keys=list(rng.choice(X.KEY_CHOICES))))
    for c in P1.gen_random(rng, 150 if q else 1200, maxn=8) + P1.gen_malformed(rng, 60 if q else 400):
        cases.append(dict(kind="s-pair-opts", G=c["G"], H=c["H"], sopts=ST.rand_opts(rng), keys=list(rng.choice(X.KEY_CHOICES))))
    corpus = [(s_, i, r) for s_, i, r in R.load_corpus() if R.well_formed(r)]
    for s_, i, r in rng.sample(corpus, 24 if q else 150):
        cases.append(dict(kind="s-corpus-default", rsmi=r, src="%s#%d" % (s_, i), sopts=dict(ST.DEFAULT_CONSTRUCT), keys=list(X.DEFAULT_KEYS)))
    for g in X.gen_x_exhaustive():
        if len(g["nodes"]) == 2:
            cases.append(dict(kind="s-exh", S=ST.pairify(g, rng), keys=list(X.DEFAULT_KEYS)))
    for _ in range(200 if q else 1500):
        cases.append(dict(kind="s-rand", S=ST.pairify(X.rand_x(rng, rng.randint(2, 9)), rng, rng.choice((1.0, 1.0, 0.5))), keys=list(rng.choice(X.KEY_CHOICES))))
    # n_knn = -1 (longest_radius_extension) on pair-/absent-label graphs, edge lists in networkx iteration order
    for _ in range(100 if q else 600):
        g = X.rand_x(rng, rng.randint(2, 9)) if rng.random() < 0.6 else _cyclic_its(rng, rng.randint(3, 7))
        cases.append(dict(kind="s-lre", S=ST.canon_S(ST.pairify(g, rng, rng.choice((1.0, 0.5)))), slre=True, keys=list(X.DEFAULT_KEYS)))
    for c in P1.gen_random(rng, 80 if q else 600, maxn=7):
        so = {"T": dict(ST.DEFAULT_CONSTRUCT), "F": {"api": "ITSGraph", "ia": False, "bal": False, "store": False}}
        steps = []
        for _ in range(rng.randint(3, 5)):
            w = rng.choice(("T", "F"))
            z = rng.random()
            steps.append([w, ["rc"] if z < 0.3 else (["rcx", list(rng.choice(X.KEY_CHOICES)), rng.random() < 0.5, rng.random() < 0.5] if z < 0.5
                              else ([rng.choice(("k", "ctx", "hk")), rng.choice((0, 1, 2))] if z < 0.75
                                    else (["rck", rng.choice((1, 2, 3))] if z < 0.88 else ["kk", rng.choice((1, 2)), rng.choice((2, 3))])))])
        cases.append(dict(kind="s-hist", G=c["G"], H=c["H"], sopts=so, shist=steps))
    # label shapes a caller may have that the model does not cover: oracle only ('labels copied unchanged')
    base = {"nodes": [[1, its_node(1, "C")], [2, its_node(2, "O")], [3, its_node(3, "C")]], "edges": [[1, 2, its_edge(1, 2)], [2, 3, its_edge(1, 1)]]}
    shapes = [("custom-pair", {"tag": {"pair": [1, 2]}}, ["element", "tag", "typesGH"]), ("custom-triple", {"tag": {"tuple": [1, 2, 3]}}, ["tag", "element"]),
              ("charge-none", {"charge": None}, list(X.DEFAULT_KEYS)), ("charge-numpy", {"charge": {"np_int": 0}}, list(X.DEFAULT_KEYS)),
              ("element-list", {"element": ["C", "C"]}, list(X.DEFAULT_KEYS)), ("nested", {"tag": {"pair": [{"pair": [1, 2]}, 3]}}, ["tag"]),
              ("charge-pair-on-scalar-graph", {"charge": {"pair": [0, -1]}}, list(X.DEFAULT_KEYS)), ("atom_map-pair", {"atom_map": {"pair": [1, 1]}}, list(X.DEFAULT_KEYS))]
    for name, extra, keys in shapes:
        g = {"nodes": [[n, dict(a, **extra)] for n, a in base["nodes"]], "edges": base["edges"]}
        cases.append(dict(kind="s-raw", S=g, keys=keys, sraw=True, name="store/raw/%s" % name))
    return cases


def gen_api(rng, tier):
    """reaction DICTS through context_extraction / paralle_context_extraction (key options, key order, an existing / the same context key,
    missing ITS key, non-graph value), find_nearest_neighbors called directly with any start atoms (also atoms that are not in the graph,
    n_knn <= 0), extract_k with n_knn < -1"""
    q = tier == "quick"
    cases = []
    pool = [c["I"] for c in gen_random_its(rng, 80 if q else 300, "its-rand", maxn=8)]
    for g in pool:
        for e in g["edges"]:
            e[2].pop("is_mtg", None)

    def one_dict(ik):
        ents = [[ik, {"its": rng.choice(pool)}]]
        for key in rng.sample(["id", "note", "K", "ctx", "R-id", "its2"], rng.randint(0, 3)):
            ents.append([key, {"its": rng.choice(pool)} if key == "its2" or rng.random() < 0.15 else rng.randint(-3, 99)])
        rng.shuffle(ents)
        return ents
    for _ in range(150 if q else 800):
        ik = rng.choice(("ITS", "ITS", "its", "G"))
        D = one_dict(ik)
        z = rng.random()
        ck = rng.choice(("K", "K", "ctx", "id")) if z < 0.85 else (ik if z < 0.93 else rng.choice([e[0] for e in D]))
        c = dict(kind="api-dict", api=True, D=D, its_key=ik, ctx_key=ck, k=rng.choice((0, 1, 1, 2, 3, -1, -2)), style=rng.choice(("kw", "pos", "default")))
        z = rng.random()
        if z < 0.08:
            c["its_key"] = "missing"
        elif z < 0.14:
            ints = [e[0] for e in D if not isinstance(e[1], dict)]
            if ints:
                c["its_key"] = rng.choice(ints)
        if c["k"] == -1:
            c["D"] = [[key, ({"its": X.canon(v["its"])} if isinstance(v, dict) else v)] for key, v in D]
        cases.append(c)
    for _ in range(40 if q else 200):
        ik = rng.choice(("ITS", "its"))
        Ds = [one_dict(ik) for _ in range(rng.randint(0, 3))]
        if Ds and rng.random() < 0.15:
            Ds[rng.randrange(len(Ds))] = [["id", 3]]
        cases.append(dict(kind="api-dicts", api=True, Ds=Ds, its_key=ik, ctx_key=rng.choice(("K", "ctx", ik)), k=rng.choice((0, 1, 2)), style=rng.choice(("kw", "pos"))))
    for _ in range(120 if q else 600):
        g = rng.choice(pool)
        ids = [n for n, _ in g["nodes"]]
        seeds = rng.sample(ids, rng.randint(0, min(3, len(ids))))
        if rng.random() < 0.25:
            seeds.insert(rng.randint(0, len(seeds)), rng.choice((77, 1000, 0)))
        if seeds and rng.random() < 0.2:
            seeds.append(seeds[0])
        ks = rng.sample([-2, -1, 0, 1, 2, 3, 5], 3)
        cases.append(dict(kind="api-nn", api=True, I=g, nn=seeds, ks=ks))
    for _ in range(150 if q else 800):
        cases.append(dict(kind="api-steps", api=True, steps=True, X=X.canon(X.rand_x(rng, rng.randint(2, 9))), keys=list(rng.choice(X.KEY_CHOICES)), keep=rng.random() < 0.5))
    for g in X.gen_x_exhaustive():
        if len(g["nodes"]) == 2 and rng.random() < (0.25 if q else 1.0):
            cases.append(dict(kind="api-steps", api=True, steps=True, X=X.canon(g), keys=list(rng.choice(X.KEY_CHOICES)), keep=rng.random() < 0.5))
    cases.append(dict(kind="api-truth", api=True, truth=True, name="api/truth-tables"))
    # compare_graphs (its_decompose.py): a graph against a re-ordered copy with at most one difference, under PRNG attribute selections
    sel_pool = [(list(ALL_NODE_ATTRS), list(ALL_EDGE_ATTRS)), (["element", "aromatic", "hcount", "charge", "neighbors"], ["order"]), ([], []), (["element"], ["standard_order"]),
                (["typesGH", "no_such"], ["is_mtg", "order"]), (["atom_map", "charge"], ["order", "standard_order"]), (["neighbors", "hcount", "aromatic"], ["is_mtg"])]
    for _ in range(200 if q else 1000):
        g = X.rand_x(rng, rng.randint(2, 7)) if rng.random() < 0.8 else rng.choice(pool)
        h, what = _perturb(rng, g)
        cases.append(dict(kind="api-cmp", api=True, X=g, Y=h, what=what, sels=[rng.choice(sel_pool) for _ in range(3)], defaults=rng.random() < 0.5))
    for c in gen_random_its(rng, 60 if q else 300, "its-rand", maxn=9):
        cases.append(dict(kind="help-neg", I=c["I"], helpers=[rng.choice((-2, -3, -17)), 0, 1]))
    return cases


def gen_cases(tier, rng):
    exh = gen_exhaustive_its()
    cases = list(exh)
    q = tier == "quick"
    cases += gen_random_its(rng, 450 if q else 4000, "its-rand")
    cases += gen_random_its(rng, 300 if q else 2000, "its-incons")
    cases += gen_random_its(rng, 200 if q else 1000, "its-toplevel")
    cases += gen_pairs(rng, tier)
    cases += gen_corpus(rng, 40 if q else None, 1 if q else 2)
    cases += gen_options(rng, tier)
    cases += gen_helpers(rng, tier, [c for c in exh if c["kind"] == "its-exh"])
    cases += gen_ia(rng, tier)
    cases += gen_corpus_ext(rng, 30 if q else None)
    cases += gen_big(rng, tier)
    cases += gen_histories(rng, tier)
    cases += gen_wrappers(rng, tier)
    cases += gen_degenerate()
    cases += gen_huge(rng, tier)
    cases += gen_store(rng, tier)
    cases += gen_api(rng, tier)
    return cases
