"""C02 — reaction centre = changed bonds (+ H-H bonds); radius-k context = atoms within k bonds; monotone chain.

case kinds
  {"kind": "its-exh"|"its-exh15"|"its-rand"|"its-incons"|"its-toplevel"|"regress", "I": <json ITS graph>, "pi": {old: new}?}
  {"kind": "pair-exh1"|"pair-exh2"|"pair-rand", "G": ..., "H": ...}            ITS = ITSGraph(G, H)
  {"kind": "corpus"|"rw-renum"|..., "rsmi": "...", "orig": "..."?}             ITS = rsmi_to_its(rsmi)
Observable: centre (nodes with attributes, edges with order pair and standard_order), the centre of the centre,
node set and edge set of extract_k(ITS, k) for k = 0..3, the full radius-1 context with attributes.
"""
import itertools

from ..gen import c01_enc as E
from ..gen import c01_rsmi as R
from . import C01 as P1

PID = "C02"
COQ_HEADER = ("From Coq Require Import List NArith ZArith.\nFrom SK Require Import lib.Tok lib.LGraph model.C01_Model model.C02_Model.\n"
              "Import ListNotations.\nOpen Scope Z_scope.\n")
SHARD = 400
IMPL_TIMEOUT = 1500
COQ_TIMEOUT = 900
RULE = ("ITS graphs (synthetic, ITSGraph of synthetic pairs, rsmi_to_its of corpus reactions and rewritings), radii 0..3; "
        "non-trivial = standard_order consistent ITS whose centre is non-empty and strictly smaller than the ITS; "
        "distinct = distinct case inputs")
EXHAUSTIVE = {"quick": True, "thorough": True}
EXPLANATION = ("Exhaustive sub-space (both tiers): ALL ITS graphs on 1..3 nodes over top-level element in {C,H} and per-pair state in "
               "{absent} + ({0,1,2}^2 minus (0,0)) (2 + 36 + 5832 graphs, standard_order = difference), and all 2-node ITS graphs over orders "
               "{0,1,1.5,2}; ITS of all 32 one-node pairs of C01's alphabet.  Sampled: C01's two-node pair scope (quick: PRNG sample, "
               "thorough: all 16384), random tree-like ITS graphs up to 10 nodes, ITS graphs whose standard_order is NOT the difference "
               "(as the additive glue branch of the reactor can produce), ITS graphs whose top-level element differs from typesGH, corpus "
               "reactions with renumbering / re-rooting / fragment shuffle / reversal.  Theorems: centre edges = changed or H-H bonds, centre "
               "nodes = their endpoints with the selected ITS labels, idempotence, equivariance, context = distance ball + induced subgraph, chain.")
TRUSTED_BASE = [
    "Coq 8.16.1 kernel + vm_compute (no native_compute); stdlib only",
    "hand-written models coq/model/C02_Model.v (get_rc, find_nearest_neighbors, extract_k) and C01_Model.v (ITS datatypes, its_construct) "
    "tied to synkit/Graph/ITS/its_decompose.py and synkit/Graph/Context/radius_expand.py by the per-run correspondence",
    "harness encoders harness/gen/c01_enc.py (nx ITS graph -> Gallina literal, half-unit orders, element interning; attributes -> tok)",
    "networkx Graph.subgraph / neighbors semantics",
    "rsmi_to_its(core=...) for corpus cases goes through RDKit + MolToGraph (C01's modelled-not-verified half) before the graphs reach the model",
]
ASSUMPTIONS = [
    "ITS nodes carry element, charge, atom_map, typesGH (and either all or none of aromatic/hcount/neighbors); edges carry order=(a,b) and a numeric standard_order",
    "the property's 'order differs' is identified with 'standard_order != 0' only on ITS graphs where standard_order = order_G - order_H "
    "(std_consistent: proved for every output of ITSGraph, C01_union); on other graphs only the model/implementation correspondence is checked",
    "get_rc with default arguments (disconnected=False, keep_mtg=False); extract_k with n_knn >= 0 (n_knn = -1 is not modelled)",
]
TESTED_NOT_PROVED = [
    "isomorphic centres under atom-map renumbering of a reaction STRING (through rsmi_to_its): oracle on every renumbered corpus case; "
    "the graph-level statement is theorem C02_rc_equivariant",
    "radii beyond 3 are covered by the theorems (all k) but not by the correspondence",
]
LEVEL_TEXT = ("Machine-checked proof (Coq) over an executable model of get_rc and RadiusExpand.extract_k: on every well-formed ITS graph whose "
              "standard_order is the order difference the centre contains a bond iff its two orders differ or both atoms are hydrogens, contains "
              "exactly the endpoints of these bonds with the ITS labels (element, charge, typesGH, atom_map), get_rc is idempotent and commutes "
              "with every injective renumbering; for every k >= 1 the radius-k context is the induced subgraph on exactly the atoms at distance "
              "<= k from the centre, and centre within context(1) within context(2) ... within ITS. The model is compared with the Python code "
              "on every run (exhaustive <= 3-node scope, random and inconsistent ITS graphs, corpus reactions and rewritings, radii 0..3).")
LEVEL_NOTE = ("ITS graphs with standard_order != order difference are outside the theorems' hypothesis (std_consistent) and are checked by "
              "correspondence only; the RDKit front end used to obtain corpus ITS graphs is C01's monitored oracle.")


def worker_init():
    import logging
    logging.disable(logging.CRITICAL)


# ------------------------------------------------------------------ the ITS of a case

def _its_nx(case):
    """-> networkx ITS or None"""
    if "I" in case:
        return E.to_nx(case["I"])
    from synkit.Graph.ITS.its_construction import ITSConstruction
    gh = P1._graphs_nx(case)
    if gh is None:
        return None
    return ITSConstruction.ITSGraph(*gh)


RADII = (0, 1, 2, 3)


def impl(case):
    from synkit.Graph.ITS.its_decompose import get_rc
    from synkit.Graph.Context.radius_expand import RadiusExpand
    from ..tok import S
    I = _its_nx(case)
    if I is None:
        return ["unparsable"]
    rc = get_rc(I)
    ctx = [RadiusExpand.extract_k(I, k) for k in RADII]
    return [E.obs_its(rc), E.obs_its(get_rc(rc)),
            [[S(sorted(c.nodes)), S([[min(u, v), max(u, v)] for u, v in c.edges])] for c in ctx],
            E.obs_its(ctx[1])]


def coq_case(case):
    worker_init()
    try:
        if "I" in case:
            return "run %s" % E.coq_its(case["I"])
        gh = P1._graphs_nx(case)
        if gh is None:
            return None
        return "run_pair %s %s" % (E.coq_mgraph(E.from_nx(gh[0])), E.coq_mgraph(E.from_nx(gh[1])))
    except (KeyError, TypeError, ValueError):
        return None


# ------------------------------------------------------------------ property oracle (plain sets, BFS)

def proper_its(I):
    """precondition of the property clauses: every edge has a numeric order pair and standard_order = difference,
    every node has the four labels and its top-level element is the reactant-side element of typesGH."""
    for n, d in I.nodes(data=True):
        if any(k not in d for k in ("element", "charge", "typesGH", "atom_map")):
            return False
        if d["typesGH"][0][0] != d["element"]:
            return False
    for u, v, d in I.edges(data=True):
        o = d.get("order")
        if not isinstance(o, (tuple, list)) or len(o) != 2 or "standard_order" not in d:
            return False
        if d["standard_order"] != o[0] - o[1]:
            return False
    return True


LABELS = ("element", "charge", "typesGH", "atom_map")


def _same_edge_attrs(d1, d2):
    return tuple(d1.get("order")) == tuple(d2.get("order")) and d1.get("standard_order") == d2.get("standard_order")


def centre_clauses(I):
    from synkit.Graph.ITS.its_decompose import get_rc
    from synkit.Graph.Context.radius_expand import RadiusExpand
    fails = []
    rc = get_rc(I)
    el = {n: d["element"] for n, d in I.nodes(data=True)}
    want = {}
    for u, v, d in I.edges(data=True):
        if d["order"][0] != d["order"][1] or (el[u] == "H" and el[v] == "H"):
            want[frozenset((u, v))] = d
    got = {frozenset((u, v)): d for u, v, d in rc.edges(data=True)}
    if set(got) != set(want):
        fails.append(dict(clause="centre-bonds", detail="centre bonds %r, changed-or-HH bonds %r"
                          % (sorted(map(sorted, got)), sorted(map(sorted, want)))))
    else:
        for k in got:
            if not _same_edge_attrs(got[k], want[k]):
                fails.append(dict(clause="centre-bond-labels", detail="bond %r: centre %r, ITS %r" % (sorted(k), got[k], want[k])))
                break
    ends = {x for k in want for x in k}
    if set(rc.nodes) != ends:
        fails.append(dict(clause="centre-atoms", detail="centre atoms %r, endpoints of the centre bonds %r" % (sorted(rc.nodes), sorted(ends))))
    else:
        for n in rc.nodes:
            for k in LABELS:
                if k not in rc.nodes[n] or rc.nodes[n][k] != I.nodes[n][k]:
                    fails.append(dict(clause="centre-atom-labels", detail="atom %r label %s: centre %r, ITS %r"
                                      % (n, k, rc.nodes[n].get(k, "<absent>"), I.nodes[n][k])))
                    break
    # idempotence
    rc2 = get_rc(rc)
    if (set(rc2.nodes) != set(rc.nodes) or any(rc2.nodes[n] != rc.nodes[n] for n in rc.nodes)
            or {frozenset(e) for e in rc2.edges} != {frozenset(e) for e in rc.edges}
            or any(not _same_edge_attrs(rc2.edges[e], rc.edges[e]) for e in rc.edges)):
        fails.append(dict(clause="centre-idempotent", detail="get_rc(get_rc(I)) differs from get_rc(I)"))
    # context = ball of radius k (independent BFS on plain sets), induced subgraph, chain
    adj = {n: set() for n in I.nodes}
    for u, v in I.edges:
        adj[u].add(v)
        adj[v].add(u)
    ball = set(rc.nodes)
    prev_nodes, prev_edges = None, None
    for k in RADII:
        if k > 0:
            ball = ball | {m for x in ball for m in adj[x]}
        ctx = RadiusExpand.extract_k(I, k)
        nodes = set(ctx.nodes)
        edges = {frozenset(e) for e in ctx.edges}
        if nodes != ball:
            fails.append(dict(clause="context-atoms", detail="radius %d: context atoms %r, atoms within %d bonds of the centre %r"
                              % (k, sorted(nodes), k, sorted(ball))))
            break
        if k == 0:
            if edges != set(got):
                fails.append(dict(clause="context-0", detail="context(0) is not the centre"))
        else:
            ind = {frozenset((u, v)) for u, v in I.edges if u in ball and v in ball}
            if edges != ind or any(not _same_edge_attrs(ctx.edges[tuple(e)], I.edges[tuple(e)]) for e in edges) \
                    or any(ctx.nodes[n] != I.nodes[n] for n in nodes):
                fails.append(dict(clause="context-induced", detail="radius %d: context is not the induced subgraph of the ITS" % k))
        if prev_nodes is not None and not (prev_nodes <= nodes and prev_edges <= edges):
            fails.append(dict(clause="context-chain", detail="context(%d) is not within context(%d)" % (k - 1, k)))
        prev_nodes, prev_edges = nodes, edges
    if prev_nodes is not None and not (prev_nodes <= set(I.nodes) and prev_edges <= {frozenset(e) for e in I.edges}):
        fails.append(dict(clause="context-chain", detail="context(3) is not within the ITS"))
    return fails, rc


def _tup(x):
    return tuple(_tup(y) for y in x) if isinstance(x, (list, tuple)) else x


def _strip(d):
    """node label without the numbering: element, charge, typesGH"""
    return (d.get("element"), d.get("charge"), _tup(d.get("typesGH", ())))


def _iso_centres(rc1, rc2, pi=None):
    import networkx as nx
    if pi is not None:
        ok = set(rc2.nodes) == {pi[n] for n in rc1.nodes} and all(_strip(rc1.nodes[n]) == _strip(rc2.nodes[pi[n]]) for n in rc1.nodes) \
            and {frozenset((pi[u], pi[v])) for u, v in rc1.edges} == {frozenset(e) for e in rc2.edges} \
            and all(_same_edge_attrs(rc1.edges[u, v], rc2.edges[pi[u], pi[v]]) for u, v in rc1.edges)
        if ok:
            return True
    return nx.is_isomorphic(rc1, rc2, node_match=lambda a, b: _strip(a) == _strip(b), edge_match=_same_edge_attrs)


def oracle(case):
    from synkit.Graph.ITS.its_decompose import get_rc
    I = _its_nx(case)
    if I is None or not proper_its(I):
        return []
    fails, rc = centre_clauses(I)
    # renumbering the atom maps yields an isomorphic centre
    if "pi" in case:
        import networkx as nx
        pi = {int(k): v for k, v in case["pi"].items()}
        J = nx.relabel_nodes(I, pi, copy=True)
        for n, d in J.nodes(data=True):
            d["atom_map"] = n
        if not _iso_centres(rc, get_rc(J), pi):
            fails.append(dict(clause="centre-renumbering", detail="centre of the renumbered ITS is not isomorphic to the centre; pi=%r" % pi))
    if case.get("kind") == "rw-renum" and "orig" in case:
        I0 = _its_nx(dict(rsmi=case["orig"]))
        if I0 is not None and proper_its(I0) and not _iso_centres(get_rc(I0), rc):
            fails.append(dict(clause="centre-renumbering", detail="centre of the renumbered reaction is not isomorphic to the centre of %r" % case["orig"]))
    return fails[:3]


def nontrivial(case, obs):
    I = _its_nx(case)
    if I is None or not proper_its(I):
        return False
    n_rc = len(obs[0][0]["__set__"])
    return 0 < n_rc < I.number_of_nodes()


def distribution(cases, obss):
    sizes, rcs, grow, hh, incons, empty = {}, {}, 0, 0, 0, 0
    for c, o in zip(cases, obss):
        if not (isinstance(o, list) and len(o) == 4):
            sizes["unparsable"] = sizes.get("unparsable", 0) + 1
            continue
        nrc = len(o[0][0]["__set__"])
        rcs[str(min(nrc, 8))] = rcs.get(str(min(nrc, 8)), 0) + 1
        ks = [len(x[0]["__set__"]) for x in o[2]]
        key = str(ks[-1]) if ks[-1] <= 9 else ("10-29" if ks[-1] < 30 else "30+")
        sizes[key] = sizes.get(key, 0) + 1
        if ks[3] > ks[2] > ks[1] > ks[0]:
            grow += 1
        if nrc == 0:
            empty += 1
        if any(e[4] == 0 for e in o[0][1]["__set__"]):
            hh += 1
        if any(e[4] != e[2] - e[3] for e in o[0][1]["__set__"]):
            incons += 1
    return dict(context3_sizes=sizes, centre_sizes=rcs, strictly_growing_to_radius_3=grow, centre_with_unchanged_HH_bond=hh,
                centre_with_inconsistent_standard_order=incons, empty_centre=empty)


def shrink(case, fl):
    if "I" not in case:
        return case
    cur = case
    changed = True
    while changed:
        changed = False
        for n in [x[0] for x in cur["I"]["nodes"]]:
            cand = dict(cur, I={"nodes": [x for x in cur["I"]["nodes"] if x[0] != n],
                                "edges": [e for e in cur["I"]["edges"] if n not in e[:2]]})
            cand.pop("pi", None)
            try:
                if oracle(cand):
                    cur = dict(cand, name=case.get("name", "") + "(shrunk)")
                    changed = True
                    break
            except Exception:
                pass
    return cur


# ------------------------------------------------------------------ generators

def its_node(i, el, tg=None, th=None, ch=0, extras=False, amap=None):
    tg = tg if tg is not None else [el, False, 0, 0, []]
    th = th if th is not None else [el, False, 0, 0, []]
    a = {"element": el, "charge": ch, "atom_map": i if amap is None else amap, "typesGH": [tg, th]}
    if extras:
        a.update(aromatic=tg[1], hcount=tg[2], neighbors=list(tg[4]))
    return a


def its_edge(a, b, std=None):
    return {"order": [a, b], "standard_order": (a - b) if std is None else std}


def gen_exhaustive_its():
    cases = []
    states = [None] + [(a, b) for a in (0, 1, 2) for b in (0, 1, 2) if (a, b) != (0, 0)]
    for n in (1, 2, 3):
        pairs = [(i, j) for i in range(1, n + 1) for j in range(i + 1, n + 1)]
        for els in itertools.product(E.ELEMS2, repeat=n):
            for st in itertools.product(states, repeat=len(pairs)):
                g = {"nodes": [[i + 1, its_node(i + 1, els[i])] for i in range(n)],
                     "edges": [[u, v, its_edge(*s)] for (u, v), s in zip(pairs, st) if s is not None]}
                cases.append(dict(kind="its-exh", I=g))
    st15 = [(a, b) for a in (0, 1, 1.5, 2) for b in (0, 1, 1.5, 2) if (a, b) != (0, 0)]
    for els in itertools.product(E.ELEMS2, repeat=2):
        for s in st15:
            cases.append(dict(kind="its-exh15", I={"nodes": [[2, its_node(2, els[0], extras=True)], [1, its_node(1, els[1], extras=True)]],
                                                   "edges": [[2, 1, its_edge(*s)]]}))
    return cases


def _rand_its(rng, n, kind):
    ids = rng.sample(range(0, 40), n)
    els = [rng.choice(("C", "C", "H", "H", "O", "N")) for _ in range(n)]
    nodes = []
    extras = rng.random() < 0.5
    for i, el in zip(ids, els):
        tg = [el, rng.random() < 0.2, rng.choice((0, 1, 2)), rng.choice((0, 0, 1, -1)), sorted(rng.choice(("C", "H", "O")) for _ in range(rng.randint(0, 3)))]
        th = [el, rng.random() < 0.2, rng.choice((0, 1, 2)), rng.choice((0, 0, 1, -1)), list(tg[4])]
        top = el
        if kind == "its-toplevel" and rng.random() < 0.4:
            top = rng.choice(("C", "H", "*"))
        a = its_node(i, el, tg, th, ch=tg[3], extras=extras, amap=i if rng.random() < 0.9 else rng.randint(0, 50))
        a["element"] = top
        nodes.append([i, a])
    # tree-like skeleton (long paths make radius 3 matter) + a few chords
    have = {}
    order = list(range(n))
    rng.shuffle(order)
    for k in range(1, n):
        if rng.random() < 0.92:
            j = order[rng.randrange(max(0, k - 2), k)]
            have[(order[k], j)] = None
    for _ in range(rng.randint(0, 3)):
        i, j = rng.sample(range(n), 2)
        if (i, j) not in have and (j, i) not in have:
            have[(i, j)] = None
    edges = []
    nchg = 0
    for (i, j) in have:
        z = rng.random()
        if z < 0.72:
            a = rng.choice((1, 1, 1.5, 2))
            b = a
        else:
            a, b = rng.choice([(0, 1), (1, 0), (1, 2), (2, 1), (1, 1.5), (1.5, 1), (2, 1.5), (0, 2), (3, 1), (1.5, 2)])
            nchg += 1
        std = None
        if kind == "its-incons" and rng.random() < 0.5:
            std = rng.choice((0, 0, 0.5, -0.5, 1, -1, 2, -2, 1.5))
        e = [ids[i], ids[j], its_edge(a, b, std)]
        if rng.random() < 0.15:
            e[2]["is_mtg"] = False
        edges.append(e)
    rng.shuffle(edges)
    rng.shuffle(nodes)
    return {"nodes": nodes, "edges": edges}


def gen_random_its(rng, count, kind, maxn=10):
    cases = []
    for _ in range(count):
        g = _rand_its(rng, rng.randint(2, maxn), kind)
        c = dict(kind=kind, I=g)
        if rng.random() < 0.5:
            ids = [n for n, _ in g["nodes"]]
            new = rng.sample(range(0, 60), len(ids))
            c["pi"] = {str(a): b for a, b in zip(ids, new)}
        cases.append(c)
    return cases


def gen_pairs(rng, tier):
    cases = []
    small = P1.gen_exhaustive_small(rng)
    ex1 = [c for c in small if c["kind"] == "exh1"]
    ex2 = [c for c in small if c["kind"] == "exh2"]
    if tier == "quick":
        ex2 = rng.sample(ex2, 3000)
    for c in ex1 + ex2:
        cases.append(dict(kind="pair-" + c["kind"], G=c["G"], H=c["H"]))
    for c in P1.gen_random(rng, 500 if tier == "quick" else 6000, maxn=10):
        cases.append(dict(kind="pair-rand", G=c["G"], H=c["H"]))
    for c in P1.gen_malformed(rng, 150 if tier == "quick" else 1500):
        cases.append(dict(kind="pair-malformed", G=c["G"], H=c["H"]))
    return cases


def gen_corpus(rng, n_sample, n_rewrites):
    corpus = R.load_corpus()
    good = [(s, i, r) for s, i, r in corpus if R.well_formed(r)]
    if n_sample is None:
        chosen = good
    else:
        us = [x for x in good if x[0] == "uspto"]
        ec = [x for x in good if x[0] == "ecoli"]
        chosen = rng.sample(us, n_sample // 2) + rng.sample(ec, n_sample - n_sample // 2)
    cases = []
    for s, i, r in chosen:
        cases.append(dict(kind="corpus", rsmi=r, src="%s#%d" % (s, i)))
        for kind in R.REWRITES:
            for k in range(n_rewrites if kind != "rev" else 1):
                try:
                    cases.append(dict(kind="rw-" + kind, rsmi=R.rewrite(r, kind, rng), orig=r, src="%s#%d" % (s, i)))
                except Exception:
                    pass
    return cases


def gen_cases(tier, rng):
    cases = gen_exhaustive_its()
    q = tier == "quick"
    cases += gen_random_its(rng, 900 if q else 12000, "its-rand")
    cases += gen_random_its(rng, 500 if q else 6000, "its-incons")
    cases += gen_random_its(rng, 200 if q else 2000, "its-toplevel")
    cases += gen_pairs(rng, tier)
    cases += gen_corpus(rng, 40 if q else None, 1 if q else 2)
    return cases
