"""C12 -- maximum common subgraph results are valid and of maximum size.

case = {"kind": str, "variant": "matcher" | "mtg", "g1": graph, "g2": graph, "mcs": bool,
        "node_attrs": [str, ...], "node_defaults": [value, ...], "edge_attrs": [str, ...],
        "prune_wc": bool, "prune_auto": bool,
        "implicit": bool (optional: constructor arguments equal to the documented defaults are omitted, see _ctor_args)}
graph = {"nodes": [[id, {attr: value}], ...], "edges": [[u, v, {attr: value}], ...]}   (harness/gen/graphs.py)

Observable ("matcher" = synkit/Graph/Matcher/mcs_matcher.py, "mtg" = synkit/Graph/MTG/mcs_matcher.py):
  [pattern_is_G1, last_size, #GraphMatcher instances built (= k-subsets tried),
   mappings pattern->host (ORDERED list of dicts), mappings G1->G2, mappings G2->G1]
  (mtg: [last_size, #subsets, mappings]).
With prune_automorphisms the kept representative depends on VF2's enumeration order, which is not modelled:
such cases are outside the model's domain and seen by the oracle only.
"""
import itertools

from ..coqrun import cN, cZ, cbool, clist, cpair, copt
from ..tok import S
from ..gen import graphs as G

PID = "C12"
COQ_HEADER = "From Coq Require Import List NArith ZArith.\nImport ListNotations.\nFrom SK Require Import lib.Tok lib.LGraph model.C12_Model model.C12_Trace model.C12_Check model.C12_CheckMtg model.C12_State.\n"
SHARD = 250
IMPL_TIMEOUT = 1500
COQ_TIMEOUT = 1500

RULE = ("pairs of labelled graphs (elements, charges, bond orders incl. 1.5 and missing ones, optional wildcard nodes) x "
        "{all-sizes, maximum} mode x {Matcher, MTG} variant; non-trivial = both graphs have >= 2 nodes, are not label-identical "
        "copies with identical ids, and the result contains a mapping of size >= 2; distinct = distinct (graphs, mode, variant, config)")
EXHAUSTIVE = {"quick": True, "thorough": False}
EXPLANATION = ("quick: ALL ordered pairs of isomorphism-class representatives on <= 3 nodes over the alphabet {C,O} x bond "
               "{absent,1,2} (67 x 67 pairs) in maximum mode and the pairs on <= 2 nodes in all-sizes mode are enumerated completely "
               "(that finite sub-space is exhaustive); plus seeded random pairs up to 6x7 nodes with planted common parts, relabelled "
               "copies, disconnected graphs, first-graph-larger pairs, wildcard pruning, two-attribute labels, missing attributes "
               "(MTG copy: also on both sides since the repair 24a0150), low-overlap pairs on >= 4 nodes whose common part has 1-2 atoms, "
               "copies with default-valued labels spelled differently (absent / written out), constructor defaults taken by omission. "
               "thorough: the same plus a seeded sample of ordered pairs on <= 4 nodes (772 classes) and 10x random.")
TRUSTED_BASE = [
    "Coq 8.16.1 kernel + vm_compute (no native_compute)",
    "hand-written model coq/model/C12_Model.v tied to synkit/Graph/Matcher/mcs_matcher.py and synkit/Graph/MTG/mcs_matcher.py "
    "by the per-run correspondence (ordered mapping lists, last_size, orientation flag, number of k-subsets tried, all three directions)",
    "networkx VF2 GraphMatcher.subgraph_isomorphisms_iter returns, for every k-subset of the pattern, the same SET of label-preserving "
    "induced sub-graph isomorphisms as the verified enumerator lib/Mono.v (theorem C12_vf2_premise: the search depends on the enumerator "
    "only through these sets; monitored: ordered result lists compared on every case)",
    "harness encoders harness/props/C12.py (attribute interning, half-unit bond orders)",
]
ASSUMPTIONS = ["node ids are distinct ints; no self-loops; simple undirected graphs",
               "component-wise mode: ties between equally large components are broken by the node order of the (pruned) graph; when "
               "prune_wc removes more than half of the atoms networkx iterates the pruned copy in Python-set order -- the encoder hands "
               "the graph to the model in that order (_nx_prune_order)",
               "node attribute values compared are str or int (interned injectively); bond orders are numeric half-integers or missing",
               "MTG variant: since the repair /repo 24a0150 its edge matcher agrees with the Matcher copy on one attribute (a missing order matches only a missing order, a non-numeric value only itself); two-sided gaps are generated again (mtg-gaps)"]
TESTED_NOT_PROVED = ["prune_automorphisms=True: WHICH mapping represents a host node set is VF2's choice (first in its enumeration order). Since "
                     "round 4/5 the choice is an INPUT of the model (computed by the harness from networkx alone -- on graph objects edited in "
                     "place by replaying the caller's edits -- and validated by apply_choices): single calls and find_common_subgraph steps of "
                     "histories compare the full returned lists (C12_prune_auto_choices, C12_history_prune_auto); together with component mode "
                     "or the its facade only orientation, size, subsets tried and the SET of represented host node sets (run_matcher_auto) or "
                     "nothing (component mode: outside the model, oracle only)",
                     "mcs_mol: WHICH isomorphism maps a matched component onto its partner is VF2's choice. Since round 5 the combined mapping is an "
                     "INPUT of the model (from networkx alone, replayed edits included), validated against the model's own greedy component "
                     "pairing with the decision procedure ci_check (C12_ci_check_decides, C12_mcs_mol_choice_valid, C12_history_mcs_mol, "
                     "C12_facade_mcs_mol): the full mapping is compared",
                     "its_decompose (synkit.Graph.ITS, not anchored): the four sides are inputs of the model, computed by the generator independently",
                     "__repr__ / help / __iter__ of the matcher objects: checked by the adapter against the stored result after every step"]
LEVEL_TEXT = ("Machine-checked proof (Coq, 58 theorems in coq/props/C12.v, all closed under the global context) over an executable model "
              "of MCSMatcher._search_subgraphs / _prune_graph / _prepare_orientation / find_common_subgraph / get_mappings (both copies of "
              "the matcher), for all pairs of graphs with distinct node ids: every returned mapping (both modes, all three directions, after "
              "orientation swap and wildcard pruning) is a function, injective, label-preserving, and preserves presence AND order of every "
              "bond between mapped atoms both ways (C12_valid, C12_valid_original); in maximum mode all mappings have size last_size, NO "
              "common induced mapping is larger, and every one of that size is returned up to the order of its pairs (C12_maximum; "
              "all-sizes mode: exactly the non-empty common induced mappings, C12_all_sizes); non-empty iff some atom pair matches; "
              "G1->G2 and G2->G1 answers are position-wise mutually inverse (C12_directions_inverse); exchanging the arguments gives the "
              "same size and the same answers (C12_orientation_swap: equal lists for different sizes; C12_orientation_general: up to pair "
              "order for equal sizes); no mapping is returned twice and the list is sorted by (-size, sorted items) (C12_sorted); the combined mapping "
              "of component-wise mode (find_rc_mapping component=True: components by reachability closure, stable size sort, pairwise search) is a "
              "common induced mapping also across components (C12_component_valid). The level-by-level search is related to the verified enumerator "
              "lib/Mono.v (induced) by C12_level_exact; the dependence on networkx VF2 is the explicit premise of C12_vf2_premise (same "
              "result SET per k-subset). Round 5: the matcher OBJECT is a state machine in the model (model/C12_State.v: constructor normalisation, "
              "attribute selection on the raw dictionaries incl. values float() rejects, cache with the unknown-direction state, ITS facade): "
              "C12_history_independent (a search never looks at the cache), C12_history_valid / C12_history_valid_raw (the property after ANY "
              "history of calls on one object, the latter stated on the caller's raw graphs with the object's options incl. wildcard pruning), C12_reads_inverse, C12_state_unknown, C12_facade_sides, C12_history_component_valid, C12_ctor_normalised, C12_raw_matchers, "
              "C12_raw_meaning; C12_search_trace (per GraphMatcher object: k-subset and number of isomorphisms, compared with the instrumented "
              "implementation on every plain search); C12_history_prune_auto, C12_ci_check_decides / C12_mcs_mol_choice_valid / C12_history_mcs_mol "
              "(the two VF2-order dependent modes with VF2's choices as validated inputs); C12_keyword_defaults (wave 4: the calls as the caller wrote "
              "them, every omitted keyword argument takes its own default, dispatch order of the two bodies). Model and code are compared on every run (ordered lists, sizes, subset counts, every read of every history).")
LEVEL_NOTE = ("Trusted: Coq kernel + vm_compute; the hand-written model and encoders; networkx VF2 returns, for every k-subset, the same set of "
              "induced sub-graph isomorphisms as the verified enumerator (C12_vf2_premise states that nothing else about VF2 matters; "
              "monitored: ordered result lists compared on every case); in component-wise mode with pruning the node order of networkx's pruned copy "
              "(Python-set order when fewer than half of the atoms survive) is an input of the model. Not modelled, oracle only: "
              "the representative kept by prune_automorphisms and the isomorphism chosen inside a matched pair of mcs_mol (VF2's first result; the "
              "order-independent parts of both modes are modelled). last_size in all-sizes mode = size of the smallest returned mapping (C12_last_size_all_sizes). "
              "Histories on reused matcher objects (Matcher copy) run through the state-machine model (h_play); MTG histories are compared "
              "step by step with the pure model. its_decompose is external (the four sides are inputs of the model).")
TECHNIQUE = ("Coq proof about a structure-following Gallina model (loop invariants of the size-descending search, refinement to the "
             "verified enumerator Mono.monos via an order-free reading of Mono.valid, transport through inversion for the orientation swap) "
             "+ per-run correspondence by vm_compute + independent brute-force oracle")

ELEM_KEY = "element"
WILDCARD = "*"


def _ek(case):
    return case.get("element_key", ELEM_KEY)


def _wc(case):
    return case.get("wildcard", WILDCARD)


# ------------------------------------------------------------------ implementation adapter

class _Count:
    n = 0
    trace = []        # round 5: per GraphMatcher object whose subgraph_isomorphisms_iter() was exhausted: [pattern subset, #yields]


def _patched(modname):
    """Module object with GraphMatcher replaced by a counting subclass (idempotent)."""
    import importlib
    mod = importlib.import_module(modname)
    if not getattr(mod.GraphMatcher, "_c12_counting", False):
        base = mod.GraphMatcher

        class CountingGM(base):
            _c12_counting = True

            def __init__(self, *a, **k):
                _Count.n += 1
                super().__init__(*a, **k)

            def subgraph_isomorphisms_iter(self):
                n = 0
                for m in super().subgraph_isomorphisms_iter():
                    n += 1
                    yield m
                _Count.trace.append([S(sorted(int(x) for x in self.G2.nodes)), n])
        mod.GraphMatcher = CountingGM
    return mod


def _dicts(ms):
    return [S([[int(k), int(v)] for k, v in m.items()]) for m in ms]


def _ctor_args(case):
    """Constructor arguments.  With case["implicit"] every argument whose value is the DOCUMENTED default (node attrs ["element"],
    defaults ["*"] per attribute, edge attribute "order") is left out (None), so the defaulting paths of __init__ are exercised;
    the case still records the effective configuration, which is what model and oracle use."""
    na, nd, ea = list(case["node_attrs"]), list(case["node_defaults"]), list(case["edge_attrs"])
    if case.get("passed") is not None:
        # round 5: the arguments are given literally (None = omitted, [] = empty list); node_attrs / node_defaults / edge_attrs of
        # the case still record the EFFECTIVE configuration (what oracle and old-style model terms use)
        ps = case["passed"]
        return ps.get("node_attrs"), ps.get("node_defaults"), ps.get("edge_attrs")
    if case.get("implicit"):
        if nd == ["*"] * len(na):
            nd = None
        if na == ["element"] and nd is None:
            na = None
        if ea == ["order"]:
            ea = None
    return na, nd, ea


def _wc_kw(case):
    kw = {}
    if "wildcard" in case:
        kw["wildcard_element"] = case["wildcard"]
    if "element_key" in case:
        kw["element_key"] = case["element_key"]
    return kw


def _kw(minimal, defaults, **given):
    """Keyword arguments of a call; with `minimal` every argument whose value equals the signature default is OMITTED, so each
    optional argument is also supplied alone / in pairs and every default value of every entry point is exercised (wave 4)."""
    if not minimal:
        return given
    return {k: v for k, v in given.items() if not (k in defaults and type(v) is type(defaults[k]) and v == defaults[k])}


_FCS_DEF = {"mcs": False, "mcs_mol": False}
_RC_DEF = {"side": "op", "mcs": True, "mcs_mol": False, "component": True}
_RC_DEF_MTG = {"mcs": False, "mcs_mol": False}
_CTOR_DEF = {"prune_wc": False, "prune_automorphisms": False, "wildcard_element": "*", "element_key": "element"}


def _run(case):
    g1, g2 = G.to_nx(case["g1"]), G.to_nx(case["g2"])
    _Count.n, _Count.trace = 0, []
    if case["variant"] == "matcher":
        mod = _patched("synkit.Graph.Matcher.mcs_matcher")
        na, nd, ea = _ctor_args(case)
        mn = bool(case.get("minimal"))
        M = mod.MCSMatcher(node_attrs=na, node_defaults=nd, edge_attrs=ea,
                           **_kw(mn, _CTOR_DEF, prune_wc=case.get("prune_wc", False), prune_automorphisms=case.get("prune_auto", False),
                                 **_wc_kw(case)))
        mode = case.get("mode")
        if mode == "mcs_mol":
            M.find_common_subgraph(g1, g2, **_kw(mn, _FCS_DEF, mcs=case["mcs"], mcs_mol=True))
        elif mode == "component":
            M.find_rc_mapping(g1, g2, **_kw(mn, _RC_DEF, side="its", mcs=case["mcs"], component=True))
        else:
            r = M.find_common_subgraph(g1, g2, **_kw(mn, _FCS_DEF, mcs=case["mcs"]))
            assert r is M
        return M, _Count.n
    mod = _patched("synkit.Graph.MTG.mcs_matcher")
    assert len(case["edge_attrs"]) == 1
    na, nd, ea = _ctor_args(case)
    M = mod.MCSMatcher(na, nd, case["edge_attrs"][0]) if ea is not None else mod.MCSMatcher(na, nd)
    extra = {"mcs_mol": True} if case.get("mode") == "mcs_mol" else {}      # wave 4: the MTG copy's own mcs_mol mode
    M.find_common_subgraph(g1, g2, **_kw(bool(case.get("minimal")), _FCS_DEF, mcs=case["mcs"], **extra))
    return M, _Count.n


def _mol_pairs(case, M):
    """mcs_mol: WHICH isomorphism maps a component onto its partner is VF2's choice (judged by the oracle); compared with the
    model: which (pruned) components of G1 are matched with which node sets of G2."""
    ms = M.get_mappings("G1_to_G2")
    m = ms[0] if ms else {}
    lab, adj = _tables(case["g1"], case)
    par = {n: n for n in lab}

    def f(x):
        while par[x] != x:
            x = par[x]
        return x
    for (u, v) in adj:
        par[f(u)] = f(v)
    comps = {}
    for n in lab:
        comps.setdefault(f(n), []).append(n)
    out = []
    for comp in comps.values():
        ks = [n for n in comp if n in m]
        if ks:
            out.append([S(sorted(int(k) for k in ks)), S(sorted(int(m[k]) for k in ks))])
    stray = [k for k in m if k not in lab]
    if stray:
        out.append([S(sorted(int(k) for k in stray)), S(sorted(int(m[k]) for k in stray))])
    return S(out)


def _nx_matchers(case):
    """Node / edge matchers of the effective configuration, built from networkx and plain Python (no synkit)."""
    from networkx.algorithms.isomorphism import generic_node_match
    nm = generic_node_match(list(case["node_attrs"]), list(case["node_defaults"]), [lambda x, y: x == y] * len(case["node_attrs"]))
    names = list(case["edge_attrs"])

    def em(h, p):
        for k in names:
            a, b = h.get(k), p.get(k)
            if a is None and b is None:
                continue
            if a is None or b is None or float(a) != float(b):
                return False
        return True

    def em_mtg(h, p):           # MTG copy: one attribute; missing matches only missing (after repair /repo 24a0150)
        a, b = h.get(names[0]), p.get(names[0])
        if a is None and b is None:
            return True
        return a is not None and b is not None and float(a) == float(b)
    return nm, (em_mtg if case.get("variant") == "mtg" else em)


def _replay_objects(hist, k):
    """The two networkx graph OBJECTS step k of a history is called with, rebuilt by replaying the caller's side of the history
    exactly as _run_history does (fresh graphs, or earlier objects edited in place by _morph) -- without any matcher call.  VF2's
    enumeration order follows the insertion order of nodes AND adjacency entries of the live object; replaying the same sequence
    of insertions / deletions reproduces it."""
    objs = {}
    for j, st in enumerate(hist["steps"][:k + 1]):
        if st.get("call") in _NON_SEARCH or st.get("call") == "rc_side":
            continue
        for side in ("g1", "g2"):
            src = st.get("src_" + side)
            objs[(j, side)] = _morph(objs[tuple(src)], st[side]) if src is not None else G.to_nx(st[side])
    return objs[(k, "g1")], objs[(k, "g2")]


def _nx_graphs(case):
    if case.get("replay") is not None:
        g1, g2 = _replay_objects(*case["replay"])
    else:
        g1, g2 = G.to_nx(case["g1"]), G.to_nx(case["g2"])
    if case.get("prune_wc"):
        g1 = g1.subgraph([n for n, d in g1.nodes(data=True) if d.get(_ek(case)) != _wc(case)]).copy()
        g2 = g2.subgraph([n for n, d in g2.nodes(data=True) if d.get(_ek(case)) != _wc(case)]).copy()
    return g1, g2


def _vf2_first_per_host_set(case):
    """prune_automorphisms keeps, for every host node set, the mapping VF2 enumerates FIRST.  That choice is an INPUT of the
    model (external library): it is computed here with networkx alone, on graphs built exactly as the adapter builds them
    (same insertion order, same pruned copies, same k-subset order), not taken from the implementation's answer."""
    import networkx as nx
    from networkx.algorithms.isomorphism import GraphMatcher
    g1, g2 = _nx_graphs(case)
    pattern, host = (g1, g2) if g1.number_of_nodes() <= g2.number_of_nodes() else (g2, g1)
    nm, em = _nx_matchers(case)
    first = {}
    for k in range(min(pattern.number_of_nodes(), host.number_of_nodes()), 0, -1):
        for nodes in itertools.combinations(pattern.nodes(), k):
            gm = GraphMatcher(host, pattern.subgraph(nodes).copy(), node_match=nm, edge_match=em)
            for iso in gm.subgraph_isomorphisms_iter():
                hs = frozenset(iso.keys())
                if hs not in first:
                    first[hs] = {p: h for h, p in iso.items()}
    return [sorted([int(p), int(h)] for p, h in m.items()) for m in first.values()]


def _vf2_mol_choice(case):
    """mcs_mol: WHICH isomorphism maps a matched component onto its partner is VF2's choice (gm.mapping after is_isomorphic()).
    It is an INPUT of the model (validated there against the model's own component pairing): computed here with networkx alone,
    on graphs built exactly as the adapter builds them, with the same sequence of GraphMatcher calls on subgraph views."""
    import networkx as nx
    from networkx.algorithms.isomorphism import GraphMatcher
    g1, g2 = _nx_graphs(case)
    nm, em = _nx_matchers(case)
    comps1 = sorted(nx.connected_components(g1), key=len, reverse=True)
    comps2 = sorted(nx.connected_components(g2), key=len, reverse=True)
    used, combined = set(), {}
    for c1 in comps1:
        for c2 in comps2:
            if len(c2) != len(c1) or frozenset(c2) in used:
                continue
            gm = GraphMatcher(g1.subgraph(c1), g2.subgraph(c2), node_match=nm, edge_match=em)
            if gm.is_isomorphic():
                combined.update(gm.mapping)
                used.add(frozenset(c2))
                break
    return [[int(a), int(b)] for a, b in combined.items()]


def _mol_tracked(case):
    """mcs_mol on FRESH graph objects: the combined mapping itself is compared (VF2's choice is a model input); on objects edited
    in place the adjacency order -- and with it VF2's choice -- is not reproducible from the case: pairing only."""
    if case.get("variant", "matcher") == "mtg":
        return bool(case.get("mode") == "mcs_mol")
    return bool(case.get("mode") == "mcs_mol" and (not case.get("in_history") or case.get("mol_tracked")))


def _obs(M, cnt, variant, case=None):
    if case is not None and case.get("mode") == "mcs_mol" and not _mol_tracked(case):
        return [M._last_pattern_is_G1, M.last_size, cnt, _mol_pairs(case, M)]
    if case is not None and case.get("mode") == "mcs_mol" and variant == "mtg":
        return [M.last_size, cnt, _dicts(M.get_mappings())]
    if case is not None and case.get("mode") == "mcs_mol":
        return [M._last_pattern_is_G1, M.last_size, cnt, _dicts(M.get_mappings()), _dicts(M.get_mappings("G1_to_G2")),
                _dicts(M.get_mappings("G2_to_G1"))]
    if (case is not None and case.get("prune_auto") and not case.get("mode") and variant == "matcher" and case.get("in_history")
            and not case.get("auto_tracked")):
        # which representative survives is VF2's choice; compared: orientation, size, subsets tried and the SET of host node sets
        # (one survivor per host set: a duplicate host set would show up twice here and break the comparison with the model)
        return [M._last_pattern_is_G1, M.last_size, cnt, S([sorted(int(v) for v in m.values()) for m in M.get_mappings()])]
    plain = case is None or (not case.get("mode") and (not case.get("prune_auto") or case.get("auto_tracked")))
    tr = [list(_Count.trace)] if plain else []     # the k-subsets tried, in order, with the number of isomorphisms VF2 yielded
    if variant == "matcher":
        return [M._last_pattern_is_G1, M.last_size, cnt, _dicts(M.get_mappings()), _dicts(M.get_mappings("G1_to_G2")),
                _dicts(M.get_mappings("G2_to_G1"))] + tr
    return [M.last_size, cnt, _dicts(M.get_mappings())] + tr


def _ctor_impl(c):
    """Construct a matcher with exactly the arguments of c (None = argument omitted) and read the stored options back."""
    mod = _patched("synkit.Graph.Matcher.mcs_matcher")
    kw = {}
    for k_, name in (("edge_attrs", "edge_attrs"), ("prune_wc", "prune_wc"), ("prune_auto", "prune_automorphisms"),
                     ("wildcard", "wildcard_element"), ("element_key", "element_key")):
        if c.get(k_) is not None:
            kw[name] = c[k_]
    try:
        if c.get("positional"):
            M = mod.MCSMatcher(c.get("node_attrs"), c.get("node_defaults"), True, **kw)
        else:
            M = mod.MCSMatcher(node_attrs=c.get("node_attrs"), node_defaults=c.get("node_defaults"), **kw)
    except ValueError:
        return None
    return M


def _state_views(M):
    """What a caller can see of the cache: flag, last_size, num_mappings, the three standard reads."""
    def rd(d):
        try:
            return _dicts(M.get_mappings(d))
        except ValueError:
            return -1
    flag = M._last_pattern_is_G1
    assert M.mapping_direction == ("unknown" if flag is None else "G1_to_G2" if flag else "G2_to_G1")
    return [-1 if flag is None else bool(flag), M.last_size, M.num_mappings, rd("pattern_to_host"), rd("G1_to_G2"), rd("G2_to_G1")]


def impl(case):
    if "ctor" in case:
        M = _ctor_impl(case["ctor"])
        if M is None:
            return -1
        T = _coq_ctor(case)[1]          # the same tables as the encoder (values the arguments do not contain get fresh codes)
        return [[T.NK(x) for x in M._node_attrs], [T.NV(x) for x in M._node_defaults], [T.EK(x) for x in M._edge_attrs],
                bool(M.prune_wc), bool(M.prune_automorphisms), T.NV(M.wildcard_element), T.NK(M.element_key)]
    if "steps" in case:
        return [[o, ok] for o, ok, _ in _run_history(case)]
    M, cnt = _run(case)
    if case["variant"] == "matcher":
        assert M.get_mappings() == M.mappings
    return _obs(M, cnt, case["variant"], case)


# ------------------------------------------------------------------ histories on shared objects (round 3)

def _morph(X, g):
    """Turn the networkx graph X into the graph g IN PLACE (same Python object; attribute dicts of surviving nodes / edges are
    kept and rewritten), as a caller does who edits an input between two calls."""
    want = {n: a for n, a in g["nodes"]}
    for n in list(X.nodes):
        if n not in want:
            X.remove_node(n)
    for n, a in g["nodes"]:
        if n in X:
            X.nodes[n].clear()
            X.nodes[n].update(a)
        else:
            X.add_node(n, **a)
    wante = {frozenset((u, v)) for u, v, _ in g["edges"]}
    for u, v in list(X.edges):
        if frozenset((u, v)) not in wante:
            X.remove_edge(u, v)
    for u, v, a in g["edges"]:
        if X.has_edge(u, v):
            X[u][v].clear()
            X[u][v].update(a)
        else:
            X.add_edge(u, v, **a)
    return X


def _sub(case, st):
    """The single-call case a history step amounts to when evaluated afresh (what model and oracle judge)."""
    cfg = case["configs"][st.get("cfg", 0)] if "configs" in case else case
    d = dict(kind=case["kind"], variant=case["variant"], g1=st["g1"], g2=st["g2"], mcs=st["mcs"],
             node_attrs=cfg["node_attrs"], node_defaults=cfg["node_defaults"], edge_attrs=cfg["edge_attrs"],
             prune_wc=cfg.get("prune_wc", False), prune_auto=cfg.get("prune_auto", False), implicit=cfg.get("implicit", False))
    for k in ("wildcard", "element_key", "passed"):
        if k in cfg:
            d[k] = cfg[k]
    d["in_history"] = True
    d["minimal"] = bool(st.get("minimal"))
    # round 5: a prune_automorphisms search is tracked by the state machine (MFindAuto: VF2's first mapping per host node set is
    # computed from networkx alone on graphs built like the adapter's -- for objects edited in place by REPLAYING the caller's
    # edits, see _replay_objects -- and validated by the model)
    d["auto_tracked"] = bool(d["prune_auto"] and case["variant"] == "matcher" and st.get("call", "fcs") in ("fcs", "rc_its"))
    d["mol_tracked"] = bool(st.get("call") == "mcs_mol" or (st.get("call") == "rc_side" and st.get("mol")))
    if st.get("call") in ("mcs_mol", "component"):
        d["mode"] = st["call"]
    if st.get("call") == "rc_side" and st.get("component"):
        d["mode"] = "component"
    if st.get("call") == "rc_side" and st.get("mol"):
        d["mode"] = "mcs_mol"
    return d


def _new_matcher(sub):
    na, nd, ea = _ctor_args(sub)
    if sub["variant"] == "matcher":
        mod = _patched("synkit.Graph.Matcher.mcs_matcher")
        if sub.get("positional"):
            return mod.MCSMatcher(na, nd, True, edge_attrs=ea, prune_wc=sub.get("prune_wc", False),
                                  prune_automorphisms=sub.get("prune_auto", False), **_wc_kw(sub))
        return mod.MCSMatcher(node_attrs=na, node_defaults=nd, edge_attrs=ea,
                              **_kw(bool(sub.get("minimal")), _CTOR_DEF, prune_wc=sub.get("prune_wc", False),
                                    prune_automorphisms=sub.get("prune_auto", False), **_wc_kw(sub)))
    mod = _patched("synkit.Graph.MTG.mcs_matcher")
    return mod.MCSMatcher(na, nd, sub["edge_attrs"][0]) if ea is not None else mod.MCSMatcher(na, nd)


def _derived_ok(M, variant, reads):
    """Everything derived from the stored result must agree with it, on repeated reads in any order, and must not be
    disturbed by a caller who edits what an earlier read returned."""
    import copy
    ok = True
    if variant == "matcher":
        first = {}
        for d in reads:
            r = M.get_mappings(d) if d != "kw" else M.get_mappings(direction="G1_to_G2")
            key = "G1_to_G2" if d == "kw" else d
            if key in first:
                ok &= (r == first[key])
            else:
                first[key] = copy.deepcopy(r)
            for m in r:                 # the caller edits the returned copies
                m.clear()
            r.append({-1: -1})
        for d, want in first.items():
            ok &= (M.get_mappings(d) == want)
        p = M.get_mappings()
        ok &= (M.mappings == p and M.num_mappings == len(p) and [dict(m) for m in M] == p)
        flag = M._last_pattern_is_G1
        ok &= (M.mapping_direction == ("unknown" if flag is None else "G1_to_G2" if flag else "G2_to_G1"))
        ok &= (M.last_size == M._last_size)
        ok &= ("mappings=%d " % len(p)) in repr(M) and ("last_size=%d " % M.last_size) in repr(M)
        if flag is not None:
            try:
                M.get_mappings("G1_to_g2")
                ok = False
            except ValueError:
                pass
        a, b = M.get_mappings("G1_to_G2"), M.get_mappings("G2_to_G1")
        ok &= (p == (a if flag or flag is None else b))
    else:
        r = M.get_mappings()
        want = copy.deepcopy(r)
        r.append({-1: -1})
        del r[:1]
        ok &= (M.get_mappings() == want and M.last_size == M._last_size)
        ok &= ("mappings=%d," % len(want)) in repr(M)
    return bool(ok)


def _views(M, variant):
    import copy
    if variant == "matcher":
        return (copy.deepcopy(M.get_mappings("G1_to_G2")), copy.deepcopy(M.get_mappings("G2_to_G1")),
                copy.deepcopy(M.get_mappings("pattern_to_host")), M._last_pattern_is_G1)
    return (copy.deepcopy(M.get_mappings()), None, None, None)


def _run_history(case):
    """Plays the steps in ONE process on SHARED objects: one matcher per configuration, graph objects reused and edited in
    place where a step says so.  Returns per step (observable, derived-views-consistent, views for the oracle)."""
    matchers, objs, out = {}, {}, []
    variant = case["variant"]
    for k, st in enumerate(case["steps"]):
        sub = _sub(case, st)
        sub["positional"] = st.get("positional", False)
        sub["in_history"] = True
        ci = st.get("cfg", 0)
        if ci not in matchers or st.get("fresh"):
            matchers[ci] = _new_matcher(sub)
        M = matchers[ci]
        gs = []
        if st.get("call") == "reads" and variant == "mtg":
            out.append(([M.last_size, _dicts(M.get_mappings())], _derived_ok(M, variant, []), None))
            continue
        if st.get("call") == "reads":
            # reads only (also before any search, also with an unknown direction string): answers + the visible cache
            res = []
            for d in st["reads"]:
                try:
                    res.append(_dicts(M.get_mappings(d)))
                except ValueError:
                    res.append(-1)
            out.append(([res] + _state_views(M), True, None))
            continue
        if st.get("call") == "bad_side":
            # the facade with an unknown side: ValueError, raised after the cache was reset
            its1, its2 = G.to_nx(st["its1"]), G.to_nx(st["its2"])
            try:
                M.find_rc_mapping(its1, its2, **_kw(bool(st.get("minimal")), _RC_DEF, side=st["side"], mcs=st["mcs"],
                                                    component=st.get("component", True)))
                out.append((["no-error"] + _state_views(M), True, None))
            except ValueError:
                out.append(([-1] + _state_views(M), True, None))
            continue
        if st.get("call") == "rc_side":
            # the ITS facade: find_rc_mapping(its1, its2, side=r|l|op); st["g1"], st["g2"] are the sides it must compare
            its1, its2 = G.to_nx(st["its1"]), G.to_nx(st["its2"])
            _Count.n, _Count.trace = 0, []
            mn = bool(st.get("minimal"))
            if variant == "mtg":
                extra = {"mcs_mol": True} if st.get("mol") else {}
                r = M.find_rc_mapping(its1, its2, **_kw(mn, _RC_DEF_MTG, mcs=st["mcs"], **extra))   # MTG copy: always right side of rc1 vs left side of rc2
                assert r is None
            elif st.get("mol"):
                r = M.find_rc_mapping(its1, its2, **_kw(mn, _RC_DEF, side=st["side"], mcs=st["mcs"], mcs_mol=True, component=False))
            elif st.get("positional"):
                r = M.find_rc_mapping(its1, its2, **_kw(mn, _RC_DEF, side=st["side"], mcs=st["mcs"], component=st.get("component", False)))
            else:
                r = M.find_rc_mapping(rc1=its1, rc2=its2, **_kw(mn, _RC_DEF, mcs=st["mcs"], component=st.get("component", False),
                                                                side=st["side"].upper() if st.get("upper") else st["side"]))
            assert r is M or variant == "mtg"
            cnt = _Count.n
            views = _views(M, variant)
            ok = _derived_ok(M, variant, st.get("reads", ["G1_to_G2", "G2_to_G1"]))
            out.append((_obs(M, cnt, variant, sub), ok, views))
            continue
        for side in ("g1", "g2"):
            src = st.get("src_" + side)
            if src is not None:
                X = _morph(objs[tuple(src)], st[side])
            else:
                X = G.to_nx(st[side])
            objs[(k, side)] = X
            gs.append(X)
        _Count.n, _Count.trace = 0, []
        call = st.get("call", "fcs")
        mn = bool(st.get("minimal"))
        if variant == "mtg":
            extra = {"mcs_mol": True} if call == "mcs_mol" else {}
            M.find_common_subgraph(gs[0], gs[1], **_kw(mn, _FCS_DEF, mcs=st["mcs"], **extra))
        elif call == "fcs":
            r = M.find_common_subgraph(gs[0], gs[1], **_kw(mn, _FCS_DEF, mcs=st["mcs"]))
            assert r is M
        elif call == "rc_its":
            r = M.find_rc_mapping(gs[0], gs[1], **_kw(mn, _RC_DEF, side=st.get("side", "its"), mcs=st["mcs"], component=False))
            assert r is M
        elif call == "component":
            M.find_rc_mapping(gs[0], gs[1], **_kw(mn, _RC_DEF, side="its", mcs=st["mcs"], component=True))
        elif call == "mcs_mol":
            M.find_common_subgraph(gs[0], gs[1], **_kw(mn, _FCS_DEF, mcs=st["mcs"], mcs_mol=True))
        else:
            raise AssertionError(call)
        cnt = _Count.n
        views = _views(M, variant)
        ok = _derived_ok(M, variant, st.get("reads", ["G1_to_G2", "G2_to_G1"]))
        out.append((_obs(M, cnt, variant, sub), ok, views))
    return out


# ------------------------------------------------------------------ model encoder

def _in_domain(case):
    if case.get("mode") not in (None, "component", "mcs_mol") or (case.get("mode") and case["variant"] != "matcher"
                                                                  and case.get("mode") != "mcs_mol"):
        return False
    if case.get("prune_auto") and (case.get("mode") or case["variant"] != "matcher"):
        return False
    for g in (case["g1"], case["g2"]):
        ids = [n for n, _ in g["nodes"]]
        if len(set(ids)) != len(ids) or any(not isinstance(n, int) or isinstance(n, bool) or n < 0 for n in ids):
            return False
        seen = set()
        for u, v, a in g["edges"]:
            if u == v or frozenset((u, v)) in seen or u not in ids or v not in ids:
                return False
            seen.add(frozenset((u, v)))
            for k in case["edge_attrs"]:
                x = a.get(k)
                if x is None:
                    continue
                if isinstance(x, bool) or not isinstance(x, (int, float)) or x * 2 != int(x * 2):
                    return False
        for _, a in g["nodes"]:
            for k in list(case["node_attrs"]) + [_ek(case)]:
                x = a.get(k)
                if x is not None and (isinstance(x, bool) or not isinstance(x, (int, str))):
                    return False
    for d in list(case["node_defaults"]) + [_wc(case)]:
        if isinstance(d, bool) or not isinstance(d, (int, str)):
            return False
    return True


def _intern(case):
    vals = [_wc(case)] + list(case["node_defaults"])
    for g in (case["g1"], case["g2"]):
        for _, a in g["nodes"]:
            for k in list(case["node_attrs"]) + [_ek(case)]:
                if a.get(k) is not None:
                    vals.append(a[k])
    return G.Intern(vals)


def _coq_graph(g, case, I):
    def na(n, a):
        el = a.get(_ek(case))
        return cpair(copt(None if el is None else cN(I(el))),
                     clist([copt(None if a.get(k) is None else cN(I(a[k]))) for k in case["node_attrs"]]))

    def ea(u, v, a):
        return clist([copt(None if a.get(k) is None else cZ(G.half(a[k]))) for k in case["edge_attrs"]])
    return G.coq_lgraph(g, na, ea)


def _nx_prune_order(g, case):
    """Component-wise mode breaks ties between equally large components by the node order of the PRUNED copy
    G.subgraph(keep).copy().  networkx (FilterAtlas.__iter__) iterates that view in the order of the Python set `set(keep)`
    when 2*len(keep) < len(G) and in insertion order otherwise; this external order is an INPUT of the model: the graph is
    handed to the model with its kept nodes listed in that order (everything else about the case is unchanged)."""
    if not case.get("prune_wc") or case.get("variant", "matcher") != "matcher":
        return g            # (round 5: also in plain mode -- the order of the k-subsets in the trace is the node order of the pruned copy)
    keep = [n for n, a in g["nodes"] if a.get(_ek(case)) != _wc(case)]
    if 2 * len(keep) >= len(g["nodes"]):
        return g
    attrs = dict((n, a) for n, a in g["nodes"])
    order = [n for n in set(keep)]
    return {"nodes": [[n, attrs[n]] for n in order] + [[n, a] for n, a in g["nodes"] if n not in set(keep)], "edges": g["edges"]}



# ------------------------------------------------------------------ round 5: the matcher OBJECT as a state machine (model/C12_State.v)

class _Pin:
    """Injective table value -> N code with one value pinned to code 0 (the model's K_ELEMENT / K_ORDER / V_STAR)."""

    def __init__(self, first):
        import json
        self._j = json
        self.t = {json.dumps(first): 0}

    def __call__(self, v):
        k = self._j.dumps(v, sort_keys=True)
        if k not in self.t:
            self.t[k] = len(self.t)
        return self.t[k]


class _Outside(Exception):
    pass


def _simple(v):
    return isinstance(v, (int, str)) and not isinstance(v, bool)


def _num_norm(x):
    if isinstance(x, (list, tuple)):
        return [_num_norm(y) for y in x]
    if isinstance(x, bool):
        return float(x)
    if isinstance(x, (int, float)):
        return float(x)
    return x


def _evalue(x, EV):
    """An edge attribute value as float() sees it: castable -> ENum (half-units), not castable -> EOther (interned by ==)."""
    import math
    if x is None:
        raise _Outside("explicit None")
    if isinstance(x, (int, float, str)):
        try:
            f = float(x)
        except ValueError:
            return "EOther %s" % cN(EV(["s", x]))
        if math.isnan(f) or math.isinf(f) or f * 2 != int(f * 2):
            raise _Outside("order %r" % (x,))
        return "ENum %s" % cZ(int(f * 2))
    if isinstance(x, (list, tuple)):
        return "EOther %s" % cN(EV(["l", _num_norm(x)]))
    raise _Outside("edge value %r" % (x,))


class _Tables:
    def __init__(self):
        self.NK, self.EK, self.NV, self.EV = _Pin("element"), _Pin("order"), _Pin("*"), _Pin(["s", ""])


def _coq_rgraph(g, T, needed):
    """Raw graph: every node attribute with a simple value (a configured key with another kind of value: outside the domain),
    every edge attribute."""
    ids = [n for n, _ in g["nodes"]]
    if len(set(ids)) != len(ids) or any(not isinstance(n, int) or isinstance(n, bool) or n < 0 for n in ids):
        raise _Outside("ids")
    seen = set()
    for u, v, _ in g["edges"]:
        if u == v or frozenset((u, v)) in seen or u not in ids or v not in ids:
            raise _Outside("edges")
        seen.add(frozenset((u, v)))

    def na(n, a):
        items = []
        for k, v in a.items():
            if _simple(v):
                items.append(cpair(cN(T.NK(k)), cN(T.NV(v))))
            elif k in needed:
                raise _Outside("node value %r" % (v,))
        return clist(items)

    def ea(u, v, a):
        return clist(["(%s, %s)" % (cN(T.EK(k)), _evalue(x, T.EV)) for k, x in a.items()])
    return G.coq_lgraph(g, na, ea)


def _ctor_term(c, T):
    """ctor_args literal from the arguments REALLY passed (None = omitted)."""
    def names(l, tab):
        return "None" if l is None else "(Some %s)" % clist([cN(tab(x)) for x in l])
    for d in (c.get("node_defaults") or []) + [c.get("wildcard", "*")]:
        if not _simple(d):
            raise _Outside("default %r" % (d,))
    return ("{| a_node_attrs := %s; a_node_defaults := %s; a_edge_attrs := %s; a_prune_wc := %s; a_prune_auto := %s; "
            "a_wildcard := %s; a_element_key := %s |}" % (
                names(c.get("node_attrs"), T.NK), names(c.get("node_defaults"), T.NV), names(c.get("edge_attrs"), T.EK),
                cbool(bool(c.get("prune_wc", False))), cbool(bool(c.get("prune_auto", False))),
                cN(T.NV(c.get("wildcard", "*"))), cN(T.NK(c.get("element_key", "element")))))


def _passed_args(cfg):
    """The constructor arguments the adapter really passes for a configuration (see _ctor_args / _new_matcher)."""
    na, nd, ea = _ctor_args(cfg)
    d = dict(node_attrs=na, node_defaults=nd, edge_attrs=ea, prune_wc=cfg.get("prune_wc", False), prune_auto=cfg.get("prune_auto", False))
    if "wildcard" in cfg:
        d["wildcard"] = cfg["wildcard"]
    if "element_key" in cfg:
        d["element_key"] = cfg["element_key"]
    return d


_DIR_CODE = {"pattern_to_host": "DP2H", "G1_to_G2": "D12", "G2_to_G1": "D21"}
_SIDE_CODE = {"r": "SR", "l": "SL", "op": "SOp", "its": "SIts"}
_EMPTY_G = {"nodes": [], "edges": []}


def _opt(val, default, minimal, conv):
    """An argument as the caller wrote it: None when it was omitted (minimal call and value = signature default)."""
    if minimal and type(val) is type(default) and val == default:
        return "None"
    return "(Some %s)" % conv(val)


def _fcs_kw(st, mol):
    mn = bool(st.get("minimal"))
    return "{| fk_mcs := %s; fk_mol := %s |}" % (_opt(bool(st["mcs"]), False, mn, cbool), "(Some true)" if mol else "None")


def _rc_kw(st, side_code, side_is_default, comp, mol):
    mn = bool(st.get("minimal"))
    return "{| rk_side := %s; rk_mcs := %s; rk_mol := %s; rk_component := %s |}" % (
        "None" if (mn and side_is_default) else "(Some %s)" % side_code, _opt(bool(st["mcs"]), True, mn, cbool),
        "(Some true)" if mol else "None", _opt(bool(comp), True, mn, cbool))


def _rc_rec(x):
    return "{| rc_1 := %s; rc_2 := %s; rc_l1 := %s; rc_r1 := %s; rc_l2 := %s; rc_r2 := %s |}" % (
        x["rc_1"], x["rc_2"], x["rc_l1"], x["rc_r1"], x["rc_l2"], x["rc_r2"])


def _coq_history(case):
    """Matcher copy: the history as calls on matcher OBJECTS of the state-machine model (constructor normalisation, attribute
    selection on the raw dictionaries, cache, facade).  Steps in a VF2-order dependent mode (prune_automorphisms, mcs_mol) are
    external: their value-determined observable is computed by the functions of C12_Model.v (as before)."""
    T = _Tables()
    configs = case["configs"] if "configs" in case else [case]
    needed = set()
    for cfg in configs:
        needed |= set(cfg["node_attrs"]) | {cfg.get("element_key", ELEM_KEY)}
    try:
        args = clist([_ctor_term(_passed_args(cfg), T) for cfg in configs])
        ops = []
        opaque = set()          # matcher objects whose cache the model does not track at the moment
        for k_step, st in enumerate(case["steps"]):
            ci = st.get("cfg", 0)
            cfg = configs[ci]
            if st.get("fresh"):
                ops.append("HNew %d" % ci)
                opaque.discard(ci)
            call = st.get("call", "fcs")
            if call == "reads":
                if ci in opaque:
                    return None
                ops.append("HCall %d (MReads %s)" % (ci, clist([_DIR_CODE.get(d, "DBad") for d in st["reads"]])))
                continue
            sub = _sub(case, st)
            if st.get("src_g1") is not None or st.get("src_g2") is not None:
                sub["replay"] = (case, k_step)      # VF2's choices are computed on the replayed (edited-in-place) objects
            if call == "bad_side":
                e = G.coq_lgraph(_EMPTY_G, None, None)
                x = dict(rc_1=e, rc_2=e, rc_l1=e, rc_r1=e, rc_l2=e, rc_r2=e)
                ops.append("HCallKw %d (CRc %s %s [])" % (ci, _rc_rec(x), _rc_kw(st, "SBad", False, st.get("component", True), False)))
                opaque.discard(ci)
                continue
            if sub.get("auto_tracked") and _in_domain(dict(sub, prune_auto=False)):
                ch = clist([clist([cpair(cN(p), cN(h)) for p, h in m]) for m in _vf2_first_per_host_set(sub)])
                ga, gb = _coq_rgraph(_nx_prune_order(st["g1"], sub), T, needed), _coq_rgraph(_nx_prune_order(st["g2"], sub), T, needed)
                if call == "fcs":       # the call as written; the model resolves defaults and (prune_automorphisms object) the mode
                    ops.append("HCallKw %d (CFind %s %s %s %s [])" % (ci, ga, gb, _fcs_kw(st, False), ch))
                else:
                    ops.append("HCall %d (MFindAuto %s %s %s %s)" % (ci, ga, gb, cbool(st["mcs"]), ch))
                opaque.discard(ci)
                continue
            rc_mol = bool(call == "rc_side" and st.get("mol") and sub.get("mol_tracked") and _in_domain(dict(sub, prune_auto=False)))
            if (sub.get("mode") == "mcs_mol" and sub.get("mol_tracked") and call == "mcs_mol"
                    and _in_domain(dict(sub, prune_auto=False))):        # (mcs_mol does not look at prune_automorphisms)
                ch = clist([cpair(cN(a), cN(b)) for a, b in _vf2_mol_choice(sub)])
                ops.append("HCallKw %d (CFind %s %s %s [] %s)" % (ci, _coq_rgraph(_nx_prune_order(st["g1"], sub), T, needed),
                                                                 _coq_rgraph(_nx_prune_order(st["g2"], sub), T, needed), _fcs_kw(st, True), ch))
                opaque.discard(ci)
                continue
            if (cfg.get("prune_auto") or sub.get("mode") == "mcs_mol") and not rc_mol:
                t = coq_case(dict(sub, auto_tracked=False, mol_tracked=False))
                if t is None:
                    return None
                ops.append("HExternal %d (%s)" % (ci, t))
                opaque.add(ci)
                continue
            opaque.discard(ci)
            g1 = _coq_rgraph(_nx_prune_order(st["g1"], sub), T, needed)
            g2 = _coq_rgraph(_nx_prune_order(st["g2"], sub), T, needed)
            if call == "fcs":
                ops.append("HCallKw %d (CFind %s %s %s [] [])" % (ci, g1, g2, _fcs_kw(st, False)))
                continue
            e = G.coq_lgraph(_EMPTY_G, None, None)
            if call in ("rc_its", "component"):
                sd, comp = "SIts", call == "component"
                x = dict(rc_1=g1, rc_2=g2, rc_l1=e, rc_r1=e, rc_l2=e, rc_r2=e)
            elif rc_mol:
                # mcs_mol=True through the facade: the same validated-input treatment on the sides the facade selects
                sd = _SIDE_CODE[st["side"]]
                x = dict(rc_1=e, rc_2=e, rc_l1=e, rc_r1=e, rc_l2=e, rc_r2=e)
                if "sides" in st:
                    for k_ in ("l1", "r1", "l2", "r2"):
                        x["rc_" + k_] = _coq_rgraph(_nx_prune_order(st["sides"][k_], sub), T, needed)
                a_, b_ = {"SR": ("rc_r1", "rc_r2"), "SL": ("rc_l1", "rc_l2"), "SOp": ("rc_r1", "rc_l2")}[sd]
                x[a_], x[b_] = g1, g2
                ch = clist([cpair(cN(a), cN(b)) for a, b in _vf2_mol_choice(sub)])
                ops.append("HCallKw %d (CRc %s %s %s)" % (ci, _rc_rec(x), _rc_kw(st, sd, st["side"] == "op" and not st.get("upper"), False, True), ch))
                continue
            elif call == "rc_side":
                sd, comp = _SIDE_CODE[st["side"]], bool(st.get("component", False))
                x = dict(rc_1=e, rc_2=e, rc_l1=e, rc_r1=e, rc_l2=e, rc_r2=e)
                if "sides" in st:       # all four sides (computed by the generator, independently of its_decompose)
                    for k_ in ("l1", "r1", "l2", "r2"):
                        x["rc_" + k_] = _coq_rgraph(_nx_prune_order(st["sides"][k_], sub), T, needed)
                a_, b_ = {"SR": ("rc_r1", "rc_r2"), "SL": ("rc_l1", "rc_l2"), "SOp": ("rc_r1", "rc_l2")}[sd]
                x[a_], x[b_] = g1, g2
            else:
                return None
            ops.append("HCallKw %d (CRc %s %s [])" % (ci, _rc_rec(x), _rc_kw(st, sd, call == "rc_side" and st["side"] == "op" and not st.get("upper"), comp, False)))
    except _Outside:
        return None
    return "run_history %s %s" % (args, clist(ops))


def _coq_history_mtg(case):
    """MTG copy: the history as calls on ONE object of the state-machine model (constructor with zip truncation, attribute
    selection on the raw dictionaries, cache, facade = right side of rc1 against left side of rc2)."""
    T = _Tables()
    cfg = case["configs"][0] if "configs" in case else case
    if len(case.get("configs", [cfg])) != 1:
        return None
    na, nd, ea = _ctor_args(cfg)
    needed = set(cfg["node_attrs"]) | set(na or [])
    try:
        for d in (nd or []):
            if not _simple(d):
                raise _Outside("default")
        names = lambda l, tab: "None" if l is None else "(Some %s)" % clist([cN(tab(x)) for x in l])
        args = "{| ma_names := %s; ma_defs := %s; ma_edge := %s |}" % (
            names(na, T.NK), names(nd, T.NV), cN(T.EK(cfg["edge_attrs"][0] if ea is not None else "order")))
        ops = []
        e = G.coq_lgraph(_EMPTY_G, None, None)
        for k_step, st in enumerate(case["steps"]):
            if st.get("fresh") or st.get("cfg", 0) != 0:
                return None
            call = st.get("call", "fcs")
            if call == "reads":
                ops.append("TRead")
                continue
            g1, g2 = _coq_rgraph(st["g1"], T, needed), _coq_rgraph(st["g2"], T, needed)
            if call == "mcs_mol" or (call == "rc_side" and st.get("mol")):
                sub = _sub(case, st)
                if not _in_domain(sub):
                    return None
                if st.get("src_g1") is not None or st.get("src_g2") is not None:
                    sub["replay"] = (case, k_step)
                ch = clist([cpair(cN(a), cN(b)) for a, b in _vf2_mol_choice(sub)])
                if call == "mcs_mol":
                    ops.append("TFindMol %s %s %s" % (g1, g2, ch))
                else:
                    ops.append("TRcMol {| rc_1 := %s; rc_2 := %s; rc_l1 := %s; rc_r1 := %s; rc_l2 := %s; rc_r2 := %s |} %s" % (e, e, e, g1, g2, e, ch))
                continue
            if call == "fcs":
                ops.append("TFind %s %s %s" % (g1, g2, cbool(st["mcs"])))
            elif call == "rc_side":
                x = dict(rc_l1=e, rc_r1=g1, rc_l2=g2, rc_r2=e)
                if "sides" in st:
                    for k_ in ("l1", "r2"):
                        x["rc_" + k_] = _coq_rgraph(st["sides"][k_], T, needed)
                ops.append("TRc {| rc_1 := %s; rc_2 := %s; rc_l1 := %s; rc_r1 := %s; rc_l2 := %s; rc_r2 := %s |} %s"
                           % (e, e, x["rc_l1"], x["rc_r1"], x["rc_l2"], x["rc_r2"], cbool(st["mcs"])))
            else:
                return None
    except _Outside:
        return None
    return "run_history_mtg %s %s" % (args, clist(ops))


def _coq_ctor(case):
    T = _Tables()
    try:
        return "run_ctor %s" % _ctor_term(case["ctor"], T), T
    except _Outside:
        return None, T


def coq_case(case):
    if "ctor" in case:
        return _coq_ctor(case)[0]
    if "steps" in case and case["variant"] == "matcher":
        return _coq_history(case)
    if "steps" in case and case["variant"] == "mtg":
        return _coq_history_mtg(case)
    if "steps" in case:
        terms = [coq_case(_sub(case, st)) for st in case["steps"]]
        if any(t is None for t in terms):
            return None
        return "L [%s]" % "; ".join("L [%s; tbool true]" % t for t in terms)
    if not _in_domain(case):
        return None
    I = _intern(case)
    defs = clist([cN(I(d)) for d in case["node_defaults"]])
    g1, g2 = _coq_graph(_nx_prune_order(case["g1"], case), case, I), _coq_graph(_nx_prune_order(case["g2"], case), case, I)
    if case["variant"] == "matcher" and case.get("mode") == "mcs_mol" and _mol_tracked(case):
        ch = clist([cpair(cN(a), cN(b)) for a, b in _vf2_mol_choice(case)])
        return "run_mcs_mol_with %s %s %s %s %s %s" % (defs, cbool(case.get("prune_wc", False)), cN(I(_wc(case))), g1, g2, ch)
    if case["variant"] == "matcher" and case.get("mode") == "mcs_mol":
        return "run_mcs_mol %s %s %s %s %s" % (defs, cbool(case.get("prune_wc", False)), cN(I(_wc(case))), g1, g2)
    if case["variant"] == "matcher":
        if case.get("prune_auto") and not case.get("mode") and not case.get("in_history"):
            # VF2's first mapping per host node set, from networkx alone, is a parameter of the model
            ch = clist([clist([cpair(cN(p), cN(h)) for p, h in m]) for m in _vf2_first_per_host_set(case)])
            return "run_matcher_auto_with %s %s %s %s %s %s %s" % (defs, cbool(case.get("prune_wc", False)), cN(I(_wc(case))), g1, g2,
                                                               cbool(case["mcs"]), ch)
        return "%s %s %s %s %s %s %s" % ("run_component" if case.get("mode") == "component" else
                                         "run_matcher_auto" if case.get("prune_auto") else "run_matcher_tr", defs, cbool(case.get("prune_wc", False)), cN(I(_wc(case))), g1, g2,
                                                  cbool(case["mcs"]))
    if case.get("mode") == "mcs_mol":
        ch = clist([cpair(cN(a), cN(b)) for a, b in _vf2_mol_choice(case)])
        return "run_mcs_mol_with_mtg %s %s %s %s" % (defs, g1, g2, ch)
    return "run_mtg_tr %s %s %s %s" % (defs, g1, g2, cbool(case["mcs"]))


# ------------------------------------------------------------------ property oracle (independent brute force)

def _label(a, case):
    return tuple(a.get(k, d) for k, d in zip(case["node_attrs"], case["node_defaults"]))


def _order_val(x):
    """A bond attribute as the property reads it: a number where it is one (1, 1.0, "1", True), else the value itself."""
    if x is None:
        return None
    try:
        return float(x)
    except (TypeError, ValueError):
        import json
        return ("other", json.dumps(_num_norm(x), sort_keys=True))


def _orders(a, case):
    return tuple(_order_val(a.get(k)) for k in case["edge_attrs"])


def _tables(g, case):
    prune = case.get("prune_wc", False) and case["variant"] == "matcher"
    lab = {n: _label(a, case) for n, a in g["nodes"] if not (prune and a.get(_ek(case)) == _wc(case))}
    adj = {}
    for u, v, a in g["edges"]:
        if u in lab and v in lab:
            adj[(u, v)] = adj[(v, u)] = _orders(a, case)
    return lab, adj


def _valid(m, t1, t2):
    """m: dict G1 node -> G2 node.  The validity clause of the property, stated directly."""
    (l1, a1), (l2, a2) = t1, t2
    if len(set(m.values())) != len(m):
        return "not injective"
    for u, v in m.items():
        if u not in l1 or v not in l2:
            return "maps a node that is not in the (pruned) graph: %r->%r" % (u, v)
        if l1[u] != l2[v]:
            return "node label not preserved at %r->%r" % (u, v)
    for u, u2 in itertools.combinations(list(m), 2):
        e1, e2 = a1.get((u, u2)), a2.get((m[u], m[u2]))
        if (e1 is None) != (e2 is None):
            return "bond presence differs between (%r,%r) and its image" % (u, u2)
        if e1 is not None and e1 != e2:
            return "bond order differs between (%r,%r) and its image" % (u, u2)
    return None


def brute_max(t1, t2):
    """Size of the largest common induced mapping, by exhaustive back-tracking over injective partial maps
    (every restriction of a common induced mapping is one, so depth-first extension reaches all of them)."""
    (l1, a1), (l2, a2) = t1, t2
    n1 = list(l1)
    best = [0]

    def rec(i, m, used):
        if len(m) + (len(n1) - i) <= best[0]:
            return
        if i == len(n1):
            best[0] = max(best[0], len(m))
            return
        u = n1[i]
        for v in l2:
            if v in used or l1[u] != l2[v]:
                continue
            ok = True
            for x, y in m.items():
                e1, e2 = a1.get((u, x)), a2.get((v, y))
                if (e1 is None) != (e2 is None) or (e1 is not None and e1 != e2):
                    ok = False
                    break
            if ok:
                m[u] = v
                used.add(v)
                rec(i + 1, m, used)
                del m[u]
                used.discard(v)
        rec(i + 1, m, used)
    rec(0, {}, set())
    return best[0]


def _judge(case, views, flag_known=True):
    fails = []
    a, b, p, flag = views
    t1, t2 = _tables(case["g1"], case), _tables(case["g2"], case)
    mode = case.get("mode")
    if case["variant"] == "matcher":
        if len(a) != len(b) or any({v: u for u, v in x.items()} != y or {v: u for u, v in y.items()} != x for x, y in zip(a, b)):
            fails.append(dict(clause="directions-inverse", detail="G1_to_G2 and G2_to_G1 are not position-wise mutually inverse"))
        if p != a and p != b:
            fails.append(dict(clause="directions-inverse", detail="pattern_to_host equals neither direction"))
        for m in b:
            why = _valid(m, t2, t1)
            if why:
                fails.append(dict(clause="valid", detail="G2_to_G1: %s in %r" % (why, m)))
                break
    for m in a:
        why = _valid(m, t1, t2)
        if why:
            fails.append(dict(clause="valid", detail="%s in %r" % (why, m)))
            break
    if case["mcs"] and not mode:
        k = brute_max(t1, t2)
        sizes = {len(m) for m in a}
        if len(sizes) > 1:
            fails.append(dict(clause="maximum", detail="maximum mode returned mappings of sizes %r" % sorted(sizes)))
        got = max(sizes) if sizes else 0
        if got < k:
            fails.append(dict(clause="maximum", detail="returned size %d but a common induced subgraph with %d nodes exists" % (got, k)))
        if case.get("prune_auto") and a:
            hs = [frozenset(m.values()) if flag else frozenset(m.keys()) for m in a]
            if len(set(hs)) != len(hs):
                fails.append(dict(clause="prune-auto", detail="two kept mappings cover the same host node set"))
    return fails


def oracle(case):
    if "ctor" in case:
        return []
    if "steps" in case:
        fails = []
        for k, (st, (_, ok, views)) in enumerate(zip(case["steps"], _run_history(case))):
            if views is None:
                continue            # reads / failed facade call: nothing the property speaks about (correspondence only)
            for f in _judge(_sub(case, st), views):
                f["detail"] = "step %d (%s): %s" % (k, st.get("call", "fcs"), f["detail"])
                fails.append(f)
            if not ok:
                fails.append(dict(clause="directions-inverse", detail="step %d: a derived view (repeated / re-ordered read of get_mappings, "
                                  "mappings, num_mappings, mapping_direction, iteration, last_size) disagrees with the stored result" % k))
        return fails[:3]
    M, _ = _run(case)
    return _judge(case, _views(M, case["variant"]))[:3]


def _msizes(case, obs):
    """Sizes of the returned mappings, from the observable (prune_automorphisms: sizes of the host node sets)."""
    if case.get("prune_auto") and not case.get("mode") and case["variant"] == "matcher" and case.get("in_history") and not case.get("auto_tracked"):
        return [len(h) for h in obs[3]["__set__"]]
    if case.get("mode") == "mcs_mol" and not _mol_tracked(case):
        return [sum(len(p[0]["__set__"]) for p in obs[3]["__set__"])]
    ms = obs[3] if case["variant"] == "matcher" else obs[2]
    return [len(m["__set__"]) for m in ms]


def nontrivial(case, obs):
    if "ctor" in case:
        return False
    if "steps" in case:
        return len(case["steps"]) >= 2 and any(nontrivial(_sub(case, st), o[0]) for st, o in zip(case["steps"], obs)
                                               if st.get("call") not in _NON_SEARCH)
    if len(case["g1"]["nodes"]) < 2 or len(case["g2"]["nodes"]) < 2:
        return False
    if case["g1"] == case["g2"]:
        return False
    return any(k >= 2 for k in _msizes(case, obs))


def distribution(cases, obss):
    sizes, ks, nm, first_larger, modes = {}, {}, {}, 0, {}
    hist = {}
    flat = []
    for c, o in zip(cases, obss):
        if "ctor" in c:
            hist["ctor_cases"] = hist.get("ctor_cases", 0) + 1
            continue
        if "steps" in c:
            hist["histories"] = hist.get("histories", 0) + 1
            hist["steps"] = hist.get("steps", 0) + len(c["steps"])
            for st in c["steps"]:
                hist["call:" + st.get("call", "fcs")] = hist.get("call:" + st.get("call", "fcs"), 0) + 1
                if st.get("src_g1") or st.get("src_g2"):
                    hist["steps_on_reused_graph_objects"] = hist.get("steps_on_reused_graph_objects", 0) + 1
            ok = isinstance(o, list) and o and o[0] != "EXC"
            for i, st in enumerate(c["steps"]):
                if st.get("call") not in _NON_SEARCH:
                    flat.append((_sub(c, st), o[i][0] if ok else o))
        else:
            flat.append((c, o))
    for c, o in flat:
        a, b = len(c["g1"]["nodes"]), len(c["g2"]["nodes"])
        sizes["%dx%d" % (a, b)] = sizes.get("%dx%d" % (a, b), 0) + 1
        first_larger += a > b
        key = "%s/%s" % (c["variant"], "mcs" if c["mcs"] else "all")
        modes[key] = modes.get(key, 0) + 1
        if isinstance(o, list) and o and o[0] != "EXC":
            ms = _msizes(c, o)
            k = max(ms, default=0)
            ks[str(k)] = ks.get(str(k), 0) + 1
            b_ = "0" if not ms else "1" if len(ms) == 1 else "2-9" if len(ms) < 10 else "10-99" if len(ms) < 100 else "100+"
            nm[b_] = nm.get(b_, 0) + 1
    return dict(size_pairs=dict(sorted(sizes.items())), largest_mapping_size=dict(sorted(ks.items())), number_of_mappings=nm,
                first_graph_larger=first_larger, modes=modes, histories=hist,
                empty_graph_calls=sum(1 for c, _ in flat if not c["g1"]["nodes"] or not c["g2"]["nodes"]),
                calls_with_10plus_nodes=sum(1 for c, _ in flat if max(len(c["g1"]["nodes"]), len(c["g2"]["nodes"])) >= 10),
                disconnected_first_graph=sum(1 for c in cases if "g1" in c and _n_comp(c["g1"]) > 1),
                wildcard_pruning=sum(1 for c in cases if c.get("prune_wc")),
                oracle_only=sum(1 for c in cases if c.get("prune_auto") or c.get("mode")))


def _n_comp(g):
    par = {n: n for n, _ in g["nodes"]}

    def f(x):
        while par[x] != x:
            x = par[x]
        return x
    for u, v, _ in g["edges"]:
        par[f(u)] = f(v)
    return len({f(n) for n in par})


# ------------------------------------------------------------------ generators

def _mk(kind, g1, g2, mcs, variant="matcher", node_attrs=("element",), node_defaults=("*",), edge_attrs=("order",), **kw):
    d = dict(kind=kind, variant=variant, g1=g1, g2=g2, mcs=mcs, node_attrs=list(node_attrs),
             node_defaults=list(node_defaults), edge_attrs=list(edge_attrs))
    d.update(kw)
    return d


def _strip(g, nkeys=("element", "charge"), ekeys=("order",)):
    return {"nodes": [[n, {k: v for k, v in a.items() if k in nkeys}] for n, a in g["nodes"]],
            "edges": [[u, v, {k: x for k, x in a.items() if k in ekeys}] for u, v, a in g["edges"]]}


def _rand(rng, n, p, **kw):
    return _strip(G.random_graph(rng, n, p_edge=p, charges=(0, 0, 0, 1), **kw))


def _planted(rng, n1, n2):
    """Two graphs that share a planted common induced part of random size, with unrelated ids and insertion orders."""
    c = rng.randint(1, min(n1, n2))
    core = _rand(rng, c, rng.choice([0.3, 0.6]), connected=rng.random() < 0.6)

    def grow(n):
        g = {"nodes": [list(x) for x in core["nodes"]], "edges": [list(e) for e in core["edges"]]}
        for i in range(c + 1, n + 1):
            g["nodes"].append([i, {"element": rng.choice(["C", "O", "N"]), "charge": rng.choice([0, 0, 0, 1])}])
            for j in range(1, i):
                if rng.random() < 0.3:
                    g["edges"].append([j, i, {"order": rng.choice([1, 1, 2, 1.5])}])
        g = G.random_relabel(g, rng, 1, 12)
        return G.shuffle_insertion(g, rng)
    return grow(n1), grow(n2)


def _random_cases(rng, n, heavy):
    out = []
    for t in range(n):
        z = rng.random()
        two = rng.random() < 0.3
        na, nd = (("element", "charge"), ("*", 0)) if two else (("element",), ("*",))
        variant = "mtg" if rng.random() < 0.25 else "matcher"
        if z < 0.35:
            n1, n2 = rng.randint(1, 6), rng.randint(1, 7)
            g1, g2 = _planted(rng, n1, n2)
            kind = "planted"
        elif z < 0.5:
            g1 = _rand(rng, rng.randint(1, 6), rng.choice([0.2, 0.5]))
            ids = [x for x, _ in g1["nodes"]]
            perm = ids[:]
            rng.shuffle(perm)
            g2 = G.shuffle_insertion(G.relabel(g1, dict(zip(ids, perm))), rng)
            if rng.random() < 0.5 and g2["edges"]:
                e = rng.choice(g2["edges"])
                e[2]["order"] = 2 if e[2]["order"] != 2 else 1
            kind = "relabelled-copy"
        elif z < 0.7:
            g1 = G.random_relabel(_rand(rng, rng.randint(2, 6), 0.15), rng, 1, 15)
            g2 = G.random_relabel(_rand(rng, rng.randint(2, 7), 0.15), rng, 1, 15)
            kind = "disconnected"
        elif z < 0.85:
            g1 = G.random_relabel(_rand(rng, rng.randint(4, 7), 0.3), rng, 1, 15)
            g2 = G.random_relabel(_rand(rng, rng.randint(1, 3), 0.4), rng, 1, 15)
            kind = "first-larger"
        else:
            g1 = G.random_relabel(_rand(rng, rng.randint(1, 6), 0.4), rng, 1, 15)
            g2 = G.random_relabel(_rand(rng, rng.randint(1, 6), 0.4), rng, 1, 15)
            kind = "random"
        kw = {}
        ea = ("order",)
        if variant == "matcher":
            r = rng.random()
            if r < 0.15:            # wildcard nodes + pruning
                for g in (g1, g2):
                    for nd_ in g["nodes"]:
                        if rng.random() < 0.25:
                            nd_[1]["element"] = "*"
                kw["prune_wc"] = rng.random() < 0.7
                kind += "+wc"
            elif r < 0.3:           # missing attributes: node defaults (a missing label equals the default written out on the
                for g in (g1, g2):  # other side: "*", charge 0) and the both-missing edge rule
                    for nd_ in g["nodes"]:
                        z2 = rng.random()
                        if z2 < 0.3:
                            nd_[1].pop("element", None)
                        elif z2 < 0.4:
                            nd_[1]["element"] = "*"
                        if rng.random() < 0.3:
                            nd_[1].pop("charge", None)
                    for e in g["edges"]:
                        if rng.random() < 0.3:
                            e[2].pop("order", None)
                kind += "+missing"
            elif r < 0.4:           # two edge attributes
                ea = ("order", "standard_order")
                for g in (g1, g2):
                    for e in g["edges"]:
                        if rng.random() < 0.7:
                            e[2]["standard_order"] = rng.choice([0, 1, -1])
                kind += "+2edgeattrs"
        elif rng.random() < 0.35:
            # MTG copy: missing node labels on both sides; missing bond order on ONE side only (its _edge_match rejects a
            # missing order even against a missing order -- see ASSUMPTIONS -- so two-sided gaps are left out)
            gap = rng.choice([g1, g2])
            for g in (g1, g2):
                for nd_ in g["nodes"]:
                    z2 = rng.random()
                    if z2 < 0.25:
                        nd_[1].pop("element", None)
                    elif z2 < 0.35:
                        nd_[1]["element"] = "*"
                    if rng.random() < 0.25:
                        nd_[1].pop("charge", None)
            for e in gap["edges"]:
                if rng.random() < 0.4:
                    e[2].pop("order", None)
            kind += "+missing1"
        if rng.random() < 0.3:
            kw["implicit"] = True       # constructor arguments that equal the documented defaults are omitted
        big = len(g1["nodes"]) * len(g2["nodes"])
        mcs = True if big > (30 if heavy else 20) else rng.random() < 0.6
        out.append(_mk(kind, g1, g2, mcs, variant, na, nd, ea, **kw))
    return out


def _low_overlap(rng, n):
    """Pairs on >= 4 nodes each whose largest common part has only 1-2 atoms: the size-descending search has to pass
    several empty levels before it finds anything (both argument orders, both copies)."""
    out = []
    for t in range(n):
        n1, n2 = rng.randint(4, 6), rng.randint(4, 6)
        g1 = _rand(rng, n1, rng.choice([0.3, 0.5]), elements=("N", "S", "P"))
        g2 = _rand(rng, n2, rng.choice([0.3, 0.5]), elements=("C", "O"))
        s_ = 1 if min(n1, n2) == 4 or rng.random() < 0.5 else 2
        for nd_ in rng.sample(g1["nodes"], s_):
            nd_[1]["element"] = "C"
        if s_ == 2 and rng.random() < 0.5:
            for e in g1["edges"]:
                e[2]["order"] = 3       # no bond order in common: the two shared atoms match only if non-adjacent on both sides
        g1, g2 = G.random_relabel(g1, rng, 1, 15), G.random_relabel(g2, rng, 1, 15)
        if rng.random() < 0.5:
            g1, g2 = g2, g1
        kw = {"implicit": True} if rng.random() < 0.3 else {}
        out.append(_mk("low-overlap", g1, g2, rng.random() < 0.8, "mtg" if rng.random() < 0.35 else "matcher", **kw))
    return out


def _respelled(rng, n):
    """A graph and a relabelled copy in which labels that equal the default are spelled differently on the two sides (attribute
    absent on one side, default value written out on the other), constructor defaults mostly taken by omission.  The full-size
    mapping exists exactly when missing labels are read as the configured defaults; a bond whose order is dropped on one side
    only must not be mapped onto its copy."""
    out = []
    for t in range(n):
        variant = "mtg" if rng.random() < 0.5 else "matcher"
        cfg = rng.random()
        if cfg < 0.5:
            na, nd, charges = ("element",), ("*",), (0, 0, 1)
        elif cfg < 0.8:
            na, nd, charges = ("element", "charge"), ("*", 0), (0, 0, 1)
        else:
            na, nd, charges = ("element", "charge"), ("*", "*"), (0, "*", "*")
        g1 = _strip(G.random_graph(rng, rng.randint(2, 5), p_edge=rng.choice([0.4, 0.7]), elements=("C", "O", "*", "*"),
                                   charges=charges, orders=(1, 2, 1.5)))
        ids = [x for x, _ in g1["nodes"]]
        g2 = G.shuffle_insertion(G.relabel(g1, dict(zip(ids, rng.sample(range(1, 12), len(ids))))), rng)
        g2 = {"nodes": [[x, dict(a)] for x, a in g2["nodes"]], "edges": [[u, v, dict(a)] for u, v, a in g2["edges"]]}
        for g in (g1, g2):
            for _, a in g["nodes"]:
                if a.get("element") == "*" and rng.random() < 0.5:
                    del a["element"]
                if len(na) == 2 and a.get("charge") == nd[1] and rng.random() < 0.5:
                    del a["charge"]
        kind = "respelled-copy"
        z = rng.random()
        gap = [rng.choice([g1, g2])] if variant == "mtg" or z < 0.5 else [g1, g2]
        if z < 0.6:
            for g in gap:
                for e in g["edges"]:
                    if rng.random() < 0.35:
                        e[2].pop("order", None)
            kind += "+missing-order"
        kw = {"implicit": True} if rng.random() < 0.8 else {}
        out.append(_mk(kind, g1, g2, rng.random() < 0.7, variant, na, nd, **kw))
    return out


def _oracle_only(rng, n):
    out = []
    for t in range(n):
        g1 = G.random_relabel(_rand(rng, rng.randint(2, 6), 0.4, elements=("C", "C", "O")), rng, 1, 15)
        g2 = G.random_relabel(_rand(rng, rng.randint(2, 6), 0.4, elements=("C", "C", "O")), rng, 1, 15)
        r = rng.random()
        if r < 0.5:
            kw = {}
            if rng.random() < 0.3:
                for g in (g1, g2):
                    for nd_ in g["nodes"]:
                        if rng.random() < 0.2:
                            nd_[1]["element"] = "*"
                kw["prune_wc"] = True
            if rng.random() < 0.4:       # symmetric host: many mappings per host node set
                k = rng.randint(3, 5)
                g2 = {"nodes": [[i, {"element": "C", "charge": 0}] for i in range(1, k + 1)],
                      "edges": [[i, i % k + 1, {"order": 1}] for i in range(1, k + 1)]}
                g2 = G.random_relabel(g2, rng, 1, 15)
                if rng.random() < 0.5:
                    g1, g2 = g2, g1
            out.append(_mk("prune-auto", g1, g2, rng.random() < 0.6, prune_auto=True, **kw))
        elif r < 0.75:
            out.append(_mk("mcs-mol", g1, g2, True, mode="mcs_mol"))
        else:
            out.append(_mk("component", g1, g2, True, mode="component"))
    return out


# ------------------------------------------------------------------ round 3: histories, degenerate values, sizes

def _gcopy(g):
    return {"nodes": [[n, dict(a)] for n, a in g["nodes"]], "edges": [[u, v, dict(a)] for u, v, a in g["edges"]]}


def _edit(rng, g):
    """A caller's in-place edit: count-preserving (one label / one order changed) or count-changing (atom or bond added/removed)."""
    h = _gcopy(g)
    z = rng.random()
    if z < 0.3 and h["nodes"]:
        a = rng.choice(h["nodes"])[1]
        a["element"] = rng.choice([e for e in ("C", "O", "N") if e != a.get("element")])
    elif z < 0.55 and h["edges"]:
        a = rng.choice(h["edges"])[2]
        a["order"] = rng.choice([o for o in (1, 2, 1.5) if o != a.get("order")])
    elif z < 0.7 and len(h["nodes"]) > 1:
        n = rng.choice(h["nodes"])[0]
        h["nodes"] = [x for x in h["nodes"] if x[0] != n]
        h["edges"] = [e for e in h["edges"] if n not in (e[0], e[1])]
    elif z < 0.85:
        new = max([n for n, _ in h["nodes"]] + [0]) + rng.randint(1, 3)
        h["nodes"].append([new, {"element": rng.choice(["C", "O"]), "charge": 0}])
        if len(h["nodes"]) > 1 and rng.random() < 0.7:
            h["edges"].append([rng.choice(h["nodes"][:-1])[0], new, {"order": rng.choice([1, 2])}])
    elif h["edges"]:
        h["edges"].pop(rng.randrange(len(h["edges"])))
    else:
        h["nodes"].append([max([n for n, _ in h["nodes"]] + [0]) + 1, {"element": "C", "charge": 0}])
    return h


def _as_morphed(prev, new):
    """The node order networkx has after `prev` was edited in place into `new` (_morph): surviving nodes keep their old
    position, added nodes follow.  Component-wise mode breaks ties between equally large components by this order."""
    want = {n: a for n, a in new["nodes"]}
    old = [n for n, _ in prev["nodes"]]
    nodes = [[n, want[n]] for n in old if n in want] + [[n, a] for n, a in new["nodes"] if n not in set(old)]
    return {"nodes": nodes, "edges": new["edges"]}


_DIRS = ["G1_to_G2", "G2_to_G1", "pattern_to_host", "kw"]
_NON_SEARCH = ("reads", "bad_side")


def _hist_case(kind, variant, configs, steps):
    last = steps[-1]
    c = dict(kind=kind, variant=variant, configs=configs, steps=steps, g1=last["g1"], g2=last["g2"], mcs=last["mcs"])
    c.update({k: configs[0][k] for k in ("node_attrs", "node_defaults", "edge_attrs")})
    c["prune_wc"] = configs[0].get("prune_wc", False)
    return c


def _wc_flip_pair(rng):
    """The graph with MORE atoms has the fewer non-wildcard atoms: pruning flips which graph is the pattern."""
    a = G.random_relabel(_rand(rng, rng.randint(1, 3), 0.5), rng, 1, 15)
    b = G.random_relabel(_rand(rng, rng.randint(2, 4), 0.5), rng, 1, 15)
    while len(a["nodes"]) >= len(b["nodes"]):
        b = G.random_relabel(_rand(rng, len(a["nodes"]) + rng.randint(1, 2), 0.5), rng, 1, 15)
    a = _gcopy(a)
    top = max(n for n, _ in a["nodes"])
    for i in range(len(b["nodes"]) - len(a["nodes"]) + rng.randint(1, 2)):      # a gets more atoms than b, all wildcards
        a["nodes"].append([top + 1 + i, {"element": "*", "charge": 0}])
        a["edges"].append([rng.choice(a["nodes"][:-1])[0], top + 1 + i, {"order": 1}])
    return (a, b) if rng.random() < 0.5 else (b, a)


def _prune_flip(rng, n):
    out = []
    for t in range(n):
        g1, g2 = _wc_flip_pair(rng)
        kw = {}
        if rng.random() < 0.4:
            # non-default wildcard_element / element_key: the wildcard is "X" (or the int 0) stored under "symbol"; atoms whose
            # "element" is "*" are then ordinary atoms
            wc, ek = rng.choice([("X", "symbol"), (0, "symbol"), ("X", "element"), ("*", "symbol")])
            for g in (g1, g2):
                for nd_ in g["nodes"]:
                    is_wc = nd_[1].get("element") == "*"
                    if ek != "element":
                        nd_[1][ek] = wc if is_wc else nd_[1].get("element")
                        if rng.random() < 0.5 and not is_wc:
                            del nd_[1][ek]
                    elif is_wc:
                        nd_[1]["element"] = wc
            kw = dict(wildcard=wc, element_key=ek)
        out.append(_mk("prune-flip" + ("+wcopts" if kw else ""), g1, g2, rng.random() < 0.7, prune_wc=True,
                       implicit=rng.random() < 0.3, **kw))
    return out


def _small_pair(rng, wc=False):
    if wc and rng.random() < 0.5:
        return _wc_flip_pair(rng)
    z = rng.random()
    if z < 0.4:
        return _planted(rng, rng.randint(1, 5), rng.randint(1, 5))
    if z < 0.7:
        return (G.random_relabel(_rand(rng, rng.randint(3, 5), 0.4), rng, 1, 15),
                G.random_relabel(_rand(rng, rng.randint(1, 3), 0.5), rng, 1, 15))
    return (G.random_relabel(_rand(rng, rng.randint(1, 4), 0.4), rng, 1, 15),
            G.random_relabel(_rand(rng, rng.randint(2, 5), 0.4), rng, 1, 15))


def _histories(rng, n, calls=("fcs",)):
    """2-5 calls on ONE matcher object (and on shared graph objects): other pairs, arguments swapped, inputs edited in place,
    another configuration in between; derived views read repeatedly, in random order, and edited by the caller."""
    out = []
    for t in range(n):
        variant = "mtg" if rng.random() < 0.25 else "matcher"
        two = rng.random() < 0.3
        base = dict(node_attrs=["element", "charge"] if two else ["element"], node_defaults=["*", 0] if two else ["*"],
                    edge_attrs=["order"], implicit=rng.random() < 0.3)
        if variant == "matcher" and rng.random() < 0.35:
            base["prune_wc"] = True
        if variant == "matcher" and rng.random() < 0.15:
            base["prune_auto"] = True
        configs = [base]
        if variant == "matcher" and rng.random() < 0.3:
            configs.append(dict(node_attrs=["element"] if two else ["element", "charge"], node_defaults=["*"] if two else ["*", 0],
                                edge_attrs=["order"], prune_wc=rng.random() < 0.3))
        steps = []
        flavour = rng.choice(["pairs", "pairs", "swap", "edit", "edit", "mixed"])
        wc = bool(base.get("prune_wc"))
        g1, g2 = _small_pair(rng, wc)
        for k in range(rng.randint(2, 5 if flavour == "pairs" else 4)):
            st = dict(mcs=rng.random() < 0.7, call=rng.choice(calls) if variant == "matcher" else "fcs",
                      reads=[rng.choice(_DIRS) for _ in range(rng.randint(1, 5))], positional=rng.random() < 0.3)
            if len(configs) > 1:
                st["cfg"] = rng.randrange(2)
            if k == 0:
                st.update(g1=g1, g2=g2)
            else:
                pr = steps[-1]
                f = flavour if flavour != "mixed" else rng.choice(["pairs", "swap", "edit", "same"])
                if f == "pairs":
                    a, b = _small_pair(rng, wc)
                    if rng.random() < 0.5 and len(a["nodes"]) < len(b["nodes"]) and len(pr["g1"]["nodes"]) <= len(pr["g2"]["nodes"]):
                        a, b = b, a             # make the orientation flip between consecutive calls
                    st.update(g1=a, g2=b)
                    if rng.random() < 0.3:      # ... on recycled graph objects
                        st.update(g1=_as_morphed(pr["g1"], a), g2=_as_morphed(pr["g2"], b),
                                  src_g1=[k - 1, "g1"], src_g2=[k - 1, "g2"])
                elif f == "swap":
                    st.update(g1=pr["g2"], g2=pr["g1"], src_g1=[k - 1, "g2"], src_g2=[k - 1, "g1"])
                elif f == "edit":
                    if rng.random() < 0.5:
                        st.update(g1=_as_morphed(pr["g1"], _edit(rng, pr["g1"])), g2=pr["g2"])
                    else:
                        st.update(g1=pr["g1"], g2=_as_morphed(pr["g2"], _edit(rng, pr["g2"])))
                    st.update(src_g1=[k - 1, "g1"], src_g2=[k - 1, "g2"])
                else:
                    st.update(g1=pr["g1"], g2=pr["g2"], src_g1=[k - 1, "g1"], src_g2=[k - 1, "g2"])
            steps.append(st)
        out.append(_hist_case("history/" + flavour, variant, configs, steps))
    return out


def _degenerate(rng, n):
    """Empty graphs, single atoms, isolated atoms, node id 0 and ids with 2-3 digits, falsy labels (element "" or 0, charge 0
    against a missing charge), bond order 0 / 0.0, labels absent on some atoms only -- as single calls and inside histories."""
    def one():
        z = rng.random()
        if z < 0.2:
            g = {"nodes": [], "edges": []}
        elif z < 0.4:
            g = {"nodes": [[rng.choice([0, 7, 10, 123]), {"element": rng.choice(["C", "", 0, "*"]), "charge": 0}]], "edges": []}
        else:
            k = rng.randint(2, 4)
            ids = rng.sample([0, 1, 2, 9, 10, 11, 99, 100, 101], k)
            g = {"nodes": [[i, {"element": rng.choice(["C", "C", "", 0]), "charge": rng.choice([0, 0, -1, 10])}] for i in ids], "edges": []}
            for x in range(k):
                for y in range(x + 1, k):
                    if rng.random() < 0.4:
                        g["edges"].append([ids[x], ids[y], {"order": rng.choice([0, 0.0, 1, 2])}])
            for _, a in g["nodes"]:
                if rng.random() < 0.3:
                    a.pop("charge")
                if rng.random() < 0.2:
                    a.pop("element")
            for e in g["edges"]:
                if rng.random() < 0.2:
                    e[2].pop("order")
        return g
    out = []
    for t in range(n):
        variant = "mtg" if rng.random() < 0.25 else "matcher"
        two = rng.random() < 0.5
        cfg = dict(node_attrs=["element", "charge"] if two else ["element"], node_defaults=["*", 0] if two else ["*"],
                   edge_attrs=["order"], implicit=rng.random() < 0.3)
        g1, g2 = one(), one()
        if rng.random() < 0.5:
            out.append(_mk("degenerate", g1, g2, rng.random() < 0.6, variant, cfg["node_attrs"], cfg["node_defaults"],
                           implicit=cfg["implicit"]))
        else:
            g3 = one()
            steps = [dict(g1=g1, g2=g2, mcs=rng.random() < 0.6, reads=["G2_to_G1", "G1_to_G2"]),
                     dict(g1=g2, g2=g3, mcs=rng.random() < 0.6, reads=["G1_to_G2", "kw"], src_g1=[0, "g2"]),
                     dict(g1=g3, g2=g1, mcs=True, reads=["pattern_to_host", "G2_to_G1"], src_g1=[1, "g2"], src_g2=[0, "g1"])]
            out.append(_hist_case("history/degenerate", variant, [cfg], steps))
    return out


def _its_pair(rng):
    """A small ITS-like graph (typesGH node tuples, (order_G, order_H) edge pairs) and its reactant / product sides computed
    HERE (independently of synkit.Graph.ITS.its_decompose): node attributes element, aromatic, hcount, charge, atom_map."""
    base = _rand(rng, rng.randint(2, 5), 0.5, connected=rng.random() < 0.7)
    ids = [n for n, _ in base["nodes"]]
    its = {"nodes": [], "edges": []}
    gl = {"nodes": [], "edges": []}
    gr = {"nodes": [], "edges": []}
    for n, a in base["nodes"]:
        cl, cr = a.get("charge", 0), (a.get("charge", 0) if rng.random() < 0.7 else rng.choice([0, 1, -1]))
        hl, hr = rng.choice([0, 1, 2]), rng.choice([0, 1, 2])
        its["nodes"].append([n, {"element": a["element"], "charge": cl,
                                 "typesGH": [[a["element"], False, hl, cl, []], [a["element"], False, hr, cr, []]]}])
        gl["nodes"].append([n, {"element": a["element"], "aromatic": False, "hcount": hl, "charge": cl, "atom_map": n}])
        gr["nodes"].append([n, {"element": a["element"], "aromatic": False, "hcount": hr, "charge": cr, "atom_map": n}])
    pairs = {frozenset((u, v)): a.get("order", 1) for u, v, a in base["edges"]}
    for x in range(len(ids)):
        for y in range(x + 1, len(ids)):
            key = frozenset((ids[x], ids[y]))
            og = pairs.get(key, 0)
            z = rng.random()
            oh = og if z < 0.6 else rng.choice([0, 1, 2]) if z < 0.9 else 1.5
            if og == 0 and oh == 0:
                continue
            its["edges"].append([ids[x], ids[y], {"order": [og, oh], "standard_order": og - oh}])
            if og > 0:
                gl["edges"].append([ids[x], ids[y], {"order": og}])
            if oh > 0:
                gr["edges"].append([ids[x], ids[y], {"order": oh}])
    return its, gl, gr


def _rc_side_histories(rng, n):
    """find_rc_mapping through its ITS facade (sides r / l / op, lower or upper case, positional or keyword, with and without
    component-wise mode) interleaved with plain calls on the same matcher; the model is given the sides the facade must select."""
    out = []
    for t in range(n):
        two = rng.random() < 0.4
        cfg = dict(node_attrs=["element", "charge"] if two else ["element"], node_defaults=["*", 0] if two else ["*"],
                   edge_attrs=["order"], implicit=rng.random() < 0.3)
        steps = []
        variant = "matcher" if rng.random() < 0.8 else "mtg"
        for k in range(rng.randint(1, 3)):
            if k and rng.random() < 0.3:
                a, b = _small_pair(rng)
                steps.append(dict(g1=a, g2=b, mcs=rng.random() < 0.7, call="fcs", reads=[rng.choice(_DIRS) for _ in range(2)]))
                continue
            its1, l1, r1 = _its_pair(rng)
            its2, l2, r2 = _its_pair(rng)
            if rng.random() < 0.5:
                m = dict(zip([x for x, _ in its2["nodes"]], rng.sample(range(20, 40), len(its2["nodes"]))))
                its2, l2, r2 = G.relabel(its2, m), G.relabel(l2, m), G.relabel(r2, m)
                for g_ in (l2, r2):
                    for nd_ in g_["nodes"]:
                        nd_[1]["atom_map"] = nd_[0]
            side = rng.choice(["r", "l", "op"]) if variant == "matcher" else "op"
            g1, g2 = {"r": (r1, r2), "l": (l1, l2), "op": (r1, l2)}[side]
            steps.append(dict(g1=g1, g2=g2, its1=its1, its2=its2, side=side, mcs=rng.random() < 0.8, call="rc_side",
                              sides=dict(l1=l1, r1=r1, l2=l2, r2=r2),
                              component=variant == "matcher" and rng.random() < 0.4, positional=rng.random() < 0.5,
                              mol=False,
                              upper=rng.random() < 0.3,
                              reads=[rng.choice(_DIRS) for _ in range(rng.randint(1, 3))]))
        for st in steps:         # mcs_mol=True forwarded through the facade (component=False)
            if st.get("call") == "rc_side" and variant == "matcher" and not st["component"] and rng.random() < 0.3:
                st["mol"] = True
        out.append(_hist_case("history/rc-sides", variant, [cfg], steps))
    return out


def _component_cases(rng, n):
    """Component-wise mode (find_rc_mapping(side='its', component=True)): disconnected graphs with several equally large
    components (ties are broken by node order), different numbers of components, wildcard pruning that splits components."""
    out = []
    for t in range(n):
        def multi():
            parts, nxt = [], 1
            for _ in range(rng.randint(1, 4)):
                k = rng.choice([1, 2, 2, 3, 3, 4])
                c = _rand(rng, k, 0.5, connected=True, elements=("C", "C", "O", "N"))
                ids = [x for x, _ in c["nodes"]]
                parts.append(G.relabel(c, {i: nxt + j for j, i in enumerate(ids)}))
                nxt += k
            g = {"nodes": sum((p["nodes"] for p in parts), []), "edges": sum((p["edges"] for p in parts), [])}
            return G.shuffle_insertion(G.random_relabel(g, rng, 0, 30), rng)
        g1, g2 = multi(), multi()
        kw = {}
        if rng.random() < 0.4:
            frac = rng.choice([0.2, 0.6, 0.7])      # > 1/2 wildcards: the pruned copy is iterated in Python-set order (_nx_prune_order)
            for g in (g1, g2):
                for nd_ in g["nodes"]:
                    if rng.random() < frac:
                        nd_[1]["element"] = "*"
            kw["prune_wc"] = True
        if rng.random() < 0.3:
            kw["implicit"] = True
        out.append(_mk("component", _gcopy(g1), _gcopy(g2), rng.random() < 0.7, mode="component", **kw))
    return out


def _mcs_mol_cases(rng, n):
    """find_common_subgraph(mcs_mol=True): graphs made of several small molecules; the second graph holds relabelled copies of
    some of them (so whole components match), near-misses of the same size (one order / one element changed) placed BEFORE the
    true partner, duplicates (two equal components compete for one partner), and unrelated components."""
    out = []
    for t in range(n):
        mols = [_rand(rng, rng.choice([1, 2, 2, 3, 3, 4]), 0.6, connected=True, elements=("C", "C", "O", "N"))
                for _ in range(rng.randint(1, 4))]
        if rng.random() < 0.4:
            mols.append(_gcopy(rng.choice(mols)))
        ring = None
        if rng.random() < 0.4:      # a ring; the other graph gets the same atoms with one ring bond missing (same size, still connected)
            k = rng.randint(3, 4)
            ring = {"nodes": [[i, {"element": rng.choice(["C", "N"]), "charge": 0}] for i in range(1, k + 1)],
                    "edges": [[i, i % k + 1, {"order": 1}] for i in range(1, k + 1)]}
            mols.append(ring)

        def assemble(parts):
            g, nxt = {"nodes": [], "edges": []}, 1
            for p_ in parts:
                ids = [x for x, _ in p_["nodes"]]
                q = G.relabel(p_, {i: nxt + j for j, i in enumerate(ids)})
                g["nodes"] += q["nodes"]
                g["edges"] += q["edges"]
                nxt += len(ids)
            return G.shuffle_insertion(G.random_relabel(g, rng, 0, 40), rng)
        second = []
        for m_ in mols:
            z = rng.random()
            if m_ is ring:
                opened = _gcopy(ring)
                opened["edges"].pop(rng.randrange(len(opened["edges"])))
                second.append(opened)
                if rng.random() < 0.5:
                    second.append(_gcopy(ring))
            elif z < 0.55:
                second.append(_gcopy(m_))
            elif z < 0.8:
                second.append(_edit(rng, m_) if rng.random() < 0.5 else _gcopy(m_))
                second.insert(0, _edit(rng, m_))
        for _ in range(rng.randint(0, 2)):
            second.append(_rand(rng, rng.randint(1, 3), 0.6, connected=True))
        rng.shuffle(second)
        g1, g2 = _gcopy(assemble(mols)), _gcopy(assemble(second))
        kw = {}
        if rng.random() < 0.25:
            for g in (g1, g2):
                for nd_ in g["nodes"]:
                    if rng.random() < rng.choice([0.15, 0.6]):
                        nd_[1]["element"] = "*"
            kw["prune_wc"] = True
        if rng.random() < 0.5:
            g1, g2 = g2, g1
        out.append(_mk("mcs-mol", g1, g2, rng.random() < 0.5, mode="mcs_mol", implicit=rng.random() < 0.3, **kw))
    return out


def _falsy_order(rng, n):
    """A graph and a relabelled copy; bonds of order 0 / 0.0 (falsy) on one side are a MISSING order on the other side for some
    bonds (must not be mapped onto each other in the Matcher copy, where only missing matches missing), equal 0 for others."""
    out = []
    for t in range(n):
        g1 = _rand(rng, rng.randint(2, 4), 0.7, connected=True)
        for e in g1["edges"]:
            e[2]["order"] = rng.choice([0, 0.0, 0, 1])
        ids = [x for x, _ in g1["nodes"]]
        g2 = _gcopy(G.shuffle_insertion(G.relabel(g1, dict(zip(ids, rng.sample(range(0, 12), len(ids))))), rng))
        for e in g2["edges"]:
            if e[2]["order"] == 0 and rng.random() < 0.6:
                del e[2]["order"]
        if rng.random() < 0.5:
            g1, g2 = g2, g1
        out.append(_mk("falsy-order", g1, g2, rng.random() < 0.7, implicit=rng.random() < 0.3))
    return out


def _sizes(rng, n):
    """Graphs with 10-12 atoms and two- / three-digit node ids: a relabelled copy (possibly with one atom changed or two
    atoms added), maximum mode, so that the search stops at one of the two top levels."""
    out = []
    for t in range(n):
        k = rng.randint(10, 12)
        g1 = _rand(rng, k, 0.0, elements=("C", "N", "O", "S"))
        ids = [x for x, _ in g1["nodes"]]
        for i in range(1, k):                   # random tree + a few ring closures, varied orders
            g1["edges"].append([ids[rng.randrange(i)], ids[i], {"order": rng.choice([1, 1, 2, 1.5])}])
        have = {frozenset((u, v)) for u, v, _ in g1["edges"]}
        for _ in range(rng.randint(0, 2)):
            u, v = rng.sample(ids, 2)
            if frozenset((u, v)) not in have:
                have.add(frozenset((u, v)))
                g1["edges"].append([u, v, {"order": 1}])
        g1 = G.random_relabel(g1, rng, 10, 140)
        ids = [x for x, _ in g1["nodes"]]
        g2 = G.shuffle_insertion(G.relabel(g1, dict(zip(ids, rng.sample(range(10, 400), k)))), rng)
        g2 = _gcopy(g2)
        z = rng.random()
        if z < 0.35:
            a = rng.choice([x for x in g2["nodes"] if sum(1 for e in g2["edges"] if x[0] in (e[0], e[1])) == 1] or g2["nodes"])[1]
            a["element"] = "P"                 # a leaf changed: maximum = k - 1
        elif z < 0.6:
            new = 500 + t
            g2["nodes"].append([new, {"element": "C", "charge": 0}])
            g2["edges"].append([rng.choice(g2["nodes"][:-1])[0], new, {"order": 1}])
        if rng.random() < 0.5:
            g1, g2 = g2, g1
        variant = "mtg" if rng.random() < 0.3 else "matcher"
        if rng.random() < 0.6:
            out.append(_mk("size10+", g1, g2, True, variant))
        else:
            cfg = dict(node_attrs=["element"], node_defaults=["*"], edge_attrs=["order"])
            sm1, sm2 = _small_pair(rng)
            steps = [dict(g1=g1, g2=g2, mcs=True, reads=["G1_to_G2"]), dict(g1=sm1, g2=sm2, mcs=True, reads=["G2_to_G1", "G1_to_G2"]),
                     dict(g1=g2, g2=g1, mcs=True, reads=["G2_to_G1"], src_g1=[0, "g2"], src_g2=[0, "g1"])]
            out.append(_hist_case("history/size10+", variant, [cfg], steps))
    return out


# ------------------------------------------------------------------ round 5: the object's state, raw dictionaries, constructor

_BAD_DIRS = ["G1_to_g2", "g1_to_g2", "", "host_to_pattern", "G2_to_G1 ", "both"]


def _raw_decorate(rng, g1, g2, flavour):
    """Attribute dictionaries as callers really have them: extra keys, orders that float() accepts in other spellings ("1",
    "2.0", True) or rejects (ITS order pairs, words)."""
    g1, g2 = _gcopy(g1), _gcopy(g2)
    for g in (g1, g2):
        for _, a in g["nodes"]:
            if rng.random() < 0.5:
                a["hcount"] = rng.choice([0, 1, 2])
            if rng.random() < 0.3:
                a["aromatic"] = False
            if rng.random() < 0.3:
                a["neighbors"] = ["C", "O"]
        for e in g["edges"]:
            o = e[2].get("order")
            if rng.random() < 0.4:
                e[2]["standard_order"] = rng.choice([0, 1, -1])
            if o is None:
                continue
            if flavour == "spelling":
                z = rng.random()
                if z < 0.3:
                    e[2]["order"] = {1: "1", 2: "2.0", 1.5: "1.5", 0: "0", 3: "3"}.get(o, o)
                elif z < 0.4 and o == 1:
                    e[2]["order"] = True
                elif z < 0.5:
                    e[2]["order"] = float(o)
            elif flavour == "pairs":
                # ITS-like order pairs: equal pairs match, a pair never matches a number
                if rng.random() < 0.8:
                    e[2]["order"] = [o, rng.choice([o, o, 0, 1])] if rng.random() < 0.8 else [float(o), float(o)]
            elif flavour == "words":
                e[2]["order"] = {1: "single", 2: "double", 1.5: "aromatic"}.get(o, o) if rng.random() < 0.7 else o
    return g1, g2


def _rand_cfg(rng):
    """A configuration given by the arguments REALLY passed; returns the cfg dict with the effective values filled in."""
    z = rng.random()
    if z < 0.25:
        passed = dict(node_attrs=None, node_defaults=None)
    elif z < 0.4:
        passed = dict(node_attrs=["element"], node_defaults=None)
    elif z < 0.55:
        passed = dict(node_attrs=["element", "charge"], node_defaults=None)          # defaults ["*", "*"]
    elif z < 0.75:
        passed = dict(node_attrs=["element", "charge"], node_defaults=["*", 0])
    elif z < 0.85:
        passed = dict(node_attrs=["charge", "element"], node_defaults=[0, "*"])
    elif z < 0.92:
        passed = dict(node_attrs=["element", "hcount"], node_defaults=["*", 0])
    else:
        passed = dict(node_attrs=[], node_defaults=None if rng.random() < 0.5 else [])
    passed["edge_attrs"] = rng.choice([None, None, [], ["order"], ["order", "standard_order"], ["standard_order", "order"], ["standard_order"]])
    na = passed["node_attrs"] if passed["node_attrs"] is not None else ["element"]
    nd = passed["node_defaults"] if passed["node_defaults"] is not None else ["*"] * len(na)
    cfg = dict(node_attrs=list(na), node_defaults=list(nd), edge_attrs=list(passed["edge_attrs"] or ["order"]), passed=passed)
    if rng.random() < 0.3:
        cfg["prune_wc"] = True
        if rng.random() < 0.4:
            cfg["wildcard"], cfg["element_key"] = rng.choice([("X", "symbol"), (0, "symbol"), ("X", "element")])
    return cfg


def _state_histories(rng, n):
    """One matcher object (sometimes two) through searches, READS (before any search, with unknown direction strings, repeated),
    facade calls with an unknown side (the cache is reset before the error), searches again; graphs with raw attribute
    dictionaries (extra keys, orders in other spellings, order pairs, words)."""
    out = []
    for t in range(n):
        configs = [_rand_cfg(rng)]
        if rng.random() < 0.3:
            configs.append(_rand_cfg(rng))
        flavour = rng.choice(["plain", "spelling", "pairs", "words"])
        steps = []

        def reads(ci, prev):
            ds = [rng.choice(["G1_to_G2", "G2_to_G1", "pattern_to_host"] + _BAD_DIRS) for _ in range(rng.randint(1, 4))]
            st = dict(call="reads", reads=ds, cfg=ci, mcs=True, g1=prev[0], g2=prev[1])
            return st
        prev = (_EMPTY_G, _EMPTY_G)
        used = set()
        for k in range(rng.randint(2, 6)):
            ci = rng.randrange(len(configs))
            z = rng.random()
            if k == 0 and rng.random() < 0.5:
                steps.append(reads(ci, prev))
                continue
            if z < 0.3 and steps:
                steps.append(reads(ci, prev))
                continue
            if z < 0.42:
                its1, _, _ = _its_pair(rng)
                its2, _, _ = _its_pair(rng)
                steps.append(dict(call="bad_side", side=rng.choice(["x", "lr", "", "right", "ITS ", "o p"]), its1=its1, its2=its2, cfg=ci,
                                  mcs=rng.random() < 0.5, component=rng.random() < 0.5, g1=prev[0], g2=prev[1]))
                continue
            wc = bool(configs[ci].get("prune_wc"))
            if rng.random() < 0.15:
                a, _, _ = _its_pair(rng)            # real ITS graphs through side="its": order pairs, typesGH tuples
                b, _, _ = _its_pair(rng)
                if rng.random() < 0.5:
                    b = G.relabel(a, dict(zip([x for x, _ in a["nodes"]], rng.sample(range(20, 40), len(a["nodes"])))))
                call = rng.choice(["rc_its", "component"])
            else:
                a, b = _small_pair(rng, wc and "wildcard" not in configs[ci])
                if wc and "wildcard" in configs[ci]:
                    for g in (a, b):
                        for nd_ in g["nodes"]:
                            if rng.random() < 0.3:
                                nd_[1][configs[ci]["element_key"]] = configs[ci]["wildcard"]
                if rng.random() < 0.35 and steps and prev[0]["nodes"]:
                    a, b = (prev[1], prev[0]) if rng.random() < 0.5 else (prev[0], _edit(rng, prev[1]))
                elif flavour != "plain":
                    if rng.random() < 0.5:        # a relabelled copy, so that the decorated orders decide
                        ids = [x for x, _ in a["nodes"]]
                        b = G.shuffle_insertion(G.relabel(a, dict(zip(ids, rng.sample(range(1, 16), len(ids))))), rng)
                    a, b = _raw_decorate(rng, a, b, flavour)
                call = rng.choice(["fcs", "fcs", "fcs", "rc_its", "component"])
            st = dict(g1=a, g2=b, mcs=rng.random() < 0.7, call=call, cfg=ci, positional=rng.random() < 0.3,
                      reads=[rng.choice(_DIRS) for _ in range(rng.randint(1, 3))])
            if ci in used and rng.random() < 0.15:
                st["fresh"] = True
            used.add(ci)
            steps.append(st)
            prev = (a, b)
        if all(s_.get("call") in _NON_SEARCH for s_ in steps):
            a, b = _small_pair(rng)
            steps.append(dict(g1=a, g2=b, mcs=True, call="fcs", cfg=0, reads=["G1_to_G2"]))
        out.append(_hist_case("history/state+" + flavour, "matcher", configs, steps))
    return out


def _state_histories_mtg(rng, n):
    """The MTG copy as an object: constructor with names / defaults of different lengths (generic_node_match zips them: the
    shortest decides), reads before any search and between searches, its facade, orders in other spellings."""
    out = []
    for t in range(n):
        z = rng.random()
        if z < 0.3:
            passed = dict(node_attrs=None, node_defaults=None)
        elif z < 0.5:
            passed = dict(node_attrs=["element", "charge"], node_defaults=["*", 0])
        elif z < 0.65:
            passed = dict(node_attrs=["element", "charge"], node_defaults=["*"])            # charge is NOT compared
        elif z < 0.8:
            passed = dict(node_attrs=["element"], node_defaults=["*", 0])
        elif z < 0.9:
            passed = dict(node_attrs=["element", "charge"], node_defaults=None)
        else:
            passed = dict(node_attrs=["charge", "element"], node_defaults=[0])              # only the charge is compared
        passed["edge_attrs"] = rng.choice([None, ["order"], ["order"], ["standard_order"]])
        na = passed["node_attrs"] if passed["node_attrs"] is not None else ["element"]
        nd = passed["node_defaults"] if passed["node_defaults"] is not None else ["*"] * len(na)
        k_ = min(len(na), len(nd))
        cfg = dict(node_attrs=list(na[:k_]), node_defaults=list(nd[:k_]), edge_attrs=list(passed["edge_attrs"] or ["order"]), passed=passed)
        steps, prev = [], (_EMPTY_G, _EMPTY_G)
        for k in range(rng.randint(2, 5)):
            if (k == 0 and rng.random() < 0.5) or (steps and rng.random() < 0.3):
                steps.append(dict(call="reads", reads=[], cfg=0, mcs=True, g1=prev[0], g2=prev[1]))
                continue
            a, b = _small_pair(rng)
            if steps and prev[0]["nodes"] and rng.random() < 0.35:
                a, b = prev[1], prev[0]
            elif rng.random() < 0.5:
                if rng.random() < 0.5:
                    ids = [x for x, _ in a["nodes"]]
                    b = G.shuffle_insertion(G.relabel(a, dict(zip(ids, rng.sample(range(1, 16), len(ids))))), rng)
                a, b = _raw_decorate(rng, a, b, "spelling")
            if cfg["edge_attrs"] == ["standard_order"]:
                for g in (a, b):
                    for e in g["edges"]:
                        e[2].setdefault("standard_order", rng.choice([0, 1]))
            steps.append(dict(g1=a, g2=b, mcs=rng.random() < 0.7, call="fcs", cfg=0, reads=[]))
            prev = (a, b)
        if all(s_.get("call") in _NON_SEARCH for s_ in steps):
            a, b = _small_pair(rng)
            if cfg["edge_attrs"] == ["standard_order"]:     # MTG: the compared bond attribute is missing on at most one graph (ASSUMPTIONS)
                for g in (a, b):
                    for e in g["edges"]:
                        e[2].setdefault("standard_order", rng.choice([0, 1]))
            steps.append(dict(g1=a, g2=b, mcs=True, call="fcs", cfg=0, reads=[]))
        out.append(_hist_case("history/state-mtg", "mtg", [cfg], steps))
    return out


def _ctor_cases(rng, n):
    """MCSMatcher.__init__ alone: defaulting of node_attrs / node_defaults, the length test (ValueError), edge_attrs or ["order"]."""
    out = []
    names = ["element", "charge", "hcount", "atom_map"]
    for t in range(n):
        na = None if rng.random() < 0.3 else rng.sample(names, rng.randint(0, 3))
        k = len(na) if na is not None else 1
        z = rng.random()
        nd = None if z < 0.35 else [rng.choice(["*", 0, "", "C", 1]) for _ in range(k if z < 0.7 else max(0, k + rng.choice([-1, 1, 2])))]
        c = dict(node_attrs=na, node_defaults=nd, edge_attrs=rng.choice([None, [], ["order"], ["standard_order"], ["order", "standard_order"]]),
                 positional=rng.random() < 0.4)
        if rng.random() < 0.5:
            c.update(prune_wc=rng.random() < 0.5, prune_auto=rng.random() < 0.5)
        if rng.random() < 0.4:
            c.update(wildcard=rng.choice(["X", 0, "*"]), element_key=rng.choice(["symbol", "element"]))
        out.append(dict(kind="ctor", variant="matcher", ctor=c))
    return out


def gen_cases(tier, rng):
    cases = []
    cls = {n: [_strip(g) for g in G.iso_classes(n, G.MOL_NODE_LABELS_NOH, G.MOL_EDGE_LABELS)] for n in (1, 2, 3)}
    small = cls[1] + cls[2] + cls[3]
    # exhaustive: all ordered pairs of class representatives <= 3 nodes, maximum mode (second graph on shifted, reversed ids)
    for a in small:
        for b in small:
            ids = [x for x, _ in b["nodes"]]
            b2 = G.relabel(b, {i: 7 - i for i in ids})
            cases.append(_mk("exh<=3/mcs", a, b2, True))
    # exhaustive all-sizes mode on <= 2 nodes, and a seeded third of the <= 3 pairs (both variants)
    for a in cls[1] + cls[2]:
        for b in cls[1] + cls[2]:
            cases.append(_mk("exh<=2/all", a, b, False))
            cases.append(_mk("exh<=2/mtg", a, b, True, "mtg"))
    pairs = [(a, b) for a in small for b in small]
    for a, b in rng.sample(pairs, 1200 if tier == "quick" else 4000):
        ids = [x for x, _ in b["nodes"]]
        b2 = G.relabel(b, dict(zip(ids, rng.sample(range(1, 9), len(ids)))))
        cases.append(_mk("sample<=3/all", a, b2, False, rng.choice(["matcher", "matcher", "mtg"])))
    if tier == "thorough":
        cls4 = [_strip(g) for g in G.iso_classes(4, G.MOL_NODE_LABELS_NOH, G.MOL_EDGE_LABELS)]
        allc = small + cls4
        for _ in range(30000):
            a, b = rng.choice(allc), rng.choice(cls4)
            if rng.random() < 0.5:
                a, b = b, a
            ids = [x for x, _ in b["nodes"]]
            b2 = G.relabel(b, dict(zip(ids, rng.sample(range(1, 9), len(ids)))))
            cases.append(_mk("sample<=4", a, b2, rng.random() < 0.7, rng.choice(["matcher", "matcher", "mtg"])))
    cases += _random_cases(rng, 900 if tier == "quick" else 9000, tier != "quick")
    cases += _low_overlap(rng, 150 if tier == "quick" else 1500)
    cases += _respelled(rng, 250 if tier == "quick" else 2500)
    cases += _oracle_only(rng, 220 if tier == "quick" else 1500)
    cases += _histories(rng, 320 if tier == "quick" else 3000)
    cases += _histories(rng, 60 if tier == "quick" else 600, calls=("fcs", "rc_its", "component", "mcs_mol"))
    cases += _degenerate(rng, 120 if tier == "quick" else 1000)
    cases += _prune_flip(rng, 60 if tier == "quick" else 500)
    cases += _falsy_order(rng, 50 if tier == "quick" else 400)
    cases += _component_cases(rng, 150 if tier == "quick" else 1500)
    cases += _rc_side_histories(rng, 80 if tier == "quick" else 600)
    cases += _mcs_mol_cases(rng, 150 if tier == "quick" else 1500)
    cases += _sizes(rng, 24 if tier == "quick" else 150)
    cases += _state_histories(rng, 200 if tier == "quick" else 1500)
    cases += _ctor_cases(rng, 60 if tier == "quick" else 300)
    cases += _state_histories_mtg(rng, 80 if tier == "quick" else 600)
    # wave 4: every optional argument alone / in pairs -- in 40 % of the calls the arguments whose value equals the signature default
    # are OMITTED (mcs, mcs_mol, side, component of the search entry points; prune_wc, prune_automorphisms, wildcard_element,
    # element_key of the constructor), so every default value is exercised; own RNG, the cases themselves are unchanged
    import random as _random
    rng2 = _random.Random(rng.getrandbits(32))
    # audit round 5 / repair 24a0150: MTG copy with the bond attribute missing (or non-numeric) on BOTH graphs
    for t in range(60 if tier == "quick" else 400):
        g1 = _rand(rng2, rng2.randint(2, 5), rng2.choice([0.4, 0.7]), connected=rng2.random() < 0.7)
        ids = [x for x, _ in g1["nodes"]]
        g2 = _gcopy(G.shuffle_insertion(G.relabel(g1, dict(zip(ids, rng2.sample(range(1, 16), len(ids))))), rng2))
        g1 = _gcopy(g1)
        z = rng2.random()
        drop = {frozenset((u, v)) for u, v, _ in g1["edges"] if rng2.random() < 0.5}
        for e in g1["edges"]:
            if frozenset((e[0], e[1])) in drop:
                e[2].pop("order", None)
        for e in g2["edges"]:
            if rng2.random() < 0.5:
                e[2].pop("order", None)
        if rng2.random() < 0.3 and g2["nodes"]:
            g2["nodes"].append([max(n for n, _ in g2["nodes"]) + 1, {"element": "C", "charge": 0}])
        if rng2.random() < 0.5:
            g1, g2 = g2, g1
        if z < 0.6:
            cases.append(_mk("mtg-gaps", g1, g2, rng2.random() < 0.7, "mtg", minimal=rng2.random() < 0.4))
        else:               # inside a history, with words / order pairs as bond values (non-numeric: equal only to themselves)
            a, b = _raw_decorate(rng2, g1, g2, rng2.choice(["words", "pairs", "spelling"]))
            cfg = dict(node_attrs=["element"], node_defaults=["*"], edge_attrs=["order"], implicit=rng2.random() < 0.5)
            steps = [dict(g1=a, g2=b, mcs=rng2.random() < 0.7, call="fcs", cfg=0, reads=[]),
                     dict(call="reads", reads=[], cfg=0, mcs=True, g1=a, g2=b),
                     dict(g1=b, g2=a, mcs=True, call="fcs", cfg=0, reads=[], src_g1=[0, "g2"], src_g2=[0, "g1"])]
            cases.append(_hist_case("history/mtg-gaps", "mtg", [cfg], steps))
    for c in cases:          # the MTG copy has the same mcs_mol mode (no pruning): a third of the mcs-mol cases go to it
        if c.get("kind") == "mcs-mol" and not c.get("prune_wc") and "steps" not in c and rng2.random() < 0.33:
            c["variant"] = "mtg"
            c["kind"] = "mcs-mol/mtg"
    for c in cases:          # ... and inside MTG histories: mcs_mol directly and through its facade (right side of rc1 / left side of rc2)
        if "steps" in c and c["variant"] == "mtg":
            for st in c["steps"]:
                if st.get("call", "fcs") == "fcs" and rng2.random() < 0.15:
                    st["call"] = "mcs_mol"
                elif st.get("call") == "rc_side" and rng2.random() < 0.35:
                    st["mol"] = True
    for c in cases:
        if "steps" in c:
            for st in c["steps"]:
                if rng2.random() < 0.4:
                    st["minimal"] = True
        elif "ctor" not in c and rng2.random() < 0.4:
            c["minimal"] = True
    # ... plus facade calls that rely on ALL defaults: find_rc_mapping(rc1, rc2) = side "op", maximum mode, component-wise
    for t in range(40 if tier == "quick" else 300):
        its1, l1, r1 = _its_pair(rng2)
        its2, l2, r2 = _its_pair(rng2)
        two = rng2.random() < 0.4
        cfg = dict(node_attrs=["element", "charge"] if two else ["element"], node_defaults=["*", 0] if two else ["*"],
                   edge_attrs=["order"], implicit=True)
        variant = "matcher" if rng2.random() < 0.8 else "mtg"
        steps = []
        for k in range(rng2.randint(1, 3)):
            z = rng2.random()
            side, mcs_, comp = ("op", True, True) if z < 0.5 or variant == "mtg" else (rng2.choice(["r", "l", "op"]), rng2.random() < 0.5, rng2.random() < 0.5)
            if variant == "mtg":
                mcs_, comp = rng2.random() < 0.5, False
            g1, g2 = {"r": (r1, r2), "l": (l1, l2), "op": (r1, l2)}[side]
            steps.append(dict(g1=g1, g2=g2, its1=its1, its2=its2, side=side, mcs=mcs_, call="rc_side", component=comp, positional=True,
                              mol=False, upper=False, minimal=True, sides=dict(l1=l1, r1=r1, l2=l2, r2=r2), reads=["G1_to_G2", "G2_to_G1"]))
            if rng2.random() < 0.5:
                a, b = _small_pair(rng2)
                steps.append(dict(g1=a, g2=b, mcs=False, call="fcs", minimal=True, reads=["G1_to_G2"]))
        cases.append(_hist_case("history/all-defaults", variant, [cfg], steps))
    return cases
