"""C13 -- clustering partitions graphs exactly into isomorphism classes.

case = {"kind": str, "attr_mode": "none" | "str" | "list", "invariant": bool,
        "items": [{"g": graph, "attr": None | str | [int, ...]}, ...],     # the pool; ops refer to pool indices
        "ops": [op, ...],
        # round 3 (all optional; absent = the round-1/2 behaviour: fresh clusterer objects and fresh entry dicts for every op)
        "shared": bool,        ONE GraphCluster and ONE BatchCluster object per case, ONE entry dict per graph object (it keeps
                               the "class" written by earlier calls), the same data list object for the same index list
        "twin": n,             the pool has 2n items; item i+n is item i (same graph OBJECT, same entry dict) with the SECOND
                               pre-grouping attribute: every entry carries both keys "att" and "att2"; an op whose indices
                               are >= n is called with attribute_key="att2"
        "obj": [group, ...],   pool items with the same group are VERSIONS of one nx.Graph object: using another version edits
                               that object in place (same Python object, nodes / edges / attributes changed)
        "cfg": {"names", "defaults", "edge"}   constructor options of both classes
        "match": {...}         matchers built by the caller and passed explicitly to lib_check / iterative_cluster
        "call": "short" | "pos" | "kw"   trailing defaults omitted | everything positional | everything by keyword
        "rule_key": str, "strip": bool}
op   = ["gc_iter", [idx...], labelled]   gc.iterative_cluster(graphs, attrs, nodeMatch, edgeMatch)
                                          (labelled=False: nodeMatch=edgeMatch=None, i.e. topology only)
       ["gc_fit", [idx...]]               gc.fit(data, rule_key, attr_key)
       ["templates", [[idx, class], ...]] start from the given class representatives (a NEW list of NEW dicts)
       ["reset"]                          templates = None
       ["lib_check", idx]                 bc.lib_check(entry, templates, rule_key, attr_key[, nodeMatch, edgeMatch])
       ["cluster", [idx...]]              bc.cluster(data, templates, rule_key, attr_key)
       ["fit", [idx...], batch_size|None, picks]   bc.fit(data, templates, rule_key, attr_key, batch_size)
             picks = the choices of random.sample (seed 1) inside stratified_random_sample on the one-shot path,
             one position per class, pre-computed by the generator from a reference clustering (external randomness
             is an input of the model, DESIGN section 3); [] when the path is not taken.
       ["meta", [action...], expected]    what the CALLER does to its own objects between two calls; the model is told the
             resulting library (OTemplates expected).  Actions: ["key", side] same library, other attribute key;
             ["edit", i, j] graph object edited in place; ["set_class" | "del_class", idx(, c)] a returned entry changed;
             ["t_append", idx, c] / ["t_trunc", k] / ["t_class", pos, c] / ["t_perm", perm] / ["t_copy"] the returned template
             list changed in place; ["clusters_clear"] the returned clusters / rule_to_cluster emptied.
       ["iso", i, j, "nm" | "defaults" | "none"]   graph_isomorphism directly            (trailing ops only)
       ["batch_dicts", [idx...], batch_size]       BatchCluster.batch_dicts              (trailing ops only)
       ["ctor", "gc" | "bc", names, defaults, edge, backend], ["backends", "gc" | "bc"]    constructor contract (oracle only)
       an op may end with a flags dict: {"nokey": 1} = call with attribute_key=None / attributes=None (only where every
       item of that side carries the same attribute, so the model's answer is the same)
The batch ops carry the growing template list from op to op (the property's state).
Observable per op: classes written to the processed entries (+ clusters / rule_to_cluster for gc_iter) and the
template list as [pool index, class] pairs in list order (pool index = the version the template's graph OBJECT currently is).
"""
import itertools
import random as _random

from ..coqrun import cN, cZ, cnat, cbool, clist, cpair, copt
from ..tok import S
from ..gen import graphs as G

PID = "C13"
COQ_HEADER = "From Coq Require Import List NArith ZArith.\nImport ListNotations.\nFrom SK Require Import lib.Tok lib.LGraph model.C13_Model model.C13_Trace model.C13_Opts.\n"
SHARD = 40
IMPL_TIMEOUT = 1500
COQ_TIMEOUT = 1500

RULE = ("histories of clustering calls (one-shot GraphCluster, incremental lib_check / cluster, batched fit with batch sizes 1..N and >= 10, "
        "explicit starting templates) over multisets of reaction centres from Data/Testcase/test.pkl.gz and graph.pkl.gz, small synthetic "
        "molecules and degenerate graphs (empty, single node, isolated nodes, charges < 0 and >= 10, bond order 0) with duplicates, "
        "relabelled copies and near-misses (one bond order / one charge changed, a node or edge added) in random orders; two thirds of "
        "the histories run on ONE GraphCluster and ONE BatchCluster object with reused entry dicts (libraries of equal size, the same "
        "library with another attribute key, graphs edited in place, results mutated by the caller); non-trivial = the multiset has "
        ">= 2 isomorphism classes, at least one class with >= 2 members and at least one near-miss or relabelled copy; "
        "distinct = distinct (pool, ops)")
EXHAUSTIVE = {"quick": False, "thorough": False}
EXPLANATION = ("Theorems are for all lists and all equivalence relations; the correspondence samples multisets of corpus reaction centres "
               "(ITS rc graphs with order pairs), small synthetic molecule graphs (also with wildcard atoms and with default-valued "
               "labels -- charge 0, order 1, element * -- absent on some copies) and degenerate graphs, starting templates with gaps in the "
               "class numbers or an empty template list, class numbers and batch sizes >= 10, non-default constructor options, explicit "
               "matchers, positional and keyword calling conventions, every list order being a seeded shuffle; "
               "nothing is enumerated exhaustively except all 6 orders of 3-item multisets of the first 3 near-miss triples.")
TRUSTED_BASE = [
    "Coq 8.16.1 kernel + vm_compute (no native_compute)",
    "hand-written models coq/model/C13_Model.v, C13_Trace.v (traced loops, raw attribute dictionaries, constructor contract, graph_isomorphism "
    "options), C13_Opts.v (matcher arguments as options) tied to synkit/Graph/Matcher/{graph_cluster,batch_cluster}.py and "
    "graph_morphism.graph_isomorphism by the per-run correspondence (clusters, rule_to_cluster, classes, the template list AND the sequence of "
    "isomorphism tests with the verdict of each, after every call)",
    "networkx nx.is_isomorphic(node_match, edge_match) decides label-preserving isomorphism: modelled by the verified enumerator lib/Mono.v "
    "(induced, equal node counts), for which C13_iso_decides_isomorphism / C13_iso_is_equivalence are proved; the generic theorems take the "
    "test as a parameter and assume only that it is an equivalence (monitored: classes compared after every call)",
    "random.sample inside synkit.Utils.utils.stratified_random_sample (seed 1): its choices are an INPUT of the model, pre-computed by the "
    "harness from a reference clustering; the theorems hold for every choice",
    "harness encoders harness/props/C13.py (attribute interning, half-unit bond orders, pool indices)",
]
ASSUMPTIONS = ["list-valued pre-grouping attributes may be given as lists or tuples (both read as multisets, /repo 6f9daf3 + b9f48de)",
               "items are networkx Graphs (not GML rule strings: the 'mod' backend is not installed)",
               "the pre-grouping attribute is None (attribute_key=None), a str, a list / tuple of ints, a dict / OrderedDict, an int, or absent on some "
               "entries -- also mixed within one list (mode AMixed, /repo 3659dfd)",
               "starting templates are consistent: isomorphic representatives carry the same class",
               "non-empty data lists (iterative_cluster reads rules[0])",
               "non-default constructor options / explicit matchers (any number of node labels; each matcher argument alone): the oracle judges with "
               "a reference isomorphism on the labels the call really compares (per-argument fallback for lib_check); a call of iterative_cluster "
               "with a missing matcher and float-valued charges are correspondence-only / oracle-only respectively",
               "what the caller does to its own objects between two calls (in-place edits, mutated results) reaches the model as the resulting "
               "template list (OTemplates); the model functions are pure, so every call equals its fresh evaluation by construction",
               "the optional `mod` package is not installed (constructor contract / available_backends; coq_case returns None otherwise)"]
TESTED_NOT_PROVED = []
LEVEL_TEXT = ("Machine-checked proof (Coq, 38 theorems in coq/props/C13.v, all closed under the global context). Generic part, for every list "
              "of items and every decidable test `iso` that is an equivalence, with an iso-invariant pre-grouping attribute as the code reads "
              "it: GraphCluster.iterative_cluster / fit (visited set, comparison with the first member only, attribute pre-filter) gives every "
              "item exactly one class and two items share a class IFF iso (C13_partition; clusters list = rule_to_cluster, a partition of the "
              "indices: C13_clusters_agree/_partition); the partition and the number of classes do not depend on the list order "
              "(C13_order_independent); BatchCluster.lib_check puts a new item into the class of its isomorphic representative or into the "
              "fresh class max+1 (C13_incremental, C13_incremental_run; fit with templates or several batches is that run: "
              "C13_fit_is_incremental_run); batched fit from no templates writes the class numbers of the one-shot run, and over any "
              "arrival order the same partition (C13_batch_equals_oneshot, C13_batch_any_order); the template list returned by fit is "
              "coherent and represents every processed item, so a later lib_check joins exactly the class of the isomorphic earlier items "
              "or opens a fresh one (C13_fit_templates, C13_fit_then_lib_check). Specific part: the isomorphism test the model evaluates "
              "(equal node counts + verified enumerator Mono.monos, induced, element/charge/order matchers) decides exactly the existence of "
              "a label- and bond-preserving bijection and IS an equivalence on well-formed graphs (C13_iso_decides_isomorphism, "
              "C13_iso_is_equivalence), which yields C13_partition_graphs / C13_batch_any_order_graphs with no premise about the test. "
              "Round 5: the correspondence evaluates TRACED loops (model/C13_Trace.v) on items given as raw attribute dictionaries and compares, "
              "after every call, classes, template list AND the sequence of isomorphism tests (pairs handed to graph_isomorphism, in call order): "
              "C13_trace_projection (traced = untraced results), C13_lib_check_trace (exactly the same-attribute templates up to the first "
              "isomorphic one), C13_gc_trace_exact (the EXACT test sequence as a function of the returned clusters: every cluster's first member against "
              "every later position of equal attribute that is in no earlier cluster), C13_gc_trace (no pair twice, <= n(n-1)/2 tests), "
              "C13_raw_matchers (attribute selection), C13_ctor_contract (constructor contract of both classes), C13_stepx_state, "
              "C13_graph_isomorphism_options (None matchers / use_defaults of graph_morphism.graph_isomorphism), C13_partition_raw and C13_incremental_raw (the partition and the incremental "
              "theorem on the caller's raw graphs: same class IFF a bijection preserves the configured labels after defaults and every bond's "
              "presence and configured attribute; any number of labels). "
              "Wave 4: the optional matcher arguments of lib_check / iterative_cluster are options of the model (model/C13_Opts.v, runR): "
              "C13_lib_check_fallback_per_argument (node labels from the caller's matcher iff nodeMatch was given, bond attribute iff edgeMatch "
              "was given), C13_lib_check_options, C13_iterative_cluster_no_fallback. "
              "Model and code are compared after every call on every run.")
LEVEL_NOTE = ("Trusted: Coq kernel + vm_compute; the hand-written model and encoders; networkx is_isomorphic returns the verdict of the verified "
              "enumerator (the generic theorems need only that it is an equivalence; monitored: classes compared after every call, oracle uses "
              "an independent brute-force isomorphism). The sampler's random choices are model inputs (theorems hold for every in-range choice). "
              "The attribute-invariance premise is part of the property text (C13_noninvariant_attribute_splits shows it is necessary).")
TECHNIQUE = ("Coq proof: generic first-representative clustering theory + refinement of the structure-following Gallina model of both "
             "clustering loops to it + isomorphism-is-an-equivalence via the verified enumerator; per-run correspondence over call histories "
             "by vm_compute; independent brute-force oracle")


def _mixed_value(a):
    """The Python value of a mixed-mode attribute description (round 4): {"s": str} | {"l": [int], "tuple": bool} |
    {"d": [[k, v], ...], "od": bool} (dict / OrderedDict in that insertion order) | {"i": int} | None (attribute absent)."""
    if "s" in a:
        return a["s"]
    if "l" in a:
        return tuple(a["l"]) if a.get("tuple") else list(a["l"])
    if "d" in a:
        from collections import OrderedDict
        return OrderedDict((k, v) for k, v in a["d"]) if a.get("od") else {k: v for k, v in a["d"]}
    return a["i"]


def _mixed_norm(a):
    """Reference reading of a mixed-mode attribute: every value on its own -- str / int by value, list and tuple as multisets, dict
    and OrderedDict by their sorted keys (coarser than the items: harmless for a pre-filter), absent = absent."""
    if a is None:
        return ("absent",)
    if "s" in a:
        return ("s", a["s"])
    if "l" in a:
        return ("l", tuple(sorted(a["l"])))
    if "d" in a:
        return ("d", tuple(sorted(k for k, _ in a["d"])))          # the code reads a dict as sorted(value): its sorted KEYS
    return ("i", a["i"])


def _mixed_coq(a):
    if a is None:
        return clist([cZ(2)])
    if "s" in a:
        return clist([cZ(0)] + [cZ(ord(c)) for c in a["s"]])
    if "l" in a:
        return clist([cZ(1)] + [cZ(x) for x in a["l"]])
    if "d" in a:
        return clist([cZ(3)] + [cZ(k) for k, _ in a["d"]])                 # a dict is read as sorted(value): its keys
    return clist([cZ(5), cZ(a["i"])])


FIT_HONOURS_OPTIONS = True  # /repo (round 4): the one-batch path of BatchCluster.fit clusters with the object's own label options
FIRST_ITEM_FREE = True      # /repo (round 4): GraphCluster normalises every attribute value on its own, like BatchCluster
ATTR_KEY = "att"
ATTR_KEY2 = "att2"
DEF_CFG = {"names": ["element", "charge"], "defaults": ["*", 0], "edge": "order"}
# ["iso", i, j, how]: which matchers the caller hands to graph_isomorphism -- (node_match given, edge_match given, use_defaults)
_ISO_HOW = {"nm": (1, 1, 0), "defaults": (0, 0, 1), "none": (0, 0, 0), "nm_only": (1, 0, 0), "em_only": (0, 1, 0),
            "nm_defaults": (1, 0, 1), "em_defaults": (0, 1, 1), "both_defaults": (1, 1, 1)}
EXTRA_OPS = ("iso", "batch_dicts")            # stateless trailing calls (model: extra values after the history)
CONTRACT_OPS = ("ctor", "backends")           # constructor / environment contract (oracle only)


def _nbase(case):
    return case.get("twin") or len(case["items"])


def _group(case, idx):
    b = idx % _nbase(case)
    obj = case.get("obj")
    return obj[b] if obj else b


def _obj_cfg(case):
    return case.get("cfg") or DEF_CFG


def _srcs(case, op):
    """Where the two matcher arguments of a lib_check / gc_iter op come from: "none" (omitted / None), "obj" (the object's own
    matcher handed in), "ex" (a matcher the caller built from case["match"]).  Flags {"nm": ..., "em": ...} on the op; without
    flags: the behaviour of rounds 3-4 (both caller-built when the case has "match"; lib_check otherwise omits both, a labelled
    gc_iter passes the object's own, an unlabelled one passes None)."""
    fl = _flags(op)
    if "nm" in fl or "em" in fl:
        return fl.get("nm", "none"), fl.get("em", "none")
    if op[0] == "gc_iter" and not op[2]:
        return "none", "none"
    if case.get("match") is not None:
        return "ex", "ex"
    return ("none", "none") if op[0] == "lib_check" else ("obj", "obj")


def _mix(case, ns, es, fallback):
    """The configuration a call compares with (round 5, wave 4): node labels from the source of nodeMatch, bond attribute from
    the source of edgeMatch; lib_check falls back to the object's matcher PER ARGUMENT, iterative_cluster does not (None)."""
    src = {"obj": _obj_cfg(case), "ex": case.get("match"), "none": _obj_cfg(case) if fallback else None}
    n, e = src[ns], src[es]
    return {"names": list(n["names"]) if n else [], "defaults": list(n["defaults"]) if n else [],
            "edge": e["edge"] if e else "__no_edge_matcher__"}


def _eff(case):
    """Configuration the incremental calls of the history really compare with: explicit matchers > constructor options >
    defaults, per argument (case["lc"] = sources of lib_check's two matcher arguments, constant within a history)."""
    lc = case.get("lc")
    if lc:
        return _mix(case, lc[0], lc[1], True)
    return case.get("match") or case.get("cfg") or DEF_CFG


def _flags(op):
    return op[-1] if isinstance(op[-1], dict) else {}


def _op_idxs(op):
    k = op[0]
    if k in ("gc_iter", "gc_fit", "cluster", "fit", "batch_dicts"):
        return list(op[1])
    if k == "lib_check":
        return [op[1]]
    if k == "templates":
        return [i for i, _ in op[1]]
    if k == "iso":
        return [op[1], op[2]]
    return []


# ------------------------------------------------------------------ implementation adapter

def _upd(d, a):
    for k in list(d):
        if k not in a:
            del d[k]
    for k, v in a.items():
        d[k] = list(v) if isinstance(v, list) else v


def _morph(O, tgt):
    """Edit the nx.Graph O IN PLACE until it equals the JSON graph tgt (same Python object, same attribute dict objects
    for the nodes / edges that stay)."""
    tn = {n for n, _ in tgt["nodes"]}
    for n in list(O.nodes):
        if n not in tn:
            O.remove_node(n)
    for n, a in tgt["nodes"]:
        if n in O.nodes:
            _upd(O.nodes[n], a)
        else:
            O.add_node(n, **{k: (list(v) if isinstance(v, list) else v) for k, v in a.items()})
    te = {frozenset((u, v)) for u, v, _ in tgt["edges"]}
    for u, v in list(O.edges):
        if frozenset((u, v)) not in te:
            O.remove_edge(u, v)
    for u, v, a in tgt["edges"]:
        if O.has_edge(u, v):
            _upd(O.edges[u, v], a)
        else:
            O.add_edge(u, v, **{k: (list(x) if isinstance(x, list) else x) for k, x in a.items()})


def _same_default(a, b):
    return (a is b or (isinstance(a, (bool, str)) and type(a) is type(b) and a == b)
            or (isinstance(a, list) and isinstance(b, list) and len(a) == len(b) and all(_same_default(x, y) or (type(x) is type(y) and x == y) for x, y in zip(a, b))))


class _World:
    """The caller's side of one history: the graph objects, the entry dicts, the clusterer objects and the template list."""

    def __init__(self, case):
        self.case = case
        self.n = _nbase(case)
        self.twin = bool(case.get("twin"))
        self.shared = bool(case.get("shared"))
        self.rk = case.get("rule_key", "g")
        # wave 4: "default_keys" -- the entries use the DEFAULT key names of the signatures (rule_key "gml"; attribute_key "WLHash" for
        # GraphCluster.fit / cluster / fit, "signature" for lib_check), so that a call may omit them
        self.defkeys = bool(case.get("default_keys")) and not case.get("twin")
        if self.defkeys:
            self.rk = "gml"
        self.akeys = (ATTR_KEY,)
        if self.defkeys:
            kinds = {op[0] for op in case["ops"]}
            others = bool(kinds & {"cluster", "fit", "gc_fit"})
            # only the key(s) the history's entry points read by default are real; the other default name holds a non-invariant decoy
            self.akeys = (("WLHash", "signature") if ("lib_check" in kinds and others) else ("signature",) if "lib_check" in kinds
                          else ("WLHash",))
        self.call = case.get("call", "short")
        self.mode = case["attr_mode"]
        self.objs = {}        # group -> nx.Graph
        self.state = {}       # group -> base index of the version the object currently is
        self.by_obj = {}      # id(nx.Graph) -> group
        self.entries = {}     # group -> entry dict (shared mode)
        self.lists = {}       # tuple(idxs) -> data list object (shared mode)
        self.templates = None
        self.tside = 0
        self._gc = self._bc = self._m = None
        self.last_gc = None
        self._decoy = None
        self.trace = []       # (module tag, id(first graph), id(second graph)) of every graph_isomorphism call of the current op

    # ---- round 5: the sequence of isomorphism tests (intermediate values)
    def recording(self):
        """Context manager: graph_isomorphism as seen by graph_cluster.py / batch_cluster.py is wrapped by a recorder."""
        import contextlib
        import synkit.Graph.Matcher.graph_cluster as m_gc
        import synkit.Graph.Matcher.batch_cluster as m_bc
        W = self

        @contextlib.contextmanager
        def cm():
            saved = (m_gc.graph_isomorphism, m_bc.graph_isomorphism)

            def wrap(tag, f):
                def rec(g1, g2, *a, **k):
                    r = f(g1, g2, *a, **k)
                    W.trace.append((tag, id(g1), id(g2), r))       # the verdict of every single test is compared too
                    return r
                return rec
            W.trace = []
            m_gc.graph_isomorphism, m_bc.graph_isomorphism = wrap("gc", saved[0]), wrap("bc", saved[1])
            try:
                yield
            finally:
                m_gc.graph_isomorphism, m_bc.graph_isomorphism = saved
        return cm()

    def trace_ids(self, op):
        """The recorded tests as (pool id of the first argument, pool id of the second argument).  One-shot clustering tests
        two data items; lib_check tests (template, data item)."""
        off = self.n if self.side(_op_idxs(op)) else 0
        toff = self.n if self.tside else 0
        out = []
        for tag, a, b, r in self.trace:
            ga, gb = self.by_obj.get(a), self.by_obj.get(b)
            ia = -1 if ga is None else self.state[ga] + (off if tag == "gc" else toff)
            ib = -1 if gb is None else self.state[gb] + off
            out.append([ia, ib, r if isinstance(r, bool) else ["not-a-bool", repr(r)[:30]]])
        return out

    # ---- objects under test
    def _mk(self, cls):
        cfg = self.case.get("cfg")
        if cfg is None:
            return cls()
        # the backend name is accepted case-insensitively by both constructors: "NX" / "Nx" must configure the nx matchers too
        vals = [list(cfg["names"]), list(cfg["defaults"]), cfg["edge"], cfg.get("backend", "nx")]
        return self._call(cls, ["node_label_names", "node_label_default", "edge_attribute", "backend"], vals,
                          {"node_label_names": ["element", "charge"], "node_label_default": ["*", 0], "edge_attribute": "order", "backend": "nx"})

    def gc(self):
        from synkit.Graph.Matcher.graph_cluster import GraphCluster
        if not self.shared:
            return self._mk(GraphCluster)
        if self._gc is None:
            self._gc = self._mk(GraphCluster)
        return self._gc

    def bc(self):
        from synkit.Graph.Matcher.batch_cluster import BatchCluster
        if not self.shared:
            return self._mk(BatchCluster)
        if self._bc is None:
            self._bc = self._mk(BatchCluster)
        return self._bc

    def _call(self, f, names, vals, defaults):
        if self.call == "kw":
            return f(**dict(zip(names, vals)))
        if self.call == "kwmin":
            # only the arguments that differ from the signature defaults, by keyword (each optional argument alone / in pairs)
            return f(**{n: v for n, v in zip(names, vals) if not (n in defaults and _same_default(v, defaults[n]))})
        vals = list(vals)
        if self.call != "pos":
            while vals and names[len(vals) - 1] in defaults and _same_default(vals[-1], defaults[names[len(vals) - 1]]):
                vals.pop()
        return f(*vals)

    def explicit_matchers(self):
        """Matchers built by the CALLER (case["match"]), passed explicitly to lib_check / iterative_cluster."""
        m = self.case.get("match")
        if m is None:
            return None
        if self._m is None or not self.shared:
            from operator import eq
            from networkx.algorithms.isomorphism import generic_node_match, generic_edge_match
            self._m = (generic_node_match(list(m["names"]), list(m["defaults"]), [eq] * len(m["names"])),
                       generic_edge_match(m["edge"], 1, eq))
        return self._m

    # ---- the caller's data
    def obj(self, idx):
        g, b = _group(self.case, idx), idx % self.n
        if g not in self.objs:
            O = G.to_nx(self.case["items"][b]["g"])
            self.objs[g], self.state[g] = O, b
            self.by_obj[id(O)] = g
        elif self.state[g] != b:
            O = self.objs[g]
            if self.templates and any(t.get(self.rk) is O for t in self.templates):
                raise AssertionError("generator bug: object of item %d edited while a template holds it (needs an edit op)" % idx)
            _morph(O, self.case["items"][b]["g"])
            self.state[g] = b
        return self.objs[g]

    def _set_attrs(self, d, b):
        if self.mode == "none":
            return
        for key, j in ((ATTR_KEY, b), (ATTR_KEY2, b + self.n)) if self.twin else tuple((k_, b) for k_ in self.akeys):
            a = self.case["items"][j]["attr"]
            # list-valued attributes may be handed over as tuples ("as_tuple"): GraphCluster reads every non-str value as a
            # multiset (sorted(value)); BatchCluster must read it the same way (/repo fix after 6f9daf3, see known_findings.d)
            if a is None:
                d.pop(key, None)         # attribute ABSENT on this entry
                continue
            if self.mode == "mixed":
                d[key] = _mixed_value(a)
                continue
            d[key] = (tuple(a) if self.case["items"][j].get("as_tuple") else list(a)) if isinstance(a, list) else a

    def use(self, idx):
        O = self.obj(idx)
        g, b = _group(self.case, idx), idx % self.n
        d = self.entries.setdefault(g, {}) if self.shared else {}
        d[self.rk] = O
        self._set_attrs(d, b)
        if self.rk != "g":
            # decoys under the DEFAULT key names: an implementation that ignores rule_key / attribute_key reads these
            if self._decoy is None:
                import networkx as nx
                self._decoy = nx.Graph()
                self._decoy.add_node(1, element="C", charge=0)
            d.setdefault("gml", self._decoy)
            for k_ in ("WLHash", "signature"):
                if k_ not in self.akeys:
                    d.setdefault(k_, "decoy%d" % (idx % 2))
        return d

    def data(self, idxs):
        if not self.shared:
            return [self.use(i) for i in idxs]
        l = [self.use(i) for i in idxs]
        k = tuple(idxs)
        if k in self.lists and len(self.lists[k]) == len(l) and all(a is b for a, b in zip(self.lists[k], l)):
            return self.lists[k]          # the very same list object as in the earlier call
        self.lists[k] = l
        return l

    def side(self, idxs):
        return 1 if (self.twin and idxs and idxs[0] >= self.n) else 0

    def key(self, op):
        if self.mode == "none" or _flags(op).get("nokey"):
            return None
        if self.defkeys:
            return "signature" if op[0] == "lib_check" else "WLHash" if op[0] in ("cluster", "fit", "gc_fit") else self.akeys[0]
        return ATTR_KEY2 if self.side(_op_idxs(op)) else ATTR_KEY

    def tobs(self):
        if self.templates is None:
            return []
        out = []
        for t in self.templates:
            g = self.by_obj.get(id(t.get(self.rk)))
            out.append([-1 if g is None else self.state[g] + (self.n if self.tside else 0), t.get("class")])
        return out

    def _note_side(self, idxs):
        if not self.templates:
            self.tside = self.side(idxs)

    # ---- one op
    def do(self, op):
        """-> (observable, classes written, with_templates)"""
        import networkx as nx  # noqa: F401
        k = op[0]
        rk = self.rk
        if k == "gc_iter":
            gc = self.gc()
            ak = self.key(op)
            ents = [self.use(i) for i in op[1]]
            attrs = None if ak is None else [e.get(ak) for e in ents]
            ns, es = _srcs(self.case, op)
            ex = self.explicit_matchers() or (None, None)
            nmf = {"none": None, "obj": gc.nodeMatch, "ex": ex[0]}[ns]
            emf = {"none": None, "obj": gc.edgeMatch, "ex": ex[1]}[es]
            clusters, r2c = self._call(gc.iterative_cluster, ["rules", "attributes", "nodeMatch", "edgeMatch"],
                                       [[e[rk] for e in ents], attrs, nmf, emf],
                                       {"attributes": None, "nodeMatch": None, "edgeMatch": None})
            self.last_gc = (clusters, r2c)
            o = [[S(sorted(c)) for c in clusters], S([[a, b] for a, b in r2c.items()])]
            return o, [r2c.get(i) for i in range(len(op[1]))], True
        if k == "gc_fit":
            data = self.data(op[1])
            res = self._call(self.gc().fit, ["data", "rule_key", "attribute_key", "strip"],
                             [data, rk, self.key(op), bool(self.case.get("strip", False))],
                             {"rule_key": "gml", "attribute_key": "WLHash", "strip": False})
            classes = [d.get("class") for d in data]
            o = [classes]
            if not (res is data):
                o.append("result-is-not-the-input-list")
            return o, classes, True
        if k == "templates":
            if op[1]:
                self.templates = None
                self.tside = self.side(_op_idxs(op))
            self.templates = [dict(self.use(i), **{"class": c}) for i, c in op[1]]
            return [[]], [], True
        if k == "reset":
            self.templates = None
            return [[]], [], True
        if k == "meta":
            self.meta(op[1])
            return [[]], [], True
        if k == "lib_check":
            d = self.use(op[1])
            self._note_side([op[1]])
            ns, es = _srcs(self.case, op)
            ex = self.explicit_matchers() or (None, None)
            nmf = {"none": None, "obj": self.bc().nodeMatch, "ex": ex[0]}[ns]
            emf = {"none": None, "obj": self.bc().edgeMatch, "ex": ex[1]}[es]
            res, self.templates = self._call(self.bc().lib_check, ["data", "templates", "rule_key", "attribute_key", "nodeMatch", "edgeMatch"],
                                             [d, self.templates, rk, self.key(op), nmf, emf],
                                             {"rule_key": "gml", "attribute_key": "signature", "nodeMatch": None, "edgeMatch": None})
            classes = [d.get("class")]
            o = [classes]
            if res is not d:
                o.append("result-is-not-the-input-dict")
            return o, classes, True
        if k == "cluster":
            data = self.data(op[1])
            self._note_side(op[1])
            t_in = self.templates if (self.templates is not None or self.shared) else []
            res, self.templates = self._call(self.bc().cluster, ["data", "templates", "rule_key", "attribute_key"],
                                             [data, t_in, rk, self.key(op)], {"rule_key": "gml", "attribute_key": "WLHash"})
            classes = [d.get("class") for d in data]
            o = [classes]
            if res is not data:
                o.append("result-is-not-the-input-list")
            return o, classes, True
        if k == "fit":
            data = self.data(op[1])
            self._note_side(op[1])
            st = _random.getstate()
            try:
                try:
                    res, self.templates = self._call(self.bc().fit, ["data", "templates", "rule_key", "attribute_key", "batch_size"],
                                                     [data, self.templates, rk, self.key(op), op[2]],
                                                     {"rule_key": "gml", "attribute_key": "WLHash", "batch_size": None})
                except ValueError:
                    if op[2] is not None and op[2] < 1:
                        # the contract: ValueError, nothing processed; with the flag "expect" the model is told "library unchanged"
                        return ([[]] if "expect" in _flags(op) else ["ValueError"]), "ValueError", True
                    raise
            finally:
                _random.setstate(st)
            classes = [d.get("class") for d in data]
            o = [classes]
            if not (len(res) == len(data) and all(a is b for a, b in zip(res, data))):
                o.append("result-is-not-the-input-entries-in-order")
            return o, classes, True
        if k == "batch_dicts":
            data = self.data(op[1])
            pos = {id(d): i for d, i in zip(data, op[1])}
            f = self.bc().batch_dicts if self.shared else type(self.bc()).batch_dicts
            try:
                res = self._call(f, ["input_list", "batch_size"], [data, op[2]], {})
            except ValueError:
                return "ValueError", [], False
            return [[pos.get(id(d), -1) for d in b] for b in res], [], False
        if k == "iso":
            from synkit.Graph.Matcher.graph_morphism import graph_isomorphism
            g1, g2 = self.obj(op[1]), self.obj(op[2])
            use_nm, use_em, use_def = _ISO_HOW[op[3]]
            nmf, emf = self.explicit_matchers() or (self.gc().nodeMatch, self.gc().edgeMatch)
            vals = [g1, g2, nmf if use_nm else None, emf if use_em else None, bool(use_def)]
            r = self._call(graph_isomorphism, ["graph_1", "graph_2", "node_match", "edge_match", "use_defaults"], vals,
                           {"node_match": None, "edge_match": None, "use_defaults": False})
            return (r if isinstance(r, bool) else ["not-a-bool", repr(r)[:40]]), [], False
        if k == "ctor":
            from synkit.Graph.Matcher.graph_cluster import GraphCluster
            from synkit.Graph.Matcher.batch_cluster import BatchCluster
            cls = GraphCluster if op[1] == "gc" else BatchCluster
            try:
                x = self._call(cls, ["node_label_names", "node_label_default", "edge_attribute", "backend"],
                               [list(op[2]), list(op[3]), op[4], op[5]], {})
            except (ValueError, ImportError) as e:
                return type(e).__name__, [], False
            return ["ok", x.backend], [], False
        if k == "backends":
            return list((self.gc() if op[1] == "gc" else self.bc()).available_backends()), [], False
        raise AssertionError(k)

    # ---- what the CALLER does between two calls
    def meta(self, actions):
        for a in actions:
            k = a[0]
            if k == "key":                       # same library, other attribute_key from now on
                self.tside = a[1]
            elif k == "edit":                    # the graph object of item a[1] is edited in place into item a[2]
                g, b = _group(self.case, a[2]), a[2] % self.n
                O = self.objs.get(g)
                if O is None:
                    self.obj(a[2])
                    continue
                _morph(O, self.case["items"][b]["g"])
                self.state[g] = b
                # the caller refreshes the pre-grouping attributes of everything that holds the edited graph
                if g in self.entries:
                    self._set_attrs(self.entries[g], b)
                for t in (self.templates or []):
                    if t.get(self.rk) is O:
                        self._set_attrs(t, b)
            elif k == "set_class":
                self.use(a[1])["class"] = a[2]
            elif k == "del_class":
                self.use(a[1]).pop("class", None)
            elif k == "t_append":
                if self.templates is None:
                    self.templates = []
                self._note_side([a[1]])
                self.templates.append(dict(self.use(a[1]), **{"class": a[2]}))
            elif k == "t_trunc":
                del self.templates[a[1]:]
            elif k == "t_class":
                self.templates[a[1]]["class"] = a[2]
            elif k == "t_perm":
                self.templates[:] = [self.templates[p] for p in a[1]]
            elif k == "t_copy":
                self.templates = [dict(t) for t in self.templates]
            elif k == "clusters_clear":
                if self.last_gc is not None:
                    for c in self.last_gc[0]:
                        c.clear()
                    self.last_gc[0].append({-5})
                    self.last_gc[1].clear()
            else:
                raise AssertionError(k)


def _play(case, on_op=None):
    """Run the history on the implementation; returns the list of per-op observables."""
    W = _World(case)
    out = []
    for op in case["ops"]:
        before = W.tobs()
        with W.recording():
            o, classes, with_t = W.do(op)
        after = W.tobs()
        if with_t:
            o.append(after)
            if isinstance(o[0], list) or o[0] != "ValueError":
                o.append(W.trace_ids(op))       # round 5: the isomorphism tests performed, in call order
        out.append(o)
        if on_op is not None:
            on_op(op, classes, before, after, o)
    return out


def impl(case):
    return _play(case)


# ------------------------------------------------------------------ model encoder

DEFAULTS = {"element": "*", "charge": 0}


def _order_units(x):
    if x is None:
        return None
    if isinstance(x, (list, tuple)):
        if len(x) < 2:
            raise ValueError("1-tuples are outside the model's domain")
        return [G.half(v) for v in x]
    if isinstance(x, bool) or not isinstance(x, (int, float)):
        raise ValueError("non-numeric order")
    return [G.half(x)]


def _const_side(case, idxs):
    """All items on the side of idxs carry the same pre-grouping attribute (so attribute_key=None is the same call)."""
    n = _nbase(case)
    lo = n if (case.get("twin") and idxs and idxs[0] >= n) else 0
    vals = [case["items"][j]["attr"] for j in range(lo, lo + n)]
    return all(v == vals[0] for v in vals)


def _in_domain(case):
    try:
        cfg = _eff(case)
        for cf in _cfgs(case):
            if len(cf["names"]) != len(cf["defaults"]):
                return False
            for d in cf["defaults"]:
                if isinstance(d, bool) or not isinstance(d, (int, str)):
                    return False
        n = _nbase(case)
        if case.get("twin") and len(case["items"]) != 2 * n:
            return False
        for it in case["items"]:
            g = it["g"]
            ids = [n_ for n_, _ in g["nodes"]]
            if len(set(ids)) != len(ids) or any(not isinstance(n_, int) or isinstance(n_, bool) or n_ < 0 for n_ in ids):
                return False
            seen = set()
            for u, v, a in g["edges"]:
                if u == v or frozenset((u, v)) in seen:
                    return False
                seen.add(frozenset((u, v)))
                for cf in _cfgs(case):
                    _order_units(a.get(cf["edge"]))
            for _, a in g["nodes"]:
                for cf in _cfgs(case):
                    for k in cf["names"]:
                        x = a.get(k)
                        if x is not None and (isinstance(x, bool) or not isinstance(x, (int, str))):
                            return False
            a = it["attr"]
            if case["attr_mode"] == "str" and a is None:
                continue
            if case["attr_mode"] == "mixed":
                if a is None:
                    continue
                if "s" in a and not all(ord(c) < 128 for c in a["s"]):
                    return False
                if "d" in a and not all(isinstance(k, int) and isinstance(v, int) and 0 <= k < 1000 and 0 <= v < 1000 for k, v in a["d"]):
                    return False
                continue
            if case["attr_mode"] == "str" and not (isinstance(a, str) and all(ord(c) < 128 for c in a)):
                return False
            if case["attr_mode"] == "list" and not (isinstance(a, list) and all(isinstance(x, int) and not isinstance(x, bool) for x in a)):
                return False
        ops = case["ops"]
        tail = False
        for op in ops:
            k = op[0]
            if k == "ctor" and not (isinstance(op[5], str) and op[1] in ("gc", "bc")):
                return False
            if k in EXTRA_OPS:
                tail = True
            elif tail and k not in CONTRACT_OPS:
                return False
            if k in ("gc_iter", "gc_fit", "cluster", "fit") and not op[1]:
                return False
            ix = _op_idxs(op)
            if case.get("twin") and len({i >= n for i in ix}) > 1:
                return False
            if _flags(op).get("nokey") and case["attr_mode"] != "none" and not _const_side(case, ix):
                return False
            if not FIT_HONOURS_OPTIONS and case.get("cfg") is not None and k == "fit" and _norm_cfg(case["cfg"]) != _norm_cfg(DEF_CFG):
                # before the repair BatchCluster.fit's one-shot path built a default GraphCluster()
                return False
            if case.get("match") is not None and k in ("cluster", "fit", "gc_fit"):
                return False           # these entry points cannot be given matchers
    except ValueError:
        return False
    return True


def _cfgs(case):
    """Every configuration a call of the history may compare with: the object's, the caller's explicit one, the defaults."""
    return [c for c in (_obj_cfg(case), case.get("match"), DEF_CFG) if c is not None]


def _norm_cfg(cfg):
    return (tuple(sorted(zip(cfg["names"], [repr(d) for d in cfg["defaults"]]))), cfg["edge"])


def _simple(v):
    return isinstance(v, (int, str)) and not isinstance(v, bool)


def _coq_item(idx, it, case, I, NK=None, EK=None):
    """Round 5: the item carries its RAW attribute dictionaries (every node attribute with a str / int value, every edge
    attribute with a numeric or tuple-of-numbers value); the model selects the configured names itself (project13)."""
    cfg = _eff(case)

    def na(n, a):
        return clist([cpair(cN(NK(k)), cN(I(v))) for k, v in a.items() if _simple(v)])

    def ea(u, v, a):
        out = []
        for k, x in a.items():
            try:
                o = _order_units(x)
            except ValueError:
                if any(k == cf["edge"] for cf in _cfgs(case)):
                    raise
                continue
            if o is not None:
                out.append(cpair(cN(EK(k)), clist([cZ(z) for z in o])))
        return clist(out)
    a = it["attr"]
    if case["attr_mode"] == "none":
        att = "[]"
    elif case["attr_mode"] == "mixed":
        att = _mixed_coq(a)
    elif case["attr_mode"] == "str":
        att = clist([cZ(-1)]) if a is None else clist([cZ(ord(c)) for c in a])      # absent attribute: a value no string has
    else:
        att = clist([cZ(x) for x in a])
    return "(MkRItem %s %s %s)" % (cN(idx), att, G.coq_lgraph(it["g"], na, ea))


def _coq_op(op):
    k = op[0]
    ix = lambda l: clist([cnat(i) for i in l])
    if k == "gc_iter":
        return "OGcIter %s %s" % (ix(op[1]), cbool(op[2]))
    if k == "gc_fit":
        return "OGcFit %s" % ix(op[1])
    if k == "templates":
        return "OTemplates %s" % clist([cpair(cnat(i), cZ(c)) for i, c in op[1]])
    if k == "meta":
        # what the caller did to its own objects between two calls: the model is told the resulting library
        return "OTemplates %s" % clist([cpair(cnat(i), cZ(c)) for i, c in op[2]])
    if k == "reset":
        return "OReset"
    if k == "lib_check":
        return "OLibCheck %s" % cnat(op[1])
    if k == "cluster":
        return "OCluster %s" % ix(op[1])
    if k == "fit":
        if op[2] is not None and op[2] < 1:
            return "OTemplates %s" % clist([cpair(cnat(i), cZ(c)) for i, c in _flags(op)["expect"]])       # ValueError: nothing happens
        return "OFit %s %s %s" % (ix(op[1]), copt(None if op[2] is None else cnat(op[2])), ix(op[3]))
    raise AssertionError(k)


def _coq_opx(op):
    k = op[0]
    if k == "fit" and op[2] is not None and op[2] < 1 and "expect" not in _flags(op):
        return "OFitBad"
    if k == "ctor":
        b = {"nx": "BNx", "mod": "BMod", "rule": "BRule"}.get(op[5].lower(), "BOther")      # .lower(): the encoder's part
        return "OCtor %s %s %s %s" % (cbool(op[1] == "gc"), cnat(len(op[2])), cnat(len(op[3])), b)
    if k == "backends":
        return "OBackends %s" % cbool(op[1] == "gc")
    return "OBase (%s)" % _coq_op(op)


_SRC = {"none": "MNone", "obj": "MObj", "ex": "MExplicit"}


def _coq_opR(op, case):
    """Round 5 (wave 4): lib_check / gc_iter carry the SOURCES of their two matcher arguments; the model applies each entry
    point's own fallback rule (per argument for lib_check, none for iterative_cluster)."""
    if op[0] == "lib_check":
        ns, es = _srcs(case, op)
        return "RLibCheck %s %s %s" % (cnat(op[1]), _SRC[ns], _SRC[es])
    if op[0] == "gc_iter":
        ns, es = _srcs(case, op)
        return "RGcIter %s %s %s" % (clist([cnat(i) for i in op[1]]), _SRC[ns], _SRC[es])
    return "RBase (%s)" % _coq_opx(op)


def coq_case(case):
    if not _in_domain(case):
        return None
    import importlib.util
    if importlib.util.find_spec("mod") is not None:
        return None           # the contract ops of the model assume that the optional `mod` package is not installed
    cfgs = _cfgs(case)
    vals = [d for cf in cfgs for d in cf["defaults"]]
    for it in case["items"]:
        for _, a in it["g"]["nodes"]:
            for v in a.values():
                if _simple(v):
                    vals.append(v)
    I = G.Intern(vals)
    NK, EK = G.Intern([k for cf in cfgs for k in cf["names"]]), G.Intern([cf["edge"] for cf in cfgs])
    mode = {"none": "ANone", "str": "AStr", "list": "AList", "mixed": "AMixed"}[case["attr_mode"]]
    pool = clist([_coq_item(i, it, case, I, NK, EK) for i, it in enumerate(case["items"])])

    def ccfg(cf):
        return "{| cc_names := %s; cc_defs := %s; cc_edge := %s |}" % (
            clist([cN(NK(k)) for k in cf["names"]]), clist([cN(I(d)) for d in cf["defaults"]]), cN(EK(cf["edge"])))
    c, cm = _obj_cfg(case), case.get("match") or _obj_cfg(case)
    first_extra = next((i for i, o in enumerate(case["ops"]) if o[0] in EXTRA_OPS), len(case["ops"]))
    main, extra = case["ops"][:first_extra], case["ops"][first_extra:]      # the trailing part may mix stateless calls and contract ops
    if not extra:
        return "runR %s %s %s %s %s" % (ccfg(c), ccfg(cm), mode, pool, clist([_coq_opR(o, case) for o in main]))
    xs = []
    for o in extra:
        if o[0] == "iso":
            use_nm, use_em, use_def = _ISO_HOW[o[3]]
            # the matchers handed to graph_isomorphism are the caller's explicit ones when the case has them, else the object's
            xs.append("tbool (iso_call_pool cm cdef %s %s %s rpool %s %s)" % (cbool(use_nm), cbool(use_em), cbool(use_def), cnat(o[1]), cnat(o[2])))
        elif o[0] in CONTRACT_OPS:
            xs.append("fst (stepx (cc_defs c) %s (map (mk_item c) rpool) [] (%s))" % (mode, _coq_opx(o)))
        else:
            xs.append("batch_dicts_tok %s %s" % (cnat(max(0, o[2])), clist([cnat(i) for i in o[1]])))
    return "(let c := %s in let cm := %s in let cdef := %s in let rpool := %s in L (playR c cm %s rpool [] %s ++ %s))" % (
        ccfg(c), ccfg(cm), ccfg(DEF_CFG), pool, mode, clist([_coq_opR(o, case) for o in main]), clist(xs))


# ------------------------------------------------------------------ reference isomorphism (independent, brute force)

def _tab(g, cfg=DEF_CFG):
    lab = {n: tuple(a.get(k, d) for k, d in zip(cfg["names"], cfg["defaults"])) for n, a in g["nodes"]}
    adj = {}
    for u, v, a in g["edges"]:
        o = a.get(cfg["edge"], 1)
        o = tuple(float(x) for x in o) if isinstance(o, (list, tuple)) else float(o)
        adj[(u, v)] = adj[(v, u)] = o
    return lab, adj


def _eq_repr(v):
    """repr of a value up to Python's == between numbers (1 == 1.0 == True), recursively in tuples / lists."""
    if isinstance(v, (tuple, list)):
        return "(" + ",".join(_eq_repr(x) for x in v) + ")"
    if isinstance(v, (bool, int, float)):
        return repr(float(v))
    return repr(v)


def ref_iso(g1, g2, labelled=True, cfg=DEF_CFG):
    """Isomorphism on the configured node labels (element, charge) and bond order by back-tracking over bijections (no networkx)."""
    (l1, a1), (l2, a2) = _tab(g1, cfg), _tab(g2, cfg)
    if len(l1) != len(l2) or len(a1) != len(a2):
        return False
    # quick multiset pre-check, ==-compatible: 0, 0.0 and False are one value for generic_node_match's eq (audit round 5)
    if labelled and (sorted(map(_eq_repr, l1.values())) != sorted(map(_eq_repr, l2.values()))
                     or sorted(map(_eq_repr, a1.values())) != sorted(map(_eq_repr, a2.values()))):
        return False
    d1, d2 = {}, {}
    for (u, _v) in a1:
        d1[u] = d1.get(u, 0) + 1
    for (u, _v) in a2:
        d2[u] = d2.get(u, 0) + 1
    # most constrained first: nodes in order of a BFS-like expansion (neighbours of placed nodes first)
    n1 = sorted(l1, key=lambda x: -d1.get(x, 0))
    order, placed = [], set()
    while len(order) < len(n1):
        nxt = None
        for u in n1:
            if u not in placed and any((u, x) in a1 for x in placed):
                nxt = u
                break
        if nxt is None:
            nxt = next(u for u in n1 if u not in placed)
        order.append(nxt)
        placed.add(nxt)

    def rec(i, m, used):
        if i == len(order):
            return True
        u = order[i]
        for v in l2:
            if v in used or d1.get(u, 0) != d2.get(v, 0) or (labelled and l1[u] != l2[v]):
                continue
            ok = True
            for x, y in m.items():
                e1, e2 = a1.get((u, x)), a2.get((v, y))
                if (e1 is None) != (e2 is None) or (labelled and e1 is not None and e1 != e2):
                    ok = False
                    break
            if ok:
                m[u] = v
                used.add(v)
                if rec(i + 1, m, used):
                    return True
                del m[u]
                used.discard(v)
        return False
    return rec(0, {}, set())


def ref_partition(case, idxs, labelled=True, cfg=None):
    """Isomorphism classes of the listed pool items as a set of frozensets of POSITIONS."""
    cfg = cfg or _eff(case)
    reps, cls = [], []
    for p, i in enumerate(idxs):
        for c, r in enumerate(reps):
            if ref_iso(case["items"][r]["g"], case["items"][i]["g"], labelled, cfg):
                cls[c].append(p)
                break
        else:
            reps.append(i)
            cls.append([p])
    return {frozenset(c) for c in cls}


def _partition(classes):
    d = {}
    for p, c in enumerate(classes):
        d.setdefault(c, []).append(p)
    return {frozenset(v) for v in d.values()}


def _ref_key(case, i, nokey=False):
    a = case["items"][i]["attr"]
    if case["attr_mode"] == "mixed" and not nokey:
        return _mixed_norm(a)
    if a is None and case["attr_mode"] == "str" and not nokey:
        return ("<absent>",)             # the entry carries no pre-grouping attribute at all (entry.get(key) is None)
    return None if (case["attr_mode"] == "none" or nokey) else (a if isinstance(a, str) else tuple(sorted(a)))


def ref_first_rep_classes(case, idxs, nokey=False):
    """Reference first-representative clustering with the attribute pre-filter (used only to pre-compute the sampler picks)."""
    cfg = _eff(case)
    reps, out = [], []
    for i in idxs:
        for c, r in enumerate(reps):
            if _ref_key(case, r, nokey) == _ref_key(case, i, nokey) and ref_iso(case["items"][r]["g"], case["items"][i]["g"], True, cfg):
                out.append(c)
                break
        else:
            reps.append(i)
            out.append(len(reps) - 1)
    return out


def sampler_picks(classes):
    """Positions chosen by stratified_random_sample(seed=1, samples_per_class=1) given the class sizes in first-appearance order."""
    sizes = {}
    for c in classes:
        sizes[c] = sizes.get(c, 0) + 1
    r = _random.Random(1)
    return [r.sample(list(range(n)), 1)[0] for n in sizes.values()]


# ------------------------------------------------------------------ the caller's view of a history (generator side)

class _Sim:
    """Reference bookkeeping used by the GENERATORS only: follows a raw history, fills in what the model must be told
    (sampler picks; the template list after something the caller did to its own objects) and inserts the caller actions that
    keep a history expressible (an `edit` when a graph object held by a template changes, a `key` switch when the library is
    used with the other attribute key, a `t_copy` before GraphCluster.fit rewrites entry dicts that ARE the templates: the
    one-batch path of BatchCluster.fit returns the data dicts themselves as templates)."""

    def __init__(self, case):
        self.case = case
        self.n = _nbase(case)
        self.shared = bool(case.get("shared"))
        self.twin = bool(case.get("twin"))
        self.T = []            # [idx, class, alias group or None]
        self.tside = 0
        self.state = {}
        self.out = []
        self.clobber = False
        self.cfg = _eff(case)

    def side(self, idxs):
        return 1 if (self.twin and idxs and idxs[0] >= self.n) else 0

    def expected(self):
        return [[t[0], t[1]] for t in self.T]

    def _emit_meta(self, actions):
        self.out.append(["meta", actions, self.expected()])

    def ensure_state(self, idxs):
        seen = {}
        for i in idxs:
            g, b = _group(self.case, i), i % self.n
            if seen.setdefault(g, b) != b:
                raise ValueError("two versions of one object in one call")
        for i in idxs:
            g, b = _group(self.case, i), i % self.n
            old = self.state.get(g, b)
            self.state[g] = b
            if old != b and any(_group(self.case, t[0]) == g for t in self.T):
                for t in self.T:
                    if _group(self.case, t[0]) == g:
                        t[0] = b + (self.n if self.tside else 0)
                self._emit_meta([["edit", old, b]])

    def ensure_side(self, idxs):
        s = self.side(idxs)
        if self.T and s != self.tside:
            self.tside = s
            for t in self.T:
                t[0] = t[0] % self.n + (self.n if s else 0)
            self._emit_meta([["key", s]])
        elif not self.T:
            self.tside = s

    def write(self, idx, c):
        if self.shared:
            g = _group(self.case, idx)
            for t in self.T:
                if t[2] == g:
                    if t[1] != c:
                        self.clobber = True
                    t[1] = c

    def _incremental(self, idxs, nokey):
        """lib_check over idxs; when that would rewrite the class of a template that IS one of the entry dicts (only possible after the
        caller made the library incoherent) the caller first replaces the library by copies (t_copy), so the history stays expressible."""
        import copy
        saved = copy.deepcopy(self.T)
        self.clobber = False
        for i in idxs:
            self._lib_check(i, nokey)
        if self.clobber:
            self.T = saved
            for t in self.T:
                t[2] = None
            self._emit_meta([["t_copy"]])
            for i in idxs:
                self._lib_check(i, nokey)

    def _lib_check(self, i, nokey):
        items = self.case["items"]
        for t in self.T:
            if _ref_key(self.case, t[0], nokey) == _ref_key(self.case, i, nokey) and ref_iso(items[t[0]]["g"], items[i]["g"], True, self.cfg):
                c = t[1]
                break
        else:
            c = max([t[1] for t in self.T], default=-1) + 1
            self.T.append([i, c, None])
        self.write(i, c)
        return c

    def step(self, op):
        op = list(op)
        k = op[0]
        nokey = bool(_flags(op).get("nokey"))
        ix = _op_idxs(op)
        if k in ("gc_iter", "gc_fit", "iso", "batch_dicts"):
            self.ensure_state(ix)
            if k == "gc_fit" and self.shared:
                gs = {_group(self.case, i) for i in ix}
                if any(t[2] in gs for t in self.T):
                    for t in self.T:
                        t[2] = None
                    self._emit_meta([["t_copy"]])
            self.out.append(op)
        elif k == "templates":
            self.T = []
            self.ensure_state(ix)
            self.T = [[i, c, None] for i, c in op[1]]
            if op[1]:
                self.tside = self.side(ix)
            self.out.append(op)
        elif k == "reset":
            self.T = []
            self.out.append(op)
        elif k in ("lib_check", "cluster"):
            self.ensure_state(ix)
            self.ensure_side(ix)
            self._incremental(ix, nokey)
            self.out.append(op)
        elif k == "fit":
            idxs, bs = op[1], op[2]
            fl = _flags(op)
            self.ensure_state(ix)
            self.ensure_side(ix)
            picks = []
            if bs is not None and bs < 1:
                fl = dict(fl, expect=self.expected())
            else:
                nb = 1 if bs is None else (len(idxs) + bs - 1) // bs
                if nb == 1 and not self.T:
                    cl = ref_first_rep_classes(self.case, idxs, nokey)
                    picks = sampler_picks(cl)
                    members = {}
                    for p, c in enumerate(cl):
                        members.setdefault(c, []).append(p)
                    self.T = [[idxs[m[pk]], c, (_group(self.case, idxs[m[pk]]) if self.shared else None)]
                              for (c, m), pk in zip(members.items(), picks)]
                    self.tside = self.side(ix)
                else:
                    self._incremental(idxs, nokey)
            self.out.append(["fit", list(idxs), bs, picks] + ([fl] if fl else []))
        elif k == "meta":
            acts = []
            for a in op[1]:
                a = list(a)
                kk = a[0]
                if kk == "key":
                    if self.T:
                        self.tside = a[1]
                        for t in self.T:
                            t[0] = t[0] % self.n + (self.n if a[1] else 0)
                    else:
                        continue
                elif kk == "edit":
                    g, b = _group(self.case, a[2]), a[2] % self.n
                    a = ["edit", self.state.get(g, b), b]
                    self.state[g] = b
                    for t in self.T:
                        if _group(self.case, t[0]) == g:
                            t[0] = b + (self.n if self.tside else 0)
                elif kk == "set_class":
                    self.ensure_state([a[1]])
                    self.write(a[1], a[2])
                elif kk == "del_class":
                    self.ensure_state([a[1]])
                    if self.shared and any(t[2] == _group(self.case, a[1]) for t in self.T):
                        continue
                elif kk == "t_append":
                    self.ensure_state([a[1]])
                    self.ensure_side([a[1]])
                    self.T.append([a[1], a[2], None])
                elif kk == "t_trunc":
                    del self.T[a[1]:]
                elif kk == "t_class":
                    if a[1] >= len(self.T):
                        continue
                    self.T[a[1]][1] = a[2]
                    if self.T[a[1]][2] is not None:
                        self.write(self.T[a[1]][0], a[2])
                elif kk == "t_perm":
                    if a[1] == "rev":
                        a[1] = list(reversed(range(len(self.T))))
                    if sorted(a[1]) != list(range(len(self.T))):
                        continue
                    self.T = [self.T[p] for p in a[1]]
                elif kk == "t_copy":
                    for t in self.T:
                        t[2] = None
                acts.append(a)
            self._emit_meta(acts)
        elif k in CONTRACT_OPS:
            self.out.append(op)
        else:
            raise AssertionError(k)


def _finalize(case, raw_ops):
    s = _Sim(case)
    for op in raw_ops:
        s.step(op)
    return s.out


# ------------------------------------------------------------------ property oracle

def _contract_ctor(which, names, defaults, edge, backend):
    b = backend.lower()
    if b != "nx":
        return "ImportError" if b == ("mod" if which == "gc" else "rule") else "ValueError"
    if len(names) != len(defaults):
        return "ValueError"
    return ["ok", "nx"]


def oracle(case):
    fails = []
    inv = case.get("invariant", True)
    items = case["items"]
    cfg = _eff(case)

    def iso(i, j, labelled=True):
        return ref_iso(items[i]["g"], items[j]["g"], labelled, cfg)

    state = {"assigned": []}      # (pool idx, class) of everything classified incrementally since the last template reset

    def on_op(op, classes, t_before, t_after, o):
        k = op[0]
        if k in ("gc_iter", "gc_fit"):
            labelled = op[2] if k == "gc_iter" else True
            if not labelled:
                return        # topology-only matching is outside the property text (correspondence only)
            if k == "gc_fit" and case.get("match") is not None:
                return
            gcfg = None
            if k == "gc_iter":
                ns, es = _srcs(case, op)
                if "none" in (ns, es):
                    return    # iterative_cluster does not fall back: a side without matcher is not compared (correspondence only)
                gcfg = _mix(case, ns, es, False)
            if None in classes:
                fails.append(dict(clause="partition", detail="%s left an item without a class" % k))
            elif inv and _partition(classes) != ref_partition(case, op[1], labelled, gcfg):
                fails.append(dict(clause="partition", detail="%s on %r: classes %r are not the isomorphism classes" % (k, op[1], classes)))
            return
        if k in ("templates", "reset", "meta"):
            state["assigned"] = [tuple(x) for x in t_after]
            return
        if k == "iso":
            use_nm, use_em, use_def = _ISO_HOW[op[3]]
            icfg = case.get("match") or _obj_cfg(case)      # the matchers handed in: the caller's explicit ones, else the object's
            ncfg = icfg if use_nm else DEF_CFG if use_def else None
            ecfg = icfg if use_em else DEF_CFG if use_def else None
            want = ref_iso(items[op[1]]["g"], items[op[2]]["g"], True,
                           {"names": ncfg["names"] if ncfg else [], "defaults": ncfg["defaults"] if ncfg else [],
                            "edge": ecfg["edge"] if ecfg else "__no_edge_matcher__"})
            if o is not want:
                fails.append(dict(clause="contract:isomorphism", detail="graph_isomorphism(%d, %d, %s) = %r, reference %r" % (op[1], op[2], op[3], o, want)))
            return
        if k == "batch_dicts":
            bs = op[2]
            want = "ValueError" if bs < 1 else [list(op[1][i:i + bs]) for i in range(0, len(op[1]), bs)]
            if o != want:
                fails.append(dict(clause="contract:batches", detail="batch_dicts(%r, %r) = %r" % (op[1], bs, o)))
            return
        if k == "ctor":
            want = _contract_ctor(*op[1:6])
            if o != want:
                fails.append(dict(clause="contract:constructor", detail="%r -> %r, contract %r" % (op, o, want)))
            return
        if k == "backends":
            import importlib.util
            if importlib.util.find_spec("mod") is None and o != ["nx"]:      # environment dependent: judged only without the optional package
                fails.append(dict(clause="contract:constructor", detail="available_backends() = %r without the mod package" % (o,)))
            return
        if k == "fit" and op[2] is not None and op[2] < 1:
            if classes != "ValueError":
                fails.append(dict(clause="contract:batches", detail="fit with batch_size %r did not raise ValueError" % op[2]))
            return
        idxs = [op[1]] if k == "lib_check" else list(op[1])
        if None in classes or len(classes) != len(idxs):
            fails.append(dict(clause="incremental", detail="%s left an item without a class" % k))
            return
        if not inv:
            return
        if not FIT_HONOURS_OPTIONS and case.get("cfg") is not None and k == "fit" and _norm_cfg(case["cfg"]) != _norm_cfg(DEF_CFG):
            return            # before the repair the one-shot path ignored the constructor options
        known = list(state["assigned"]) if t_before else []
        rep_classes = {c for _, c in t_before}
        for i, c in zip(idxs, classes):
            same = {c2 for j, c2 in known if iso(j, i)}
            if same:
                if c not in same:
                    fails.append(dict(clause="incremental", detail="%s: item %d got class %r but its isomorphic representative has class %r"
                                      % (k, i, c, sorted(same))))
            else:
                if c in {c2 for _, c2 in known} or c in rep_classes:
                    fails.append(dict(clause="incremental", detail="%s: item %d has no isomorphic representative but was put into the "
                                      "existing class %r" % (k, i, c)))
            known.append((i, c))
        state["assigned"] = known
        # every class in use must be represented among the templates by an isomorphic member (state carried across batches)
        for i, c in zip(idxs, classes):
            if not any(c2 == c and j >= 0 and iso(j, i) for j, c2 in t_after):
                fails.append(dict(clause="incremental", detail="%s: class %r of item %d has no isomorphic representative in the "
                                  "returned templates" % (k, c, i)))
                break

    try:
        _play(case, on_op)
    except (TypeError, KeyError, AttributeError) as e:
        # an exception that is not part of the contract: the clustering did not assign classes at all
        fails.append(dict(clause="partition", detail="a clustering call raised %s: %s" % (type(e).__name__, str(e)[:120])))
    if fails:
        return fails[:3]
    # order independence, stated directly: re-run every one-shot call on the reversed and on a rotated list (fresh objects)
    if not inv or case.get("match") is not None:
        return fails
    done = set()
    for op in case["ops"]:
        if op[0] != "gc_fit" or len(op[1]) < 2 or tuple(op[1]) in done or len(done) >= 2:
            continue
        done.add(tuple(op[1]))
        base = None
        for perm in (list(range(len(op[1]))), list(reversed(range(len(op[1])))), list(range(1, len(op[1]))) + [0]):
            if case["attr_mode"] == "str" and case["items"][op[1][perm[0]]]["attr"] is None and not FIRST_ITEM_FREE:
                continue        # before /repo fix: GraphCluster needed the FIRST entry's attribute to tell how attributes are compared
            W = _World(dict(case, shared=False, obj=None))
            data = [W.use(op[1][p]) for p in perm]
            try:
                W.gc().fit(data, W.rk, W.key(op))
            except (TypeError, KeyError, AttributeError) as e:
                fails.append(dict(clause="order-independent", detail="gc_fit on %r in another order raised %s: %s"
                                  % (op[1], type(e).__name__, str(e)[:100])))
                break
            lab = [None] * len(perm)
            for p, d in zip(perm, data):
                lab[p] = d["class"]
            part = _partition(lab)
            if base is None:
                base = part
            elif part != base:
                fails.append(dict(clause="order-independent", detail="gc_fit on %r: partition changes with the list order" % (op[1],)))
                break
    return fails[:3]


def nontrivial(case, obs):
    idxs = sorted({i for op in case["ops"] if op[0] in ("gc_iter", "gc_fit", "cluster", "fit") for i in op[1]}
                  | {op[1] for op in case["ops"] if op[0] == "lib_check"})
    if len(idxs) < 3:
        return False
    part = ref_partition(case, idxs)
    return len(part) >= 2 and any(len(c) >= 2 for c in part) and any(it.get("src") in ("near", "relabel") for it in case["items"])


def distribution(cases, obss):
    ops, pool, ncls, bs, src, modes, feats, metas = {}, {}, {}, {}, {}, {}, {}, {}

    def inc(d, k):
        d[k] = d.get(k, 0) + 1
    for c in cases:
        inc(modes, c["attr_mode"] + ("" if c.get("invariant", True) else "/non-invariant"))
        b = len(c["items"])
        inc(pool, "<=4" if b <= 4 else "5-8" if b <= 8 else "9-14" if b <= 14 else "15-19" if b <= 19 else "20+")
        for it in c["items"]:
            inc(src, it.get("src", "?"))
        for f in ("shared", "twin", "obj", "cfg", "match", "strip"):
            if c.get(f):
                inc(feats, f)
        inc(feats, "call=" + c.get("call", "short"))
        inc(feats, "rule_key=" + c.get("rule_key", "g"))
        if any(not it["g"]["nodes"] for it in c["items"]):
            inc(feats, "has-empty-graph")
        if any(len(it["g"]["nodes"]) >= 10 for it in c["items"]):
            inc(feats, "has-graph>=10-nodes")
        if any(it.get("attr") in ("", []) for it in c["items"]):
            inc(feats, "has-falsy-attribute")
        for op in c["ops"]:
            inc(ops, op[0])
            if op[0] == "fit":
                inc(bs, str(op[2]))
            if op[0] == "meta":
                for a in op[1]:
                    inc(metas, a[0])
            if _flags(op).get("nokey"):
                inc(feats, "op-with-attribute_key=None")
    for c, o in zip(cases, obss):
        if isinstance(o, list) and o and o[0] != "EXC":
            for op, ob in zip(c["ops"], o):
                if op[0] in ("gc_fit", "fit", "cluster") and isinstance(ob, list) and ob and isinstance(ob[0], list) and ob[0]:
                    inc(ncls, str(len(set(map(str, ob[0])))))
    return dict(op_kinds=ops, pool_sizes=pool, item_sources=src, attr_modes=modes, fit_batch_sizes=dict(sorted(bs.items())),
                features=dict(sorted(feats.items())), caller_actions=dict(sorted(metas.items())),
                classes_per_call=dict(sorted(ncls.items(), key=lambda kv: int(kv[0]))))


# ------------------------------------------------------------------ generators

_CORPUS = None


def _corpus():
    """Reaction centres of the two test pickles as JSON graphs (element, charge; order pairs)."""
    global _CORPUS
    if _CORPUS is None:
        import warnings
        warnings.filterwarnings("ignore")
        from synkit.IO.data_io import load_from_pickle
        out = []
        for e in load_from_pickle("/repo/Data/Testcase/test.pkl.gz"):
            out.append(G.from_nx(e["GraphRules"][2], ("element", "charge"), ("order",)))
        for e in load_from_pickle("/repo/Data/Testcase/graph.pkl.gz"):
            out.append(G.from_nx(e["RC"], ("element", "charge"), ("order",)))
        seen, uniq = set(), []
        for g in out:
            k = repr(g)
            if k not in seen:
                seen.add(k)
                uniq.append(g)
        _CORPUS = uniq
    return _CORPUS


def _copy(g):
    return {"nodes": [[n, dict(a)] for n, a in g["nodes"]], "edges": [[u, v, dict(a)] for u, v, a in g["edges"]]}


def _near_miss(g, rng):
    """One bond order or one charge changed (or, rarely, one element)."""
    h = _copy(g)
    if not h["nodes"]:
        return {"nodes": [[rng.choice([0, 3, 11]), {"element": "C", "charge": 0}]], "edges": []}
    z = rng.random()
    if z < 0.55 and h["edges"]:
        e = rng.choice(h["edges"])
        o = e[2].get("order", 1)
        if isinstance(o, list):
            o = list(o)
            p = rng.randrange(len(o))
            o[p] = 2 if o[p] != 2 else 1
            if o[0] == o[1]:
                o[p] = 3 if o[0] != 3 else 0
            e[2]["order"] = o
        else:
            e[2]["order"] = 2 if o != 2 else 1
    elif z < 0.9:
        n = rng.choice(h["nodes"])
        n[1]["charge"] = 1 if n[1].get("charge", 0) != 1 else 0
    else:
        n = rng.choice(h["nodes"])
        n[1]["element"] = "S" if n[1].get("element") != "S" else "O"
    return h


def _near_miss_deg(g, rng):
    """Near-misses through degenerate values: charge 0 <-> -1 / 10 / 11, order 1 <-> 0 / 0.0, a node or an edge added / removed."""
    h = _copy(g)
    if not h["nodes"]:
        return _near_miss(g, rng)
    z = rng.random()
    if z < 0.3:
        n = rng.choice(h["nodes"])
        c = n[1].get("charge", 0)
        n[1]["charge"] = rng.choice([x for x in (0, -1, 10, 11, 1) if x != c])
    elif z < 0.55 and h["edges"]:
        e = rng.choice(h["edges"])
        o = e[2].get("order", 1)
        if isinstance(o, list):
            o = list(o)
            p = rng.randrange(len(o))
            o[p] = rng.choice([x for x in (0, 0.0, 1, 1.0, 2) if x != o[p]])
            if o[0] == o[1]:
                o[p] = 3
            e[2]["order"] = o
        else:
            e[2]["order"] = rng.choice([x for x in (0, 0.0, 2, 1.5) if x != o])
    elif z < 0.7:
        new = max(n for n, _ in h["nodes"]) + rng.choice([1, 9, 100])
        h["nodes"].append([new, {"element": rng.choice(["C", "H"]), "charge": 0}])          # an isolated node more
    elif z < 0.8 and len(h["nodes"]) > 1:
        n = rng.choice(h["nodes"])[0]
        h["nodes"] = [x for x in h["nodes"] if x[0] != n]
        h["edges"] = [e for e in h["edges"] if n not in (e[0], e[1])]
    elif z < 0.9 and h["edges"]:
        h["edges"].remove(rng.choice(h["edges"]))
    else:
        ids = [n for n, _ in h["nodes"]]
        have = {frozenset((u, v)) for u, v, _ in h["edges"]}
        free = [(u, v) for u in ids for v in ids if u < v and frozenset((u, v)) not in have]
        if free:
            u, v = rng.choice(free)
            h["edges"].append([u, v, {"order": 1}])
        else:
            return _near_miss(g, rng)
    return h


def _relabelled(g, rng, hi=60):
    ids = [n for n, _ in g["nodes"]]
    new = rng.sample(range(0 if hi != 60 else 1, max(hi, len(ids) + 1)), len(ids))
    return G.shuffle_insertion(G.relabel(g, dict(zip(ids, new))), rng)


def _respell(g, rng):
    """The same labelled graph with attributes that equal the matchers' defaults left out at random (charge 0, scalar order 1,
    element "*"): isomorphic to g on element, charge and bond order, but only if a missing label is read as its default."""
    h = _copy(g)
    for _, a in h["nodes"]:
        if a.get("charge") == 0 and rng.random() < 0.5:
            del a["charge"]
        if a.get("element") == "*" and rng.random() < 0.5:
            del a["element"]
    for _, _, a in h["edges"]:
        o = a.get("order")
        if not isinstance(o, (list, tuple)) and o == 1 and rng.random() < 0.5:
            del a["order"]
    return h


def _signature(g, cfg=DEF_CFG):
    """An isomorphism-invariant string (sorted node-label multiset and sorted order multiset)."""
    ns = sorted("".join("%s" % (a.get(k, d),) for k, d in zip(cfg["names"], cfg["defaults"])) for _, a in g["nodes"])
    def num(o):
        return "(" + ",".join("%g" % x for x in o) + ")" if isinstance(o, (list, tuple)) else "%g" % o
    es = sorted(num(a.get(cfg["edge"], 1)) for _, _, a in g["edges"])
    return ".".join(ns) + "|" + ",".join(es)


def _elems_str(g, cfg=DEF_CFG):
    """Coarser invariant string: the sorted multiset of the first node label; "" (falsy) for the empty graph."""
    if not cfg["names"]:
        return "n%d" % len(g["nodes"])
    k, d = cfg["names"][0], cfg["defaults"][0]
    return "".join(sorted("%s" % (a.get(k, d),) for _, a in g["nodes"]))


def _sig_falsy(g, cfg=DEF_CFG):
    """Invariant string that is "" (falsy) for every graph without edges."""
    return "" if not g["edges"] else _signature(g, cfg)


def _ring_attr(g):
    return sorted([len(g["nodes"]), len(g["edges"])] + [sum(1 for _, a in g["nodes"] if a.get("element") == "C")])


def _elem_list(g):
    """Elements in NODE ORDER: isomorphism-invariant only as a multiset (GraphCluster compares sorted(value)); [] for the empty graph."""
    return [sum(ord(c) for c in str(a.get("element", "*"))) for _, a in g["nodes"]]


def _edge_list_attr(g):
    """Doubled bond orders in EDGE ORDER (multiset invariant); [] (falsy) for graphs without edges."""
    out = []
    for _, _, a in g["edges"]:
        o = a.get("order", 1)
        out.append(int(2 * sum(o)) + 100 if isinstance(o, (list, tuple)) else int(2 * o))
    return out


def _pool(rng, base, size, p_near=0.25, p_rel=0.45, near=None, hi=60):
    """A multiset drawn from a few base graphs with duplicates, relabelled copies and near-misses, in random order."""
    near = near or _near_miss
    items = []
    for _ in range(size):
        g = rng.choice(base)
        z = rng.random()
        if z < p_near:
            h, src = near(g, rng), "near"
            if rng.random() < 0.5:
                h = _relabelled(h, rng, hi)
        elif z < p_near + p_rel:
            h, src = _relabelled(g, rng, hi), "relabel"
        else:
            h, src = _copy(g), "dup"
        items.append({"g": h, "src": src})
    rng.shuffle(items)
    return items


def _set_attrs(items, mode, invariant, rng, cfg=DEF_CFG, variant=None):
    unordered = rng.random() < 0.5
    if variant is None:
        variant = rng.choice(["sig", "sig", "falsy", "coarse"]) if mode == "str" else rng.choice(["elem", "ring", "edges"])
    for it in items:
        if mode == "none":
            it["attr"] = None
        elif mode == "str":
            if invariant:
                it["attr"] = {"sig": _signature, "falsy": _sig_falsy, "coarse": _elems_str}[variant](it["g"], cfg)
            else:
                it["attr"] = rng.choice(["a", "b", "", _signature(it["g"])[:3]])
        else:
            if invariant:
                it["attr"] = {"elem": _elem_list, "ring": _ring_attr, "edges": _edge_list_attr}[variant](it["g"]) if (unordered or variant != "elem") else _ring_attr(it["g"])
            else:
                it["attr"] = [rng.choice([1, 2]), rng.choice([1, 2])]
    return items


def _add_twin(items, mode, rng, second, cfg=DEF_CFG):
    """Pool of 2n items: item i+n is item i with the SECOND pre-grouping attribute (the twin trick, see the notes)."""
    n = len(items)
    tw = []
    alt = mode == "list" and all(it["attr"] == _edge_list_attr(it["g"]) for it in items)
    for it in items:
        t = {"g": it["g"], "src": it.get("src", "?")}
        if mode == "none":
            t["attr"] = None
        elif second == "const":
            t["attr"] = "" if mode == "str" else []
        elif mode == "str":
            t["attr"] = _elems_str(it["g"], cfg) if it["attr"] != _elems_str(it["g"], cfg) else _signature(it["g"], cfg)
        else:
            t["attr"] = _ring_attr(it["g"]) if alt else _edge_list_attr(it["g"])
        tw.append(t)
    return items + tw, n


def _same_attr(case, i, j):
    return _ref_key(case, i) == _ref_key(case, j)


def _consistent(case, chosen, nums):
    """Class numbers for the chosen representatives such that isomorphic representatives (same attribute) share a number."""
    cfg = _eff(case)
    tl = []
    for i, c in zip(chosen, nums):
        for j, c2 in tl:
            if ref_iso(case["items"][i]["g"], case["items"][j]["g"], True, cfg) and _same_attr(case, i, j):
                c = c2
                break
        tl.append([i, c])
    return tl


def _history(rng, case, n, idx=None):
    """Random history over the pool 0..n-1 (raw ops)."""
    idx = list(range(n)) if idx is None else list(idx)
    n = len(idx)
    ops = []
    z = rng.random()
    if z < 0.2:
        # one-shot only, several orders
        for _ in range(rng.randint(1, 3)):
            sub = rng.sample(idx, rng.randint(1, n))
            ops.append(["gc_fit", sub] if rng.random() < 0.6 else ["gc_iter", sub, rng.random() < 0.8])
        return ops
    if z < 0.35:
        # explicit consistent starting templates with arbitrary class numbers
        k = rng.randint(1, min(4, n))
        ops.append(["templates", _consistent(case, rng.sample(idx, k), rng.sample(range(0, 12), k))])
    order = idx[:]
    rng.shuffle(order)
    pos = 0
    while pos < len(order):
        r = rng.random()
        take = rng.randint(1, max(1, len(order) - pos))
        chunk = order[pos:pos + take]
        if r < 0.25:
            for i in chunk[:3]:
                ops.append(["lib_check", i])
            take = min(take, 3)
        elif r < 0.5:
            ops.append(["cluster", chunk])
        else:
            if rng.random() < 0.04:
                ops.append(["fit", chunk, rng.choice([0, 0, -1])])          # ValueError is the contract; nothing may be processed
            ops.append(["fit", chunk, rng.choice([None, 1, 2, 3, 5, len(chunk), len(chunk) + 1])])
        pos += take
    if rng.random() < 0.5:
        ops.append(["gc_fit", order])
    return ops


def _batch_vs_oneshot(rng, case, n):
    """The same list one-shot and through fit with every batch size 1..N (C13_batch_equals_oneshot)."""
    order = list(range(n))
    rng.shuffle(order)
    ops = [["gc_fit", order]]
    for bs in [None] + list(range(1, n + 1)):
        ops.append(["reset"])
        ops.append(["fit", order, bs])
    return ops


def _gap_templates(rng, case, n):
    """Starting templates whose class numbers have gaps and whose largest number is NOT on the last template, then everything
    else arrives through cluster / batched fit / lib_check (fresh classes must be max+1, never a number in use)."""
    idx = list(range(n))
    rng.shuffle(idx)
    k = rng.randint(2, min(4, n - 1))
    nums = sorted(rng.sample(range(0, 15), k), reverse=True)
    if k > 2 and rng.random() < 0.5:
        nums[1:] = rng.sample(nums[1:], k - 1)
    tl = _consistent(case, idx[:k], nums)
    rest = idx[k:] + rng.sample(idx[:k], rng.randint(0, k))
    rng.shuffle(rest)
    ops = [["templates", tl]]
    z = rng.random()
    if z < 0.35 or len(rest) < 2:
        ops.append(["cluster", rest])
    elif z < 0.7:
        ops.append(["fit", rest, rng.choice([1, 2, 3])])
    else:
        h = rng.randint(1, len(rest) - 1)
        ops += [["lib_check", i] for i in rest[:h][:3]]
        ops.append(["fit", rest[h:], rng.choice([None, 2])])
    ops.append(["lib_check", rng.choice(idx)])
    return ops


def _empty_templates(rng, case, n):
    """templates=[] (not None) on the one-batch path of fit, then incremental calls on what it returned."""
    order = list(range(n))
    rng.shuffle(order)
    h = rng.randint(1, n)
    ops = [["templates", []], ["fit", order[:h], rng.choice([None, h, h + 2])]]
    ops += [["lib_check", i] for i in order[h:][:2]]
    if order[h + 2:]:
        ops.append(["cluster", order[h + 2:]])
    ops += [["templates", []], ["cluster", order]]
    return ops


# ---- round 3: histories on shared objects

def _h_libs(rng, case, n, side=0):
    """(a) ONE BatchCluster object classified against different libraries of EQUAL size."""
    N = _nbase(case)
    idx = [i + side * N for i in range(n)]
    k = rng.randint(1, min(4, n))
    c1 = rng.sample(idx, k)
    nums = rng.sample([0, 1, 2, 3, 5, 9, 10, 11, 100], k)
    T1 = _consistent(case, c1, nums)
    z = rng.random()
    if z < 0.3:
        perm = nums[1:] + nums[:1]
        T2 = _consistent(case, c1, perm)                     # the same representatives, class numbers permuted
    elif z < 0.45:
        T2 = [T1[p] for p in rng.sample(range(k), k)]        # the same library in another order
    else:
        c2 = rng.sample(idx, k)
        T2 = _consistent(case, c2, rng.sample([0, 1, 2, 3, 4, 7, 10, 12, 100], k))    # other representatives
    xs = rng.sample(idx, min(n, rng.randint(1, 3)))
    ops = [["templates", T1]] + [["lib_check", i] for i in xs]
    # restore the library's size: the first library may have grown, the second one gets as many representatives
    ops.append(["meta", [["t_trunc", k]]]) if rng.random() < 0.5 else None
    ops.append(["templates", T2])
    ys = rng.sample(idx, min(n, rng.randint(1, 3)))
    z = rng.random()
    if z < 0.4:
        ops += [["lib_check", i] for i in ys]
    elif z < 0.7:
        ops.append(["cluster", ys])
    else:
        ops.append(["fit", ys, rng.choice([None, 1, 2])])
    rest = rng.sample(idx, rng.randint(1, n))
    ops.append(["cluster", rest] if rng.random() < 0.5 else ["fit", rest, rng.choice([None, 1, 2, 3, len(rest) + 1])])
    if rng.random() < 0.4:
        ops += [["templates", T1], ["lib_check", rng.choice(idx)]]
    return ops


def _h_twin(rng, case, n):
    """(b) the same library used with the other attribute key (the switch is inserted by _Sim: the SAME list and dict objects)."""
    N = _nbase(case)
    ops = []
    side = rng.randint(0, 1)
    if rng.random() < 0.6:
        k = rng.randint(1, min(3, n))
        ops.append(["templates", _consistent(case, [i + side * N for i in rng.sample(range(n), k)], rng.sample(range(0, 13), k))])
    for _ in range(rng.randint(3, 6)):
        if rng.random() < 0.65:
            side = 1 - side
        sub = [i + side * N for i in rng.sample(range(n), rng.randint(1, min(n, 4)))]
        z = rng.random()
        if z < 0.4:
            ops += [["lib_check", i] for i in sub[:2]]
        elif z < 0.6:
            ops.append(["cluster", sub])
        elif z < 0.8:
            ops.append(["fit", sub, rng.choice([None, 1, 2])])
        elif z < 0.9:
            ops.append(["gc_fit", sub])
        else:
            ops.append(["gc_iter", sub, True])
    return ops


def _h_modes(rng, case, n):
    """(e) ONE GraphCluster / BatchCluster object used with attributes=None then with attributes, labelled then topology-only and
    back, fit twice on the same list object.  Side 1 of the twin pool carries a constant attribute, so attribute_key=None is the
    same call there."""
    N = _nbase(case)
    ops = []
    lists = [rng.sample(range(n), rng.randint(2, n)) for _ in range(2)]
    for _ in range(rng.randint(3, 6)):
        base = rng.choice(lists)
        side = rng.randint(0, 1) if case.get("twin") else 0
        sub = [i + side * N for i in base]
        fl = [{"nokey": 1}] if ((side == 1 or case["attr_mode"] == "none") and rng.random() < 0.7) else []
        z = rng.random()
        if z < 0.35:
            ops.append(["gc_iter", sub, rng.random() < 0.6] + fl)
        elif z < 0.65:
            ops.append(["gc_fit", sub] + fl)
        elif z < 0.8:
            ops.append(["fit", sub, rng.choice([None, 1, 2, len(sub)])] + fl)
        elif z < 0.9:
            ops.append(["cluster", sub] + fl)
        else:
            ops.append(["reset"])
    return ops


def _edit_kinds(g, rng):
    """An edited version of g: count-preserving (one charge / order / element) or count-changing (node / edge added / removed)."""
    for _ in range(8):
        h = _near_miss_deg(g, rng) if rng.random() < 0.6 else _near_miss(g, rng)
        if h != g:
            return h
    return _near_miss(g, rng)


def _h_edit(rng, case, n, versions):
    """(c) graph objects EDITED IN PLACE between calls.  versions: group -> list of pool indices that are versions of one object."""
    cur = {g: v[0] for g, v in versions.items()}
    groups = list(versions)
    ops = []
    if rng.random() < 0.5:
        k = rng.randint(1, min(3, len(groups)))
        ops.append(["templates", _consistent(case, [cur[g] for g in rng.sample(groups, k)], rng.sample(range(0, 12), k))])
    for _ in range(rng.randint(3, 6)):
        for g in groups:
            if len(versions[g]) > 1 and rng.random() < 0.4:
                cur[g] = rng.choice([v for v in versions[g] if v != cur[g]])
        sub = [cur[g] for g in rng.sample(groups, rng.randint(1, min(len(groups), 5)))]
        z = rng.random()
        if z < 0.3:
            ops += [["lib_check", i] for i in sub[:2]]
        elif z < 0.5:
            ops.append(["cluster", sub])
        elif z < 0.7:
            ops.append(["fit", sub, rng.choice([None, 1, 2])])
        elif z < 0.9:
            ops.append(["gc_fit", sub])
        else:
            ops.append(["gc_iter", sub, True])
    return ops


def _h_gc(rng, case, n, versions):
    """(c)+(e) ONE GraphCluster object on the same list: topology-only, labelled, after in-place edits, again."""
    cur = {g: v[0] for g, v in versions.items()}
    groups = list(versions)
    order = rng.sample(groups, len(groups))
    ops = []
    for _ in range(rng.randint(3, 5)):
        lst = [cur[g] for g in order]
        z = rng.random()
        ops.append(["gc_iter", lst, z < 0.5] if z < 0.7 else ["gc_fit", lst])
        if rng.random() < 0.6:
            ops.append(["gc_fit", lst])
        for g in groups:
            if len(versions[g]) > 1 and rng.random() < 0.35:
                cur[g] = rng.choice([v for v in versions[g] if v != cur[g]])
    ops.append(["fit", [cur[g] for g in order], rng.choice([None, 2])])
    return ops


def _h_mutate(rng, case, n):
    """(d) results of earlier calls changed by the caller before the next call."""
    idx = list(range(n))
    ops = []
    z = rng.random()
    first = rng.sample(idx, rng.randint(2, n))
    if z < 0.3:
        ops.append(["gc_iter", first, True])
        ops.append(["meta", [["clusters_clear"]]])
        ops.append(["gc_iter", rng.sample(idx, rng.randint(2, n)), True])
        ops.append(["gc_fit", first])
        ops.append(["meta", [[rng.choice(["set_class", "del_class"]), i, 77] for i in first[:2]]])
        ops.append(["gc_fit", first])
    if z >= 0.2:
        ops.append(["fit", first, rng.choice([None, None, 1, 2])])
        acts = []
        for _ in range(rng.randint(1, 3)):
            w = rng.random()
            if w < 0.3:
                acts.append(["set_class", rng.choice(first), rng.choice([0, 1, 5, 50])])
            elif w < 0.4:
                acts.append(["del_class", rng.choice(first)])
            elif w < 0.6:
                acts.append(["t_append", rng.choice(idx), rng.choice([20, 21, 3])])
            elif w < 0.75:
                acts.append(["t_trunc", rng.randint(0, 2)])
            elif w < 0.9:
                acts.append(["t_class", 0, rng.choice([30, 0, 2])])
            else:
                acts.append(["t_copy"])
        ops.append(["meta", acts])
        rest = rng.sample(idx, rng.randint(1, n))
        w = rng.random()
        if w < 0.4:
            ops += [["lib_check", i] for i in rest[:3]]
        elif w < 0.7:
            ops.append(["cluster", rest])
        else:
            ops.append(["fit", rest, rng.choice([None, 1, 2])])
        if rng.random() < 0.5:
            ops.append(["meta", [["t_perm", "rev"], ["set_class", rng.choice(idx), 9]]])
            ops.append(["cluster", rng.sample(idx, rng.randint(1, n))])
    return ops


def _fix_perm(ops):
    """t_perm 'rev' is resolved by _Sim (it knows the library's length)."""
    return ops


_DEG_GRAPHS = None


def _deg_graphs():
    """Degenerate base graphs: empty, single nodes (ids 0 / 7 / 123), isolated nodes, charges 0 / negative / >= 10,
    orders 0 and 0.0 as scalars and inside ITS pairs, default-valued labels absent."""
    E = {"nodes": [], "edges": []}
    def n1(i, el, ch=None):
        a = {"element": el}
        if ch is not None:
            a["charge"] = ch
        return {"nodes": [[i, a]], "edges": []}
    def path(ids, els, chs, orders):
        return {"nodes": [[i, dict({"element": e}, **({} if c is None else {"charge": c}))] for i, e, c in zip(ids, els, chs)],
                "edges": [[ids[k], ids[k + 1], ({} if o is None else {"order": o})] for k, o in enumerate(orders)]}
    return [
        E, n1(0, "C", 0), n1(7, "C"), n1(123, "O", 0), n1(0, "C", -1), n1(5, "C", 10), n1(5, "C", 11), n1(1, "*", 0), n1(2, "*"),
        {"nodes": [[0, {"element": "C", "charge": 0}], [10, {"element": "C", "charge": 0}]], "edges": []},           # two isolated nodes
        {"nodes": [[0, {"element": "C"}], [1, {"element": "O", "charge": 0}], [100, {"element": "H", "charge": 0}]],
         "edges": [[0, 1, {"order": 1}]]},                                                                         # bond + isolated node
        path([0, 1], ["C", "O"], [0, 0], [0]), path([0, 1], ["C", "O"], [0, 0], [0.0]), path([10, 11], ["C", "O"], [0, None], [1]),
        path([10, 11], ["C", "O"], [0, None], [None]), path([3, 4], ["C", "O"], [-1, 10], [1]), path([3, 4], ["C", "O"], [10, -1], [2]),
        path([0, 1, 2], ["C", "N", "O"], [0, 1, -1], [[0, 1], [1, 0]]), path([0, 1, 2], ["C", "N", "O"], [0, 1, -1], [[0.0, 1.0], [1, 0]]),
        path([0, 1, 2], ["C", "N", "O"], [0, 1, -1], [[1, 0], [1, 0]]), path([100, 101, 102], ["C", "C", "C"], [0, 0, 0], [1, 0]),
        path([100, 101, 102], ["C", "C", "C"], [0, 0, 0], [0, 1]), path([20, 21, 22], ["C", "C", "C"], [0, 12, 0], [1, 1.5]),
        path([5, 6, 7], ["C", "C", "O"], [0, 0, 0], [0, 2]), path([5, 6, 7], ["C", "C", "O"], [0, 0, 0], [None, 2]),
        path([5, 6, 7], ["C", "C", "O"], [0, 0, 0], [0.0, 2]), path([1, 2], ["N", "N"], [0, 0], [0]), path([1, 2], ["N", "N"], [0, 0], [1]),
    ]


def _ring(n, els, orders, first=1, charges=None):
    ids = list(range(first, first + n))
    return {"nodes": [[i, {"element": els[k % len(els)], "charge": (charges or [0])[k % len(charges or [0])]}] for k, i in enumerate(ids)],
            "edges": [[ids[k], ids[(k + 1) % n], {"order": orders[k % len(orders)]}] for k in range(n)]}


def _chain(n, els, orders, first=1):
    g = _ring(n, els, orders, first)
    g["edges"] = g["edges"][:-1]
    return g


def _big_graphs(rng):
    """10-14 node rings / chains with few automorphisms (cheap for the model's enumerator) and their near-misses."""
    out = []
    for n in (10, 11, 12, 14):
        els = ["C", "C", "N", "C", "O", "C", "C", "S", "C", "C", "Cl", "C", "B", "C"][:n]
        out.append(_chain(n, els, [1, 2, 1, 1.5], first=rng.choice([0, 1, 95])))
    out.append(_ring(10, ["C", "N", "C", "O", "C", "C", "S", "C", "C", "C"], [1, 2], first=1))
    out.append(_ring(12, ["C", "C", "N", "C", "O", "C", "C", "C", "N", "C", "C", "O"], [1, 1, 2], first=90))
    out.append(_ring(10, ["C"], [1], first=1, charges=[0, 0, 0, 1, 0, 0, 0, 0, -1, 0]))
    return out


CFGS = [
    {"names": ["element"], "defaults": ["*"], "edge": "order"},
    {"names": ["charge"], "defaults": [0], "edge": "order"},
    {"names": ["charge", "element"], "defaults": [0, "*"], "edge": "order"},
    {"names": ["element", "charge"], "defaults": ["C", 1], "edge": "order"},
    {"names": ["element", "charge"], "defaults": ["*", 0], "edge": "standard_order"},
    {"names": ["element", "hcount"], "defaults": ["*", 0], "edge": "order"},
    {"names": [], "defaults": [], "edge": "order"},
    {"names": ["element", "charge", "hcount"], "defaults": ["*", 0, 0], "edge": "order"},      # outside the model (3 labels)
]


def _cfg_pool(rng, base, size, cfg):
    """Pool for a non-default configuration: near-misses also in the attributes the configuration IGNORES (must be merged) and
    in the ones it adds."""
    items = _pool(rng, base, size)
    for it in items:
        g = it["g"]
        for _, a in g["nodes"]:
            a.setdefault("hcount", 0)
            if rng.random() < 0.15:
                a["hcount"] = rng.choice([0, 1, 2])
            if rng.random() < 0.1 and "charge" in a:
                a["charge"] = rng.choice([0, 1])
            if rng.random() < 0.1:
                a.pop(rng.choice(["charge", "element", "hcount"]), None)
        for _, _, a in g["edges"]:
            o = a.get("order", 1)
            a["standard_order"] = (o[0] - o[1]) if isinstance(o, list) else 0
            if rng.random() < 0.1:
                a["standard_order"] = rng.choice([0, 1, -1])
    return items


def gen_cases(tier, rng):
    corpus = _corpus()
    cases = []
    quick = tier == "quick"
    synth = [{"nodes": [[n, {k: v for k, v in a.items() if k in ("element", "charge")}] for n, a in g["nodes"]], "edges": g["edges"]}
             for n_ in (2, 3) for g in G.iso_classes(n_, G.MOL_NODE_LABELS_NOH, G.MOL_EDGE_LABELS)]
    deg = _deg_graphs()
    small_corpus = [g for g in corpus if len(g["nodes"]) <= 6]

    def style(c, p_shared=0.6, fancy=True):
        """Calling conventions and object sharing of one case."""
        if rng.random() < p_shared:
            c["shared"] = True
        if fancy:
            z = rng.random()
            if z < 0.25:
                c["call"] = "pos"
            elif z < 0.5:
                c["call"] = "kw"
            if rng.random() < 0.25:
                c["rule_key"] = rng.choice(["RC", "gml", "graph"])
            if rng.random() < 0.1:
                c["strip"] = True
        return c

    def finish(c, raw, extras=True):
        raw = [o for o in raw if o is not None]
        if extras and rng.random() < 0.15 and c["items"] and not c.get("obj"):
            n = _nbase(c)
            if rng.random() < 0.6:
                how = rng.choice(["nm", "nm", "none"] + (["defaults"] if _eff(c) == DEF_CFG else []))
                raw.append(["iso", rng.randrange(n), rng.randrange(n), how])
            side = rng.randint(0, 1) * _nbase(c) if c.get("twin") else 0
            sub = [side + rng.randrange(_nbase(c)) for _ in range(rng.randint(1, 12))]
            raw.append(["batch_dicts", sub, rng.choice([1, 2, 3, 10, 12, len(sub), len(sub) + 1])])
        try:
            c["ops"] = _finalize(c, raw)
        except ValueError:
            return None
        cases.append(c)
        return c

    def mk(kind, items, mode, inv, opsf, p_shared=0.0, fancy=False, cfg=None, variant=None):
        _set_attrs(items, mode, inv, rng, cfg or DEF_CFG, variant)
        c = dict(kind=kind, attr_mode=mode, invariant=inv, items=items, ops=[])
        if cfg is not None:
            c["cfg"] = cfg
        style(c, p_shared, fancy)
        return finish(c, opsf(c), extras=fancy)

    # all 6 orders of three near-miss triples (exhaustive tiny scope)
    for t in range(3):
        g = corpus[t * 7 % len(corpus)]
        trip = [{"g": _copy(g), "src": "dup"}, {"g": _relabelled(g, rng), "src": "relabel"}, {"g": _near_miss(g, rng), "src": "near"}]
        for perm in itertools.permutations(range(3)):
            items = [dict(trip[p]) for p in perm]
            mk("exh-orders", items, "none", True,
               lambda c: [["gc_fit", [0, 1, 2]], ["gc_iter", [0, 1, 2], True], ["fit", [0, 1, 2], 1], ["reset"],
                          ["cluster", [0, 1, 2]], ["reset"], ["fit", [0, 1, 2], None], ["lib_check", 2]], p_shared=0.5)
    N = (lambda q, t: q if quick else t)
    # ---- bulk histories (round 1/2 population, now 60 % of them on shared objects)
    for t in range(N(450, 4500)):
        z = rng.random()
        if z < 0.7:
            base = rng.sample(corpus, rng.randint(2, 4))
            kind = "corpus"
        else:
            base = rng.sample(synth, rng.randint(2, 4))
            kind = "synthetic"
        size = rng.randint(3, 12 if quick else 16)
        mode = rng.choice(["none", "str", "str", "list"])
        inv = mode == "none" or rng.random() < 0.85
        items = _pool(rng, base, size)
        if rng.random() < 0.12:
            # records without any bond change: their reaction centre is the EMPTY graph (all of them isomorphic to each other)
            for _ in range(rng.randint(2, 3)):
                items[rng.randrange(size)] = {"g": {"nodes": [], "edges": []}, "src": "dup"}
        mk(kind + "/history", items, mode, inv, lambda c: _history(rng, c, size), p_shared=0.6, fancy=True)
    # default-valued labels spelled differently (attribute absent / default written out), wildcard atoms, order-1 bonds
    wild = []
    for g in synth:
        h = _copy(g)
        rng.choice(h["nodes"])[1]["element"] = "*"
        wild.append(h)
    for t in range(N(120, 1200)):
        z = rng.random()
        if z < 0.35:
            base, kind = rng.sample(corpus, rng.randint(2, 3)), "corpus"
        else:
            base, kind = rng.sample(synth + wild, rng.randint(2, 4)), "synthetic"
        size = rng.randint(4, 9)
        mode = rng.choice(["none", "none", "str", "list"])
        items = _pool(rng, base, size)
        for it in items:
            if rng.random() < 0.65:
                it["g"] = _respell(it["g"], rng)
                if it["src"] == "dup":
                    it["src"] = "respell"
        z = rng.random()
        hist = _gap_templates if z < 0.3 else _empty_templates if z < 0.4 else _history
        mk(kind + "/respelled", items, mode, True, lambda c: hist(rng, c, size), p_shared=0.5, fancy=True)
    for t in range(N(70, 1200)):
        base = rng.sample(corpus, rng.randint(2, 3))
        size = rng.randint(3, 8)
        mode = rng.choice(["none", "str", "list"])
        items = _pool(rng, base, size)
        mk("corpus/batch-vs-oneshot", items, mode, True, lambda c: _batch_vs_oneshot(rng, c, size), p_shared=0.5)

    # ---- round 3
    def bases(p_deg=0.3):
        z = rng.random()
        if z < p_deg:
            return rng.sample(deg, rng.randint(2, 4)) + ([deg[0]] * rng.randint(1, 2) if rng.random() < 0.6 else []), _near_miss_deg, "degenerate"
        if z < p_deg + 0.4:
            return rng.sample(small_corpus, rng.randint(2, 3)), _near_miss, "corpus"
        return rng.sample(synth + wild, rng.randint(2, 4)), rng.choice([_near_miss, _near_miss_deg]), "synthetic"

    def new_case(kind, size, histf, twin=None, shared=True, mode=None, pool_kw=None, cfg=None, p_deg=0.3):
        base, near, src = bases(p_deg)
        mode = mode or rng.choice(["none", "str", "str", "list"])
        items = _pool(rng, base, size, near=near, hi=rng.choice([60, 60, 12, 400]), **(pool_kw or {}))
        _set_attrs(items, mode, True, rng)
        c = dict(kind="%s/%s" % (src, kind), attr_mode=mode, invariant=True, items=items, ops=[])
        if twin:
            c["items"], c["twin"] = _add_twin(items, mode, rng, twin)
        style(c, 1.0 if shared else 0.0, True)
        return finish(c, histf(c))

    # (a) one BatchCluster object, libraries of equal size
    for t in range(N(70, 500)):
        size = rng.randint(3, 8)
        new_case("shared-libraries", size, lambda c: _h_libs(rng, c, size))
    # (b) same library, other attribute key
    for t in range(N(70, 500)):
        size = rng.randint(3, 7)
        new_case("shared-other-key", size, lambda c: _h_twin(rng, c, size), twin="other", mode=rng.choice(["str", "str", "list"]))
    # (e) one object: attributes None / given, labelled / topology-only, fit twice on the same list
    for t in range(N(50, 400)):
        size = rng.randint(3, 7)
        md = rng.choice(["none", "str", "list"])
        new_case("shared-modes", size, lambda c: _h_modes(rng, c, size), twin=None if md == "none" else "const", mode=md)
    # (c) graph objects edited in place between calls
    for t in range(N(110, 600)):
        size = rng.randint(3, 6)
        base, near, src = bases(0.25)
        mode = rng.choice(["none", "str", "list"])
        items = _pool(rng, base, size, near=near)
        versions = {g: [g] for g in range(size)}
        obj = list(range(size))
        for g in range(size):
            for _ in range(rng.choice([0, 1, 1, 2])):
                items.append({"g": _edit_kinds(items[rng.choice(versions[g])]["g"], rng), "src": "near"})
                versions[g].append(len(items) - 1)
                obj.append(g)
        _set_attrs(items, mode, True, rng)
        c = dict(kind="%s/shared-edited-in-place" % src, attr_mode=mode, invariant=True, items=items, ops=[], obj=obj)
        style(c, 1.0, True)
        finish(c, _h_edit(rng, c, size, versions) if t % 3 else _h_gc(rng, c, size, versions))
    # (d) results mutated by the caller
    for t in range(N(60, 400)):
        size = rng.randint(3, 7)
        new_case("shared-caller-mutations", size, lambda c: _h_mutate(rng, c, size))
    # C: degenerate values (fresh objects and shared objects)
    for t in range(N(110, 600)):
        size = rng.randint(3, 9)
        hist = rng.choice([_history, _history, _gap_templates, _empty_templates, _batch_vs_oneshot, _h_libs])
        new_case("degenerate", size, lambda c: hist(rng, c, size), shared=rng.random() < 0.5, p_deg=1.0,
                 pool_kw=dict(p_near=0.3, p_rel=0.35))
    # duplicate entries: the same index several times in one data list
    for t in range(N(20, 100)):
        size = rng.randint(2, 5)
        def dup_hist(c):
            l = [rng.randrange(size) for _ in range(rng.randint(3, 7))]
            return [["gc_fit", l], ["fit", l, rng.choice([None, 1, 2])], ["cluster", l[::-1]], ["reset"], ["cluster", l], ["lib_check", l[0]]]
        new_case("duplicate-entries", size, dup_hist, shared=rng.random() < 0.7)
    # D: sizes -- graphs of 10-14 nodes, pools >= 20, class numbers >= 10, batch sizes >= 10
    big = _big_graphs(rng)
    for t in range(N(10, 60)):
        size = rng.randint(4, 5)
        items = _pool(rng, rng.sample(big, 2), size, p_near=0.35, p_rel=0.5, hi=rng.choice([60, 200]))
        mk("sizes/big-graphs", items, rng.choice(["none", "str", "list"]), True,
           lambda c: [["gc_fit", list(range(size))], ["templates", [[0, 10]]], ["fit", list(range(size)), 2]], p_shared=0.5, fancy=True)
    for t in range(N(12, 60)):
        size = rng.randint(20, 26)
        items = _pool(rng, rng.sample(synth + deg, 6) + rng.sample(small_corpus, 2), size, near=_near_miss_deg)
        def big_hist(c):
            idx = list(range(size))
            rng.shuffle(idx)
            k = 4
            tl = _consistent(c, idx[:k], rng.sample([9, 10, 11, 100, 12, 99], k))
            return [["templates", tl], ["fit", idx[k:], rng.choice([10, 11, 12, 16])], ["lib_check", idx[0]], ["reset"],
                    ["fit", idx, rng.choice([10, 13, None])], ["gc_fit", idx]]
        mk("sizes/big-pools", items, rng.choice(["none", "str", "list"]), True, big_hist, p_shared=0.5, fancy=True)
    # A: constructor options (non-default label names / defaults / edge attribute), explicit matchers
    for t in range(N(48, 300)):
        cfg = CFGS[t % len(CFGS)]
        size = rng.randint(3, 7)
        items = _cfg_pool(rng, rng.sample(small_corpus, 2) if rng.random() < 0.5 else rng.sample(synth + wild, 3), size, cfg)
        def cfg_hist(c):
            idx = list(range(size))
            ops = [["gc_fit", rng.sample(idx, size)], ["gc_iter", rng.sample(idx, size), True]]
            ops += [["lib_check", i] for i in rng.sample(idx, min(3, size))]
            ops += [["cluster", rng.sample(idx, size)], ["reset"], ["cluster", rng.sample(idx, size)]]
            if FIT_HONOURS_OPTIONS or _norm_cfg(cfg) == _norm_cfg(DEF_CFG):
                ops += [["fit", idx, None], ["reset"], ["fit", idx, 2], ["reset"], ["fit", rng.sample(idx, size), size + 1]]
            ops.append(["iso", rng.randrange(size), rng.randrange(size), "nm"])
            return ops
        if t % 4 == 3:
            cfg = dict(cfg, backend=rng.choice(["NX", "Nx"]))
        mk("options/constructor", items, rng.choice(["none", "none", "str"]), True, cfg_hist, p_shared=0.7, fancy=True, cfg=cfg, variant="sig")
    for t in range(N(24, 150)):
        m = CFGS[t % 7]
        size = rng.randint(3, 6)
        items = _cfg_pool(rng, rng.sample(small_corpus, 2) if rng.random() < 0.5 else rng.sample(synth + wild, 3), size, m)
        _set_attrs(items, "none", True, rng)
        c = dict(kind="options/explicit-matchers", attr_mode="none", invariant=True, items=items, ops=[], match=m)
        if rng.random() < 0.5:
            c["cfg"] = rng.choice(CFGS[:6])         # the object's own configuration is a decoy: explicit matchers win
        style(c, 0.7, True)
        idx = list(range(size))
        raw = [["gc_iter", rng.sample(idx, size), True]] + [["lib_check", i] for i in rng.sample(idx, size)]
        raw += [["templates", [[idx[0], 4]]]] + [["lib_check", i] for i in rng.sample(idx, min(3, size))] + [["iso", 0, size - 1, "nm"]]
        finish(c, raw, extras=False)
    # contract of the constructors / batch_dicts / available_backends (oracle only)
    g2 = [{"g": _copy(synth[0]), "src": "dup", "attr": None}, {"g": _copy(synth[1]), "src": "dup", "attr": None}]
    contract = []
    for which in ("gc", "bc"):
        contract.append(["backends", which])
        for names, defaults, edge, backend in (
                (["element", "charge"], ["*", 0], "order", "nx"), (["element"], ["*", 0], "order", "nx"),
                (["element", "charge"], ["*"], "order", "nx"), ([], [], "order", "nx"), (["element", "charge"], ["*", 0], "order", "mod"),
                (["element", "charge"], ["*", 0], "order", "rule"), (["element", "charge"], ["*", 0], "order", "rdkit"),
                (["element"], ["*", 0], "order", "foo"),
                # round 5: which test comes first -- an unavailable optional backend AND names / defaults of different lengths
                (["element"], ["*", 0], "order", "mod"), (["element", "charge"], ["*"], "order", "Rule")):
            contract.append(["ctor", which, names, defaults, edge, backend])
    for k, call in enumerate(("short", "pos", "kw", "short", "pos", "kw")):
        cases.append(dict(kind="options/contract", attr_mode="none", invariant=True, items=[dict(x) for x in g2], call=call, shared=k >= 3,
                          ops=contract[::1 if k < 3 else -1] + [["batch_dicts", [0, 1, 0], 0], ["batch_dicts", [0, 1], -1 - k], ["batch_dicts", [0, 1, 1], 2]]))
        cases.append(dict(kind="options/contract", attr_mode="none", invariant=True, items=[dict(x) for x in g2], call=call, shared=k < 3,
                          ops=[["fit", [0, 1][::1 if k < 3 else -1], 0, []], ["fit", [0, 1], -3 - k, []], ["fit", [0, 1, 0], 2, []], ["batch_dicts", [1, 0], 1]]))
    # the expensive cases (big graphs / big pools) are spread over the list so that they do not share one model shard
    heavy = [c for c in cases if c["kind"].startswith("sizes/")]
    rest = [c for c in cases if not c["kind"].startswith("sizes/")]
    step = max(1, len(rest) // (len(heavy) + 1))
    for k, c in enumerate(heavy):
        rest.insert(min(len(rest), (k + 1) * step + k), c)
    # pre-grouping attribute ABSENT on the entries of one isomorphism class (str mode; GraphCluster reads attributes[0] to decide
    # how to compare, so the first entry of every one-shot call keeps its attribute)
    for t in range(40 if quick else 300):
        base = rng.sample(small_corpus if rng.random() < 0.6 else synth, rng.randint(2, 3))
        size = rng.randint(4, 8)
        items = _pool(rng, base, size)
        _set_attrs(items, "str", True, rng, DEF_CFG, None)
        k = rng.randrange(size)
        cls = [j for j in range(size) if ref_iso(items[j]["g"], items[k]["g"])]
        if len(cls) == size:
            continue
        for j in cls:
            items[j]["attr"] = None
        keep = [j for j in range(size) if j not in cls]
        order = list(range(size))
        rng.shuffle(order)
        if not FIRST_ITEM_FREE:
            order.remove(keep[0])
            order.insert(0, keep[0])
        c = dict(kind="options/absent-attr", attr_mode="str", invariant=True, items=items, ops=[])
        style(c, 0.5, False)
        raw = [["gc_fit", order], ["fit", order, rng.choice([1, 2, 3])], ["reset"], ["cluster", order[::-1]], ["reset"],
               ["lib_check", cls[0]], ["lib_check", keep[0]]] + [["lib_check", j] for j in order[1:4]] + [["fit", order, None]]
        got = finish(c, raw, extras=False)
        if got is not None:
            rest.append(got)
    # mixed attribute forms inside one list (round 4): every isomorphism class gets its own FORM of invariant attribute -- a str, a
    # list / tuple presented in another order on every item, a dict / OrderedDict presented in another insertion order, an int,
    # or no attribute at all -- and the list order is random (any form may come first)
    for t in range(90 if quick else 600):
        base = rng.sample(small_corpus if rng.random() < 0.6 else synth, rng.randint(2, 4))
        size = rng.randint(4, 9)
        items = _pool(rng, base, size)
        reps, forms = [], []
        for it in items:
            for r, (g0, f0) in enumerate(zip(reps, forms)):
                if ref_iso(it["g"], g0):
                    form = f0
                    break
            else:
                form = rng.choice(["s", "l", "l", "t", "lt", "d", "od", "i", "absent", "absent"])
                reps.append(it["g"])
                forms.append(form)
            sig = _signature(it["g"])
            els = [ord(c) % 50 for c in sig][:6]
            if form == "s":
                it["attr"] = {"s": sig}
            elif form in ("l", "t", "lt"):
                it["attr"] = {"l": rng.sample(els, len(els)), "tuple": form == "t" or (form == "lt" and rng.random() < 0.5)}
            elif form in ("d", "od"):
                pairs = sorted({(k, v) for k, v in zip(els, els[1:] + els[:1])})
                pairs = [list(p_) for p_ in {k: v for k, v in pairs}.items()]
                it["attr"] = {"d": rng.sample(pairs, len(pairs)), "od": form == "od"}
            elif form == "i":
                it["attr"] = {"i": sum(els)}
            else:
                it["attr"] = None
        order = list(range(size))
        rng.shuffle(order)
        c = dict(kind="options/mixed-attr", attr_mode="mixed", invariant=True, items=items, ops=[])
        style(c, 0.5, False)
        raw = [["gc_fit", order], ["gc_iter", order[::-1], True], ["fit", order, rng.choice([1, 2, 3])], ["reset"],
               ["cluster", order[::-1]], ["reset"], ["fit", order, None], ["lib_check", order[0]], ["lib_check", order[-1]]]
        got = finish(c, raw, extras=False)
        if got is not None:
            rest.append(got)
    # list-valued pre-grouping attributes handed over as tuples (all items, or a random half: list vs tuple of the same multiset)
    for c in rest:
        if c["attr_mode"] == "list" and rng.random() < 0.3:
            every = rng.random() < 0.5
            for it in c["items"]:
                if every or rng.random() < 0.5:
                    it["as_tuple"] = True
            c["kind"] += "+tuple-attr"
    # round 5: raw attribute dictionaries as callers have them -- attributes the configuration does NOT name (atom maps, hydrogen
    # counts, aromaticity flags, neighbour lists, typesGH tuples; standard_order and bond type on the bonds) differ between the
    # copies of one isomorphism class and must be ignored; the model selects the configured names itself (project13)
    rng2 = _random.Random(rng.getrandbits(32))
    for c in rest:
        if not c["items"] or rng2.random() >= 0.35:
            continue
        used_n, used_e = set(DEF_CFG["names"]), {DEF_CFG["edge"]}
        for cf in (c.get("cfg"), c.get("match")):
            if cf:
                used_n |= set(cf["names"])
                used_e.add(cf["edge"])
        for it in c["items"]:
            g = it["g"] = _copy(it["g"])
            for n_, a in g["nodes"]:
                if rng2.random() < 0.6:
                    a["atom_map"] = rng2.randint(0, 30)
                if "hcount" not in used_n and rng2.random() < 0.5:
                    a["hcount"] = rng2.choice([0, 1, 2, 3])
                if rng2.random() < 0.3:
                    a["aromatic"] = rng2.random() < 0.5
                if rng2.random() < 0.3:
                    a["neighbors"] = rng2.sample(["C", "O", "N", "H"], rng2.randint(0, 3))
                if rng2.random() < 0.2:
                    a["typesGH"] = [[a.get("element", "*"), False, 0, 0, []], [a.get("element", "*"), False, 1, 0, []]]
            for u, v, a in g["edges"]:
                if "standard_order" not in used_e and rng2.random() < 0.5:
                    a["standard_order"] = rng2.choice([0, 1, -1, 0.5])
                if rng2.random() < 0.3:
                    a["bond_type"] = rng2.choice(["SINGLE", "DOUBLE"])
        c["kind"] += "+raw-extra"
    # round 5: graph_isomorphism called directly under NON-default configurations: pairs that the configured matcher and the
    # function's own defaults judge differently (charge / hcount / standard_order changed, attributes dropped)
    for t in range(48 if quick else 300):
        cfg = CFGS[4] if t % 3 == 0 else CFGS[t % len(CFGS)]          # every third case: edge attribute "standard_order"
        g0 = _cfg_pool(rng2, [rng2.choice(small_corpus if rng2.random() < 0.5 else [g for g in synth if g["edges"]])], 1, cfg)[0]["g"]
        for _, a in g0["nodes"]:
            a.setdefault("charge", 0)
            a.setdefault("hcount", 0)
        variants = [_copy(g0), _relabelled(g0, rng2)]
        for key, vals_ in (("charge", [0, 1, 2]), ("hcount", [0, 1, 2]), ("element", ["C", "N", "O"])):
            h = _relabelled(g0, rng2) if rng2.random() < 0.5 else _copy(g0)
            a = rng2.choice(h["nodes"])[1]
            a[key] = rng2.choice([v for v in vals_ if v != a.get(key)])
            variants.append(h)
        if g0["edges"]:
            for key, vals_ in (("standard_order", [0, 1, -1]), ("order", [1, 2, 3])):
                h = _relabelled(g0, rng2) if rng2.random() < 0.5 else _copy(g0)
                a = rng2.choice(h["edges"])[2]
                a[key] = rng2.choice([v for v in vals_ if v != a.get(key)])
                variants.append(h)
        items = [{"g": h, "src": "near" if i > 1 else "relabel" if i else "dup"} for i, h in enumerate(variants)]
        size = len(items)
        _set_attrs(items, "none", True, rng2, cfg, "sig")
        c = dict(kind="options/iso-call", attr_mode="none", invariant=True, items=items, ops=[], cfg=cfg,
                 call=rng2.choice(["short", "pos", "kw"]), shared=rng2.random() < 0.5)
        raw = [["gc_fit", list(range(size))]]
        for j in range(1, size):
            for how in rng2.sample(sorted(_ISO_HOW), 3):
                raw.append(["iso", 0, j, how] if rng2.random() < 0.5 else ["iso", j, 0, how])
        try:
            c["ops"] = _finalize(c, raw)
            rest.append(c)
        except ValueError:
            pass
    # audit round 5: numbers spelled differently -- charge 0 / 0.0, -1 / -1.0 (float charges are outside the model: oracle only) and
    # bond order 1 / 1.0 / 2 / 2.0 (same half-units in the model): Python's == makes them one value
    for t in range(16 if quick else 100):
        base = rng2.sample(small_corpus, 2) if rng2.random() < 0.5 else rng2.sample([g for g in synth if g["edges"]], 3)
        size = rng2.randint(4, 7)
        items = _pool(rng2, base, size)
        float_charges = t % 2 == 0
        for it in items:
            g = it["g"] = _copy(it["g"])
            for _, a in g["nodes"]:
                if float_charges and isinstance(a.get("charge"), int) and not isinstance(a.get("charge"), bool) and rng2.random() < 0.5:
                    a["charge"] = float(a["charge"])
            for _, _, a in g["edges"]:
                o = a.get("order")
                if isinstance(o, int) and not isinstance(o, bool) and rng2.random() < 0.5:
                    a["order"] = float(o)
                elif isinstance(o, list) and rng2.random() < 0.5:
                    a["order"] = [float(x) for x in o]
        _set_attrs(items, "none", True, rng2)
        c = dict(kind="respelled-numeric", attr_mode="none", invariant=True, items=items, ops=[], shared=rng2.random() < 0.5,
                 call=rng2.choice(["short", "kw"]))
        order = list(range(size))
        rng2.shuffle(order)
        try:
            c["ops"] = _finalize(c, [["gc_fit", order], ["fit", order, rng2.choice([None, 1, 2])], ["reset"], ["cluster", order[::-1]],
                                     ["lib_check", order[0]]])
            rest.append(c)
        except ValueError:
            pass
    # round 5 (wave 4): every optional matcher argument supplied ALONE, in pairs and all together.  lib_check falls back to the
    # object's own matcher per argument; the items are a graph, a relabelled copy and copies that differ in exactly ONE thing that
    # one of the two readings (caller's matcher / object's matcher) compares: charge, hcount, element, order, standard_order
    lcs = [("ex", "none"), ("none", "ex"), ("ex", "ex"), ("obj", "ex"), ("ex", "obj"), ("obj", "none"), ("none", "obj"), ("obj", "obj")]
    for t in range(72 if quick else 400):
        m = CFGS[t % 7]
        ocfg = None if t % 3 == 0 else CFGS[(t * 5 + 3) % 7]
        g0 = _cfg_pool(rng2, [rng2.choice(small_corpus if rng2.random() < 0.5 else [g for g in synth if g["edges"]])], 1, m)[0]["g"]
        for _, a in g0["nodes"]:
            a.setdefault("charge", 0)
            a.setdefault("hcount", 0)
        variants = [_copy(g0), _relabelled(g0, rng2)]
        for key, vals_ in (("charge", [0, 1, 2]), ("hcount", [0, 1, 2]), ("element", ["C", "N", "O"])):
            h = _relabelled(g0, rng2) if rng2.random() < 0.5 else _copy(g0)
            a = rng2.choice(h["nodes"])[1]
            a[key] = rng2.choice([v for v in vals_ if v != a.get(key)])
            variants.append(h)
        if g0["edges"]:
            for key, vals_ in (("standard_order", [0, 1, -1]), ("order", [1, 2, 3])):
                h = _relabelled(g0, rng2) if rng2.random() < 0.5 else _copy(g0)
                a = rng2.choice(h["edges"])[2]
                a[key] = rng2.choice([v for v in vals_ if v != a.get(key)])
                variants.append(h)
        items = [{"g": h, "src": "near" if i > 1 else "relabel" if i else "dup"} for i, h in enumerate(variants)]
        size = len(items)
        _set_attrs(items, "none", True, rng2)
        lc = lcs[t % len(lcs)]
        c = dict(kind="options/single-matcher", attr_mode="none", invariant=True, items=items, ops=[], match=m, lc=list(lc),
                 call=rng2.choice(["short", "pos", "kw", "kwmin", "kwmin"]), shared=rng2.random() < 0.6)
        if ocfg is not None:
            c["cfg"] = ocfg
        fl = {"nm": lc[0], "em": lc[1]}
        order = list(range(1, size))
        rng2.shuffle(order)
        raw = [["templates", [[0, rng2.choice([0, 3, 7])]]]] + [["lib_check", i, dict(fl)] for i in order]
        raw += [["reset"]] + [["lib_check", i, dict(fl)] for i in rng2.sample(range(size), min(4, size))]
        for _ in range(2):
            gs = rng2.choice(["none", "obj", "ex"]), rng2.choice(["none", "obj", "ex"])
            raw.append(["gc_iter", rng2.sample(range(size), size), gs != ("none", "none"), {"nm": gs[0], "em": gs[1]}])
        raw.append(["iso", 0, rng2.randrange(1, size), rng2.choice(sorted(_ISO_HOW))])
        try:
            c["ops"] = _finalize(c, raw)
            rest.append(c)
        except ValueError:
            pass
    for c in rest:
        if c.get("call") == "kw" and rng2.random() < 0.4:
            c["call"] = "kwmin"       # only the arguments that differ from the signature defaults, by keyword
    # wave 4: the DEFAULT key names of the signatures (rule_key "gml", attribute_key "WLHash" / "signature"), so that rule_key and
    # attribute_key can be omitted (trailing defaults in the positional styles, by omission in kwmin)
    for c in rest:
        if (c["attr_mode"] in ("str", "list") and not c.get("twin") and "rule_key" not in c and c["items"]
                and all(it.get("attr") is not None for it in c["items"]) and rng2.random() < 0.2):
            c["default_keys"] = True
            c["call"] = rng2.choice(["short", "kwmin", "kwmin", "kw", "pos"])
            c["kind"] += "+default-keys"
    for t in range(16 if quick else 80):      # ... and histories of lib_check alone (its default attribute_key is "signature", not "WLHash")
        size = rng2.randint(4, 7)
        items = _pool(rng2, rng2.sample(small_corpus, 2) if rng2.random() < 0.6 else rng2.sample(synth, 3), size)
        _set_attrs(items, rng2.choice(["str", "list"]), True, rng2)
        c = dict(kind="options/lib-check-default-keys", attr_mode="str" if isinstance(items[0]["attr"], str) else "list", invariant=True,
                 items=items, ops=[], default_keys=True, call=rng2.choice(["short", "kwmin"]), shared=rng2.random() < 0.5)
        order = list(range(size))
        rng2.shuffle(order)
        try:
            c["ops"] = _finalize(c, [["lib_check", i] for i in order] + [["reset"]] + [["lib_check", i] for i in order[::-1][:4]])
            rest.append(c)
        except ValueError:
            pass
    # graph_isomorphism with only one matcher given, with use_defaults filling in the other, with both and use_defaults
    for c in rest:
        for op in c["ops"]:
            if op[0] == "iso" and rng2.random() < 0.6:
                op[3] = rng2.choice(["nm_only", "em_only", "nm_defaults", "em_defaults", "both_defaults", "defaults", "none"])
    return rest
