"""C13 -- clustering partitions graphs exactly into isomorphism classes.

case = {"kind": str, "attr_mode": "none" | "str" | "list", "invariant": bool,
        "items": [{"g": graph, "attr": None | str | [int, ...]}, ...],     # the pool; ops refer to pool indices
        "ops": [op, ...]}
op   = ["gc_iter", [idx...], labelled]   GraphCluster().iterative_cluster(graphs, attrs, nodeMatch, edgeMatch)
                                          (labelled=False: nodeMatch=edgeMatch=None, i.e. topology only)
       ["gc_fit", [idx...]]               GraphCluster().fit(data, "g", attr_key)
       ["templates", [[idx, class], ...]] start from the given class representatives
       ["reset"]                          templates = None
       ["lib_check", idx]                 BatchCluster().lib_check(entry, templates, "g", attr_key)
       ["cluster", [idx...]]              BatchCluster().cluster(data, templates, "g", attr_key)
       ["fit", [idx...], batch_size|None, picks]   BatchCluster().fit(data, templates, "g", attr_key, batch_size)
             picks = the choices of random.sample (seed 1) inside stratified_random_sample on the one-shot path,
             one position per class, pre-computed by the generator from a reference clustering (external randomness
             is an input of the model, DESIGN section 3); [] when the path is not taken.
The batch ops carry the growing template list from op to op (the property's state).
Observable per op: classes written to the processed entries (+ clusters / rule_to_cluster for gc_iter) and the
template list as [pool index, class] pairs in list order.
"""
import itertools
import random as _random

from ..coqrun import cN, cZ, cnat, cbool, clist, cpair, copt
from ..tok import S
from ..gen import graphs as G

PID = "C13"
COQ_HEADER = "From Coq Require Import List NArith ZArith.\nImport ListNotations.\nFrom SK Require Import lib.Tok lib.LGraph model.C13_Model.\n"
SHARD = 40
IMPL_TIMEOUT = 1500
COQ_TIMEOUT = 1500

RULE = ("histories of clustering calls (one-shot GraphCluster, incremental lib_check / cluster, batched fit with batch sizes 1..N, "
        "explicit starting templates) over multisets of reaction centres from Data/Testcase/test.pkl.gz and graph.pkl.gz with duplicates, "
        "relabelled copies and near-misses (one bond order / one charge changed) in random orders; non-trivial = the multiset has "
        ">= 2 isomorphism classes, at least one class with >= 2 members and at least one near-miss or relabelled copy; "
        "distinct = distinct (pool, ops)")
EXHAUSTIVE = {"quick": False, "thorough": False}
EXPLANATION = ("Theorems are for all lists and all equivalence relations; the correspondence samples multisets of corpus reaction centres "
               "(ITS rc graphs with order pairs) and small synthetic molecule graphs (also with wildcard atoms and with default-valued "
               "labels -- charge 0, order 1, element * -- absent on some copies), starting templates with gaps in the class numbers or an "
               "empty template list, every list order being a seeded shuffle; "
               "nothing is enumerated exhaustively except all 6 orders of 3-item multisets of the first 3 near-miss triples.")
TRUSTED_BASE = [
    "Coq 8.16.1 kernel + vm_compute (no native_compute)",
    "hand-written model coq/model/C13_Model.v tied to synkit/Graph/Matcher/{graph_cluster,batch_cluster}.py and "
    "graph_morphism.graph_isomorphism by the per-run correspondence (clusters, rule_to_cluster, classes and the template list after every call)",
    "networkx nx.is_isomorphic(node_match, edge_match) decides label-preserving isomorphism: modelled by the verified enumerator lib/Mono.v "
    "(induced, equal node counts), for which C13_iso_decides_isomorphism / C13_iso_is_equivalence are proved; the generic theorems take the "
    "test as a parameter and assume only that it is an equivalence (monitored: classes compared after every call)",
    "random.sample inside synkit.Utils.utils.stratified_random_sample (seed 1): its choices are an INPUT of the model, pre-computed by the "
    "harness from a reference clustering; the theorems hold for every choice",
    "harness encoders harness/props/C13.py (attribute interning, half-unit bond orders, pool indices)",
]
ASSUMPTIONS = ["items are networkx Graphs (not GML rule strings: the 'mod' backend is not installed)",
               "the pre-grouping attribute is None (attribute_key=None), a str, or a list of ints (an int raises TypeError in GraphCluster)",
               "starting templates are consistent: isomorphic representatives carry the same class",
               "non-empty data lists (iterative_cluster reads rules[0])"]
TESTED_NOT_PROVED = []
LEVEL_TEXT = ("Machine-checked proof (Coq, 18 theorems in coq/props/C13.v, all closed under the global context). Generic part, for every list "
              "of items and every decidable test `iso` that is an equivalence, with an iso-invariant pre-grouping attribute as the code reads "
              "it: GraphCluster.iterative_cluster / fit (visited set, comparison with the first member only, attribute pre-filter) gives every "
              "item exactly one class and two items share a class IFF iso (C13_partition; clusters list = rule_to_cluster, a partition of the "
              "indices: C13_clusters_agree/_partition); the partition and the number of classes do not depend on the list order "
              "(C13_order_independent); BatchCluster.lib_check puts a new item into the class of its isomorphic representative or into the "
              "fresh class max+1 (C13_incremental, C13_incremental_run; fit with templates or several batches is that run: "
              "C13_fit_is_incremental_run); batched fit from no templates writes the class numbers of the one-shot run, and over any "
              "arrival order the same partition (C13_batch_equals_oneshot, C13_batch_any_order); the template list returned by fit is "
              "coherent and represents every processed item, so a later lib_check joins exactly the class of the isomorphic earlier items "
              "or opens a fresh one (C13_fit_templates, C13_fit_then_lib_check). Specific part: the isomorphism test the model evaluates "
              "(equal node counts + verified enumerator Mono.monos, induced, element/charge/order matchers) decides exactly the existence of "
              "a label- and bond-preserving bijection and IS an equivalence on well-formed graphs (C13_iso_decides_isomorphism, "
              "C13_iso_is_equivalence), which yields C13_partition_graphs / C13_batch_any_order_graphs with no premise about the test. "
              "Model and code are compared after every call on every run.")
LEVEL_NOTE = ("Trusted: Coq kernel + vm_compute; the hand-written model and encoders; networkx is_isomorphic returns the verdict of the verified "
              "enumerator (the generic theorems need only that it is an equivalence; monitored: classes compared after every call, oracle uses "
              "an independent brute-force isomorphism). The sampler's random choices are model inputs (theorems hold for every in-range choice). "
              "The attribute-invariance premise is part of the property text (C13_noninvariant_attribute_splits shows it is necessary).")
TECHNIQUE = ("Coq proof: generic first-representative clustering theory + refinement of the structure-following Gallina model of both "
             "clustering loops to it + isomorphism-is-an-equivalence via the verified enumerator; per-run correspondence over call histories "
             "by vm_compute; independent brute-force oracle")

ATTR_KEY = "att"


# ------------------------------------------------------------------ implementation adapter

def _entry(case, idx, graphs):
    d = {"g": graphs[idx], "uid": idx}
    if case["attr_mode"] != "none":
        a = case["items"][idx]["attr"]
        d[ATTR_KEY] = list(a) if isinstance(a, list) else a
    return d


def _akey(case):
    return None if case["attr_mode"] == "none" else ATTR_KEY


def _tobs(templates):
    return [] if templates is None else [[t["uid"], t["class"]] for t in templates]


def _play(case, on_op=None):
    """Run the history on the implementation; returns the list of per-op observables."""
    from synkit.Graph.Matcher.graph_cluster import GraphCluster
    from synkit.Graph.Matcher.batch_cluster import BatchCluster
    graphs = [G.to_nx(it["g"]) for it in case["items"]]
    templates = None
    out = []
    ak = _akey(case)
    for op in case["ops"]:
        k = op[0]
        before = _tobs(templates)
        if k == "gc_iter":
            gc = GraphCluster()
            attrs = None if ak is None else [_entry(case, i, graphs)[ATTR_KEY] for i in op[1]]
            nmf, emf = (gc.nodeMatch, gc.edgeMatch) if op[2] else (None, None)
            clusters, r2c = gc.iterative_cluster([graphs[i] for i in op[1]], attrs, nmf, emf)
            o = [[S(sorted(c)) for c in clusters], S([[a, b] for a, b in r2c.items()])]
            classes = [r2c.get(i) for i in range(len(op[1]))]
        elif k == "gc_fit":
            data = [_entry(case, i, graphs) for i in op[1]]
            res = GraphCluster().fit(data, "g", ak)
            classes = [d["class"] for d in res]
            o = [classes]
        elif k == "templates":
            templates = [dict(_entry(case, i, graphs), **{"class": c}) for i, c in op[1]]
            classes = []
            o = [[]]
        elif k == "reset":
            templates = None
            classes = []
            o = [[]]
        elif k == "lib_check":
            d = _entry(case, op[1], graphs)
            res, templates = BatchCluster().lib_check(d, templates, "g", ak)
            classes = [res["class"]]
            o = [classes]
        elif k == "cluster":
            data = [_entry(case, i, graphs) for i in op[1]]
            res, templates = BatchCluster().cluster(data, templates if templates is not None else [], "g", ak)
            classes = [d["class"] for d in res]
            o = [classes]
        elif k == "fit":
            data = [_entry(case, i, graphs) for i in op[1]]
            st = _random.getstate()
            try:
                res, templates = BatchCluster().fit(data, templates, "g", ak, batch_size=op[2])
            finally:
                _random.setstate(st)
            classes = [d["class"] for d in res]
            assert [d["uid"] for d in res] == list(op[1])
            o = [classes]
        else:
            raise AssertionError(k)
        o.append(_tobs(templates))
        out.append(o)
        if on_op is not None:
            on_op(op, classes, before, _tobs(templates))
    return out


def impl(case):
    return _play(case)


# ------------------------------------------------------------------ model encoder

DEFAULTS = {"element": "*", "charge": 0}


def _order_units(x):
    if x is None:
        return None
    if isinstance(x, (list, tuple)):
        if len(x) < 2:
            raise ValueError("1-tuples are outside the model's domain")
        return [G.half(v) for v in x]
    if isinstance(x, bool) or not isinstance(x, (int, float)):
        raise ValueError("non-numeric order")
    return [G.half(x)]


def _in_domain(case):
    try:
        for it in case["items"]:
            g = it["g"]
            ids = [n for n, _ in g["nodes"]]
            if len(set(ids)) != len(ids) or any(not isinstance(n, int) or isinstance(n, bool) or n < 0 for n in ids):
                return False
            seen = set()
            for u, v, a in g["edges"]:
                if u == v or frozenset((u, v)) in seen:
                    return False
                seen.add(frozenset((u, v)))
                _order_units(a.get("order"))
            for _, a in g["nodes"]:
                for k in ("element", "charge"):
                    x = a.get(k)
                    if x is not None and (isinstance(x, bool) or not isinstance(x, (int, str))):
                        return False
            a = it["attr"]
            if case["attr_mode"] == "str" and not (isinstance(a, str) and all(ord(c) < 128 for c in a)):
                return False
            if case["attr_mode"] == "list" and not (isinstance(a, list) and all(isinstance(x, int) and not isinstance(x, bool) for x in a)):
                return False
        for op in case["ops"]:
            if op[0] in ("gc_iter", "gc_fit", "cluster", "fit") and not op[1]:
                return False
            if op[0] == "fit" and op[2] is not None and op[2] < 1:
                return False
    except ValueError:
        return False
    return True


def _coq_item(idx, it, case, I):
    def na(n, a):
        return clist([copt(None if a.get(k) is None else cN(I(a[k]))) for k in ("element", "charge")])

    def ea(u, v, a):
        o = _order_units(a.get("order"))
        return copt(None if o is None else clist([cZ(x) for x in o]))
    a = it["attr"]
    if case["attr_mode"] == "none":
        att = "[]"
    elif case["attr_mode"] == "str":
        att = clist([cZ(ord(c)) for c in a])
    else:
        att = clist([cZ(x) for x in a])
    return "(MkItem %s %s %s)" % (cN(idx), att, G.coq_lgraph(it["g"], na, ea))


def _coq_op(op):
    k = op[0]
    ix = lambda l: clist([cnat(i) for i in l])
    if k == "gc_iter":
        return "OGcIter %s %s" % (ix(op[1]), cbool(op[2]))
    if k == "gc_fit":
        return "OGcFit %s" % ix(op[1])
    if k == "templates":
        return "OTemplates %s" % clist([cpair(cnat(i), cZ(c)) for i, c in op[1]])
    if k == "reset":
        return "OReset"
    if k == "lib_check":
        return "OLibCheck %s" % cnat(op[1])
    if k == "cluster":
        return "OCluster %s" % ix(op[1])
    if k == "fit":
        return "OFit %s %s %s" % (ix(op[1]), copt(None if op[2] is None else cnat(op[2])), ix(op[3]))
    raise AssertionError(k)


def coq_case(case):
    if not _in_domain(case):
        return None
    vals = list(DEFAULTS.values())
    for it in case["items"]:
        for _, a in it["g"]["nodes"]:
            for k in ("element", "charge"):
                if a.get(k) is not None:
                    vals.append(a[k])
    I = G.Intern(vals)
    mode = {"none": "ANone", "str": "AStr", "list": "AList"}[case["attr_mode"]]
    return "run %s %s %s %s %s" % (cN(I("*")), cN(I(0)), mode,
                                   clist([_coq_item(i, it, case, I) for i, it in enumerate(case["items"])]),
                                   clist([_coq_op(o) for o in case["ops"]]))


# ------------------------------------------------------------------ reference isomorphism (independent, brute force)

def _tab(g):
    lab = {n: (a.get("element", "*"), a.get("charge", 0)) for n, a in g["nodes"]}
    adj = {}
    for u, v, a in g["edges"]:
        o = a.get("order", 1)
        o = tuple(float(x) for x in o) if isinstance(o, (list, tuple)) else float(o)
        adj[(u, v)] = adj[(v, u)] = o
    return lab, adj


def ref_iso(g1, g2, labelled=True):
    """Isomorphism on element, charge and bond order by back-tracking over bijections (no networkx)."""
    (l1, a1), (l2, a2) = _tab(g1), _tab(g2)
    if len(l1) != len(l2) or len(a1) != len(a2):
        return False
    n1 = list(l1)

    def rec(i, m, used):
        if i == len(n1):
            return True
        u = n1[i]
        for v in l2:
            if v in used or (labelled and l1[u] != l2[v]):
                continue
            ok = True
            for x, y in m.items():
                e1, e2 = a1.get((u, x)), a2.get((v, y))
                if (e1 is None) != (e2 is None) or (labelled and e1 is not None and e1 != e2):
                    ok = False
                    break
            if ok:
                m[u] = v
                used.add(v)
                if rec(i + 1, m, used):
                    return True
                del m[u]
                used.discard(v)
        return False
    return rec(0, {}, set())


def ref_partition(case, idxs, labelled=True):
    """Isomorphism classes of the listed pool items as a set of frozensets of POSITIONS."""
    reps, cls = [], []
    for p, i in enumerate(idxs):
        for c, r in enumerate(reps):
            if ref_iso(case["items"][r]["g"], case["items"][i]["g"], labelled):
                cls[c].append(p)
                break
        else:
            reps.append(i)
            cls.append([p])
    return {frozenset(c) for c in cls}


def _partition(classes):
    d = {}
    for p, c in enumerate(classes):
        d.setdefault(c, []).append(p)
    return {frozenset(v) for v in d.values()}


def ref_first_rep_classes(case, idxs):
    """Reference first-representative clustering with the attribute pre-filter (used only to pre-compute the sampler picks)."""
    def key(i):
        a = case["items"][i]["attr"]
        return None if case["attr_mode"] == "none" else (a if isinstance(a, str) else tuple(sorted(a)))
    reps, out = [], []
    for i in idxs:
        for c, r in enumerate(reps):
            if key(r) == key(i) and ref_iso(case["items"][r]["g"], case["items"][i]["g"]):
                out.append(c)
                break
        else:
            reps.append(i)
            out.append(len(reps) - 1)
    return out


def sampler_picks(classes):
    """Positions chosen by stratified_random_sample(seed=1, samples_per_class=1) given the class sizes in first-appearance order."""
    sizes = {}
    for c in classes:
        sizes[c] = sizes.get(c, 0) + 1
    r = _random.Random(1)
    return [r.sample(list(range(n)), 1)[0] for n in sizes.values()]


# ------------------------------------------------------------------ property oracle

def oracle(case):
    fails = []
    inv = case.get("invariant", True)
    items = case["items"]

    def iso(i, j, labelled=True):
        return ref_iso(items[i]["g"], items[j]["g"], labelled)

    state = {"assigned": []}      # (pool idx, class) of everything classified incrementally since the last template reset

    def on_op(op, classes, t_before, t_after):
        k = op[0]
        if k in ("gc_iter", "gc_fit"):
            labelled = op[2] if k == "gc_iter" else True
            if not labelled:
                return        # topology-only matching is outside the property text (correspondence only)
            if None in classes:
                fails.append(dict(clause="partition", detail="%s left an item without a class" % k))
            elif inv and _partition(classes) != ref_partition(case, op[1], labelled):
                fails.append(dict(clause="partition", detail="%s on %r: classes %r are not the isomorphism classes" % (k, op[1], classes)))
            return
        if k in ("templates", "reset"):
            state["assigned"] = [tuple(x) for x in t_after]
            return
        idxs = [op[1]] if k == "lib_check" else list(op[1])
        if None in classes or len(classes) != len(idxs):
            fails.append(dict(clause="incremental", detail="%s left an item without a class" % k))
            return
        if not inv:
            return
        known = list(state["assigned"]) if t_before else []
        rep_classes = {c for _, c in t_before}
        for i, c in zip(idxs, classes):
            same = {c2 for j, c2 in known if iso(j, i)}
            if same:
                if c not in same:
                    fails.append(dict(clause="incremental", detail="%s: item %d got class %r but its isomorphic representative has class %r"
                                      % (k, i, c, sorted(same))))
            else:
                if c in {c2 for _, c2 in known} or c in rep_classes:
                    fails.append(dict(clause="incremental", detail="%s: item %d has no isomorphic representative but was put into the "
                                      "existing class %r" % (k, i, c)))
            known.append((i, c))
        state["assigned"] = known
        # every class in use must be represented among the templates by an isomorphic member (state carried across batches)
        for i, c in zip(idxs, classes):
            if not any(c2 == c and iso(j, i) for j, c2 in t_after):
                fails.append(dict(clause="incremental", detail="%s: class %r of item %d has no isomorphic representative in the "
                                  "returned templates" % (k, c, i)))
                break

    _play(case, on_op)
    if fails:
        return fails[:3]
    # order independence, stated directly: re-run every one-shot call on the reversed and on a rotated list
    from synkit.Graph.Matcher.graph_cluster import GraphCluster
    graphs = [G.to_nx(it["g"]) for it in items]
    ak = _akey(case)
    for op in case["ops"]:
        if op[0] != "gc_fit" or len(op[1]) < 2 or not inv:
            continue
        base = None
        for perm in (list(range(len(op[1]))), list(reversed(range(len(op[1])))), list(range(1, len(op[1]))) + [0]):
            data = [_entry(case, op[1][p], graphs) for p in perm]
            res = GraphCluster().fit(data, "g", ak)
            lab = [None] * len(perm)
            for p, d in zip(perm, res):
                lab[p] = d["class"]
            part = _partition(lab)
            if base is None:
                base = part
            elif part != base:
                fails.append(dict(clause="order-independent", detail="gc_fit on %r: partition changes with the list order" % (op[1],)))
                break
    return fails[:3]


def nontrivial(case, obs):
    idxs = sorted({i for op in case["ops"] if op[0] in ("gc_iter", "gc_fit", "cluster", "fit") for i in op[1]}
                  | {op[1] for op in case["ops"] if op[0] == "lib_check"})
    if len(idxs) < 3:
        return False
    part = ref_partition(case, idxs)
    return len(part) >= 2 and any(len(c) >= 2 for c in part) and any(it.get("src") in ("near", "relabel") for it in case["items"])


def distribution(cases, obss):
    ops, pool, ncls, bs, src, modes = {}, {}, {}, {}, {}, {}
    for c in cases:
        modes[c["attr_mode"] + ("" if c.get("invariant", True) else "/non-invariant")] = modes.get(c["attr_mode"] + ("" if c.get("invariant", True) else "/non-invariant"), 0) + 1
        b = len(c["items"])
        kb = "<=4" if b <= 4 else "5-8" if b <= 8 else "9-14" if b <= 14 else "15+"
        pool[kb] = pool.get(kb, 0) + 1
        for it in c["items"]:
            src[it.get("src", "?")] = src.get(it.get("src", "?"), 0) + 1
        for op in c["ops"]:
            ops[op[0]] = ops.get(op[0], 0) + 1
            if op[0] == "fit":
                bs[str(op[2])] = bs.get(str(op[2]), 0) + 1
    for c, o in zip(cases, obss):
        if isinstance(o, list) and o and o[0] != "EXC":
            for op, ob in zip(c["ops"], o):
                if op[0] in ("gc_fit", "fit", "cluster") and ob and ob[0]:
                    n = len(set(ob[0]))
                    ncls[str(n)] = ncls.get(str(n), 0) + 1
    return dict(op_kinds=ops, pool_sizes=pool, item_sources=src, attr_modes=modes, fit_batch_sizes=dict(sorted(bs.items())),
                classes_per_call=dict(sorted(ncls.items(), key=lambda kv: int(kv[0]))))


# ------------------------------------------------------------------ generators

_CORPUS = None


def _corpus():
    """Reaction centres of the two test pickles as JSON graphs (element, charge; order pairs)."""
    global _CORPUS
    if _CORPUS is None:
        import warnings
        warnings.filterwarnings("ignore")
        from synkit.IO.data_io import load_from_pickle
        out = []
        for e in load_from_pickle("/repo/Data/Testcase/test.pkl.gz"):
            out.append(G.from_nx(e["GraphRules"][2], ("element", "charge"), ("order",)))
        for e in load_from_pickle("/repo/Data/Testcase/graph.pkl.gz"):
            out.append(G.from_nx(e["RC"], ("element", "charge"), ("order",)))
        seen, uniq = set(), []
        for g in out:
            k = repr(g)
            if k not in seen:
                seen.add(k)
                uniq.append(g)
        _CORPUS = uniq
    return _CORPUS


def _copy(g):
    return {"nodes": [[n, dict(a)] for n, a in g["nodes"]], "edges": [[u, v, dict(a)] for u, v, a in g["edges"]]}


def _near_miss(g, rng):
    """One bond order or one charge changed (or, rarely, one element)."""
    h = _copy(g)
    z = rng.random()
    if z < 0.55 and h["edges"]:
        e = rng.choice(h["edges"])
        o = e[2].get("order", 1)
        if isinstance(o, list):
            o = list(o)
            p = rng.randrange(len(o))
            o[p] = 2 if o[p] != 2 else 1
            if o[0] == o[1]:
                o[p] = 3 if o[0] != 3 else 0
            e[2]["order"] = o
        else:
            e[2]["order"] = 2 if o != 2 else 1
    elif z < 0.9:
        n = rng.choice(h["nodes"])
        n[1]["charge"] = 1 if n[1].get("charge", 0) != 1 else 0
    else:
        n = rng.choice(h["nodes"])
        n[1]["element"] = "S" if n[1].get("element") != "S" else "O"
    return h


def _relabelled(g, rng):
    ids = [n for n, _ in g["nodes"]]
    new = rng.sample(range(1, 60), len(ids))
    return G.shuffle_insertion(G.relabel(g, dict(zip(ids, new))), rng)


def _respell(g, rng):
    """The same labelled graph with attributes that equal the matchers' defaults left out at random (charge 0, scalar order 1,
    element "*"): isomorphic to g on element, charge and bond order, but only if a missing label is read as its default."""
    h = _copy(g)
    for _, a in h["nodes"]:
        if a.get("charge") == 0 and rng.random() < 0.5:
            del a["charge"]
        if a.get("element") == "*" and rng.random() < 0.5:
            del a["element"]
    for _, _, a in h["edges"]:
        o = a.get("order")
        if not isinstance(o, (list, tuple)) and o == 1 and rng.random() < 0.5:
            del a["order"]
    return h


def _signature(g):
    """An isomorphism-invariant string (sorted element/charge multiset and sorted order multiset)."""
    ns = sorted("%s%d" % (a.get("element", "*"), a.get("charge", 0)) for _, a in g["nodes"])
    def num(o):
        return "(" + ",".join("%g" % x for x in o) + ")" if isinstance(o, (list, tuple)) else "%g" % o
    es = sorted(num(a.get("order", 1)) for _, _, a in g["edges"])
    return "".join(ns) + "|" + ",".join(es)


def _ring_attr(g):
    return sorted([len(g["nodes"]), len(g["edges"])] + [sum(1 for _, a in g["nodes"] if a.get("element") == "C")])


def _pool(rng, base, size, p_near=0.25, p_rel=0.45):
    """A multiset drawn from a few base graphs with duplicates, relabelled copies and near-misses, in random order."""
    items = []
    for _ in range(size):
        g = rng.choice(base)
        z = rng.random()
        if z < p_near:
            h, src = _near_miss(g, rng), "near"
            if rng.random() < 0.5:
                h = _relabelled(h, rng)
        elif z < p_near + p_rel:
            h, src = _relabelled(g, rng), "relabel"
        else:
            h, src = _copy(g), "dup"
        items.append({"g": h, "src": src})
    rng.shuffle(items)
    return items


def _elem_list(g):
    """Elements in NODE ORDER: isomorphism-invariant only as a multiset (GraphCluster compares sorted(value))."""
    return [sum(ord(c) for c in a.get("element", "*")) for _, a in g["nodes"]]


def _set_attrs(items, mode, invariant, rng):
    unordered = rng.random() < 0.5
    for it in items:
        if mode == "none":
            it["attr"] = None
        elif mode == "str":
            it["attr"] = _signature(it["g"]) if invariant else rng.choice(["a", "b", _signature(it["g"])[:3]])
        else:
            if invariant:
                it["attr"] = _elem_list(it["g"]) if unordered else _ring_attr(it["g"])
            else:
                it["attr"] = [rng.choice([1, 2]), rng.choice([1, 2])]
    return items


def _fit_op(case, idxs, bs, have_templates):
    picks = []
    n_batches = 1 if bs is None else (len(idxs) + bs - 1) // bs
    if n_batches == 1 and not have_templates:
        picks = sampler_picks(ref_first_rep_classes(case, idxs))
    return ["fit", list(idxs), bs, picks]


def _history(rng, case, n):
    """Random history over the pool 0..n-1."""
    idx = list(range(n))
    ops = []
    have = False
    z = rng.random()
    if z < 0.2:
        # one-shot only, several orders
        for _ in range(rng.randint(1, 3)):
            sub = rng.sample(idx, rng.randint(1, n))
            ops.append(["gc_fit", sub] if rng.random() < 0.6 else ["gc_iter", sub, rng.random() < 0.8])
        return ops
    if z < 0.35:
        # explicit consistent starting templates with arbitrary class numbers
        k = rng.randint(1, min(4, n))
        chosen = rng.sample(idx, k)
        nums = rng.sample(range(0, 12), k)
        tl = []
        for i, c in zip(chosen, nums):
            for j, c2 in tl:
                if ref_iso(case["items"][i]["g"], case["items"][j]["g"]) and _same_attr(case, i, j):
                    c = c2
                    break
            tl.append([i, c])
        ops.append(["templates", tl])
        have = True
    order = idx[:]
    rng.shuffle(order)
    pos = 0
    while pos < len(order):
        r = rng.random()
        take = rng.randint(1, max(1, len(order) - pos))
        chunk = order[pos:pos + take]
        if r < 0.25:
            for i in chunk[:3]:
                ops.append(["lib_check", i])
            take = min(take, 3)
        elif r < 0.5:
            ops.append(["cluster", chunk])
        else:
            bs = rng.choice([None, 1, 2, 3, 5, len(chunk), len(chunk) + 1])
            ops.append(_fit_op(case, chunk, bs, have))
        have = True
        pos += take
    if rng.random() < 0.5:
        ops.append(["gc_fit", order])
    return ops


def _same_attr(case, i, j):
    return case["items"][i]["attr"] == case["items"][j]["attr"]


def _batch_vs_oneshot(rng, case, n):
    """The same list one-shot and through fit with every batch size 1..N (C13_batch_equals_oneshot)."""
    order = list(range(n))
    rng.shuffle(order)
    ops = [["gc_fit", order]]
    for bs in [None] + list(range(1, n + 1)):
        ops.append(["reset"])
        ops.append(_fit_op(case, order, bs, False))
    return ops


def _gap_templates(rng, case, n):
    """Starting templates whose class numbers have gaps and whose largest number is NOT on the last template, then everything
    else arrives through cluster / batched fit / lib_check (fresh classes must be max+1, never a number in use)."""
    idx = list(range(n))
    rng.shuffle(idx)
    k = rng.randint(2, min(4, n - 1))
    nums = sorted(rng.sample(range(0, 15), k), reverse=True)
    if k > 2 and rng.random() < 0.5:
        nums[1:] = rng.sample(nums[1:], k - 1)
    tl = []
    for i, c in zip(idx[:k], nums):
        for j, c2 in tl:
            if ref_iso(case["items"][i]["g"], case["items"][j]["g"]) and _same_attr(case, i, j):
                c = c2
                break
        tl.append([i, c])
    rest = idx[k:] + rng.sample(idx[:k], rng.randint(0, k))
    rng.shuffle(rest)
    ops = [["templates", tl]]
    z = rng.random()
    if z < 0.35 or len(rest) < 2:
        ops.append(["cluster", rest])
    elif z < 0.7:
        ops.append(_fit_op(case, rest, rng.choice([1, 2, 3]), True))
    else:
        h = rng.randint(1, len(rest) - 1)
        ops += [["lib_check", i] for i in rest[:h][:3]]
        ops.append(_fit_op(case, rest[h:], rng.choice([None, 2]), True))
    ops.append(["lib_check", rng.choice(idx)])
    return ops


def _empty_templates(rng, case, n):
    """templates=[] (not None) on the one-batch path of fit, then incremental calls on what it returned."""
    order = list(range(n))
    rng.shuffle(order)
    h = rng.randint(1, n)
    ops = [["templates", []], _fit_op(case, order[:h], rng.choice([None, h, h + 2]), False)]
    ops += [["lib_check", i] for i in order[h:][:2]]
    if order[h + 2:]:
        ops.append(["cluster", order[h + 2:]])
    ops += [["templates", []], ["cluster", order]]
    return ops


def gen_cases(tier, rng):
    corpus = _corpus()
    cases = []
    synth = [{"nodes": [[n, {k: v for k, v in a.items() if k in ("element", "charge")}] for n, a in g["nodes"]], "edges": g["edges"]}
             for n_ in (2, 3) for g in G.iso_classes(n_, G.MOL_NODE_LABELS_NOH, G.MOL_EDGE_LABELS)]

    def mk(kind, items, mode, inv, opsf):
        _set_attrs(items, mode, inv, rng)
        c = dict(kind=kind, attr_mode=mode, invariant=inv, items=items, ops=[])
        c["ops"] = opsf(c)
        return c

    # all 6 orders of three near-miss triples (exhaustive tiny scope)
    for t in range(3):
        g = corpus[t * 7 % len(corpus)]
        trip = [{"g": _copy(g), "src": "dup"}, {"g": _relabelled(g, rng), "src": "relabel"}, {"g": _near_miss(g, rng), "src": "near"}]
        for perm in itertools.permutations(range(3)):
            items = [dict(trip[p]) for p in perm]
            cases.append(mk("exh-orders", items, "none", True,
                            lambda c: [["gc_fit", [0, 1, 2]], ["gc_iter", [0, 1, 2], True], _fit_op(c, [0, 1, 2], 1, False), ["reset"],
                                       ["cluster", [0, 1, 2]], ["reset"], _fit_op(c, [0, 1, 2], None, False), ["lib_check", 2]]))
    n_hist, n_b = (1060, 150) if tier == "quick" else (9000, 1200)
    for t in range(n_hist):
        z = rng.random()
        if z < 0.7:
            base = rng.sample(corpus, rng.randint(2, 4))
            kind = "corpus"
        else:
            base = rng.sample(synth, rng.randint(2, 4))
            kind = "synthetic"
        size = rng.randint(3, 12 if tier == "quick" else 16)
        mode = rng.choice(["none", "str", "str", "list"])
        inv = mode == "none" or rng.random() < 0.85
        items = _pool(rng, base, size)
        cases.append(mk(kind + "/history", items, mode, inv, lambda c: _history(rng, c, size)))
    # default-valued labels spelled differently (attribute absent / default written out), wildcard atoms, order-1 bonds
    wild = []
    for g in synth:
        h = _copy(g)
        rng.choice(h["nodes"])[1]["element"] = "*"
        wild.append(h)
    for t in range(140 if tier == "quick" else 1200):
        z = rng.random()
        if z < 0.35:
            base, kind = rng.sample(corpus, rng.randint(2, 3)), "corpus"
        else:
            base, kind = rng.sample(synth + wild, rng.randint(2, 4)), "synthetic"
        size = rng.randint(4, 9)
        mode = rng.choice(["none", "none", "str", "list"])
        items = _pool(rng, base, size)
        for it in items:
            if rng.random() < 0.65:
                it["g"] = _respell(it["g"], rng)
                if it["src"] == "dup":
                    it["src"] = "respell"
        z = rng.random()
        hist = _gap_templates if z < 0.3 else _empty_templates if z < 0.4 else _history
        cases.append(mk(kind + "/respelled", items, mode, True, lambda c: hist(rng, c, size)))
    for t in range(n_b):
        base = rng.sample(corpus, rng.randint(2, 3))
        size = rng.randint(3, 8)
        mode = rng.choice(["none", "str", "list"])
        items = _pool(rng, base, size)
        cases.append(mk("corpus/batch-vs-oneshot", items, mode, True, lambda c: _batch_vs_oneshot(rng, c, size)))
    return cases
