"""C18 — network canonical form is a complete invariant; automorphism data are exact.

case = {"kind": str, "view": "bip" | "sp", "stoich": bool,
        "nets": [net, ...], "rel": ["base", "variant" | "other", ...]}
net  = {"rxns": [[eid | None, rule, [[species, coeff], ...], [[species, coeff], ...]], ...], "iso": [species, ...]}

rel[i] == "variant" declares that nets[i] differs from nets[0] only by renaming species, reordering reactions
(and the species inside a side) or regenerating reaction ids; "other" nets are near misses (e.g. one coefficient
changed) whose relation to nets[0] is decided by the oracle with a brute-force isomorphism test.

Observable per net (implementation = CRNCanonicalizer / CRNAutomorphism on the working tree, model =
coq/model/C18_Model.v): view graph on the keyed attributes, every _refine call (argument, result), canonical
permutation, label string, number of minimal leaves, all minimal leaves in visiting order, orbits, canonical
graph, VF2 automorphism count and orbits.
"""
import itertools

from ..coqrun import cN, cZ, cbool, clist
from ..tok import S

PID = "C18"
COQ_HEADER = ("From Coq Require Import List NArith ZArith.\nFrom SK Require Import lib.Tok model.C18_Model model.C18_AttrModel model.C18_WLModel model.C18_BackendModel model.C18_DepthModel model.C18_RunModel model.C18_AutAttrModel model.C18_SpAttrModel model.C18_SigLogModel.\n"
              "Import ListNotations.\n")
SHARD = 60
IMPL_TIMEOUT = 1500
COQ_TIMEOUT = 1500
RULE = ("reaction networks in both views (bipartite with / without stoichiometry, species graph) together with declared "
        "variants (species renamed, reactions reordered, ids regenerated) and near misses; exhaustive: every network of "
        "<= 2 reactions over the molecularity-<=2 alphabet on 3 species up to species permutation, each with ALL its "
        "species permutations; seeded random <= 6 species x 5 reactions; rings (2..6; plain / shared catalyst / private "
        "catalyst per step / dimer / reversible) and stars of identical reactions with stoichiometry perturbations under "
        "many renamings; 11-reaction networks (two-digit ids); sequences of analyses with different options on ONE "
        "hypergraph object, mutated in between; histories on one object with count-preserving in-place edits (reaction replaced under its id, "
        "coefficient edited, species removed but kept), results scribbled on and analyzers re-read; integer_ids; degenerate values (empty "
        "network, isolated / falsy-labelled species, null steps, empty sides); non-default attribute selections and WL options (bipartite view: "
        "in the model); kept analyzers read again after method edits / edits behind the hypergraph's back (backend state machine in the model); "
        "max_depth of the canonicaliser and max_count of the VF2 tool; chains of 12 / 40 reactions; a case is non-trivial when some view has >= 4 nodes and either a "
        "non-singleton cell survives the first refinement (individualisation needed) or a non-trivial automorphism exists; "
        "distinct = distinct (configuration, list of networks)")
EXHAUSTIVE = {"quick": True, "thorough": True}
EXPLANATION = ("exhaustive sub-space (both tiers): all networks with <= 2 reactions over the 99 reactions with <= 2 molecules per "
               "side on species {A,B,C}, one case per class under species permutation carrying all distinct permuted "
               "copies, in each of the three configurations (bipartite+stoich, bipartite-stoich, species view). "
               "Theorems (props/C18.v) are about the Gallina model and hold for ALL views: canonical graph = view relabelled by a "
               "bijection onto k+1..k+n; identical canonical graph under injective renaming and re-ordering; equal canonical graphs "
               "force isomorphic views; the minimal leaves enumerate the structure-preserving self-maps without repetition. The "
               "model is tied to the code by comparing the view, every _refine argument/result, the canonical permutation and label, "
               "all minimal leaves, orbits, canonical graph, the VF2 count/orbits (reference union-find AND the code's own parent-dict "
               "union-find), the WL cells / estimate and the decidable premises on every case; the views served by kept analyzers in every "
               "history; the answers under max_depth / max_count on the option cases.")
TRUSTED_BASE = [
    "Coq 8.16.1 kernel + vm_compute (no native_compute)",
    "hand-written models coq/model/C18_{Model,AttrModel,SpAttrModel,WLModel,BackendModel,DepthModel,IntIdsModel,UFModel,AutAttrModel,RunModel}.v "
    "tied to synkit/CRN/Topo/{canon,automorphism,wl_canon}.py, synkit/CRN/Hypergraph/backend.py and the two view converters by the per-run "
    "correspondence (view, every _refine and _label call, permutation, label, leaves, orbits, canonical graph, VF2 count / orbits, WL cells, "
    "premises, served views of kept analyzers, answers under the options)",
    "harness encoders harness/props/C18.py (order-preserving interning of node ids: rank in Python string order; kind/role codes; "
    "the classification of a history's edits into method calls (version bumped) and edits of a side object (not bumped))",
    "blake2b digests of WLCanonicalizer do not collide on the compared views (the model ranks signatures instead of hashing them)",
    "networkx DiGraph semantics (add_node/add_edge update, relabel_nodes) and DiGraphMatcher.isomorphisms_iter as an "
    "enumerator of the self-isomorphisms (explicit premise of C18_vf2_count: it returns as many mappings as the model's verified "
    "reference enumerator; compared on every case)",
    "CPython str/tuple ordering",
]
ASSUMPTIONS = ["species labels are disjoint from reaction ids (the views put both in one namespace; the collision is the known finding "
               "C18:view-id-collision, theorem C18_species_renaming_refuted); clause 2 is therefore proved for renamings of the VIEW's nodes; "
               "under integer_ids=True the assumption is not needed (C18_intids_species_renaming)",
               "model: default node_attr_keys=('kind',) and edge_attr_keys=('role','stoich'); integer_ids=True is computed inside the model "
               "(coq/model/C18_IntIdsModel.v; C18_intids_canon, C18_net_renamed_ids); non-default attribute selections "
               "on the bipartite view are modelled in coq/model/C18_AttrModel.v (C18_attr_default: the default selection is the base model; "
               "C18_attr_canon_iso: clause 1 for every selection; C18_attr_invariant_partial / C18_attr_count_lower_partial: the first halves of clauses 2 "
               "and 4; the second halves for non-default selections are judged by the oracle; the VF2 tool under a node selection: C18_vf2_attr_*); WL options are modelled in coq/model/C18_WLModel.v; species-view selections on the aggregates "
               "stoich_r / stoich_p in coq/model/C18_SpAttrModel.v (C18_spattr_*), on the name-dependent sets (via / rules / maps) oracle only",
               "a kept analyzer serves the current network only after edits through the hypergraph's mutating methods (documented; "
               "C18_backend_serves_current / C18_backend_is_dirty_flags / C18_backend_silent_edit_refuted): the oracle judges fresh analyzers only",
               "species view: hypergraph_to_species_graph takes no include_stoich and the default edge_attr_keys (role, stoich) do not exist on its "
               "arcs, so there 'stoichiometry on / off' is one configuration and 'structure-preserving' / 'isomorphic' / 'identical canonical graph' "
               "mean arcs + kinds (C18_species_view_ignores_stoich, C18_species_view_coefficients_invisible; e.g. A>>B, 2B>>A has 2 self-maps); the "
               "coefficients enter only through edge_attr_keys=('stoich_r','stoich_p') (C18_spattr_* theorems; second halves of clauses 2-4: oracle)",
               "views above 45 nodes are judged by the oracle only (the model's refinement is O(n^4) under vm_compute)",
               "stoichiometric coefficients are positive integers",
               "the property's clauses are judged without max_depth / timeout / max_count (with them: correspondence + C18_max_depth_* / "
               "C18_vf2_bookkeeping); timeouts are never given"]
TESTED_NOT_PROVED = ["WLCanonicalizer: its canonical graph (a relabelling by digest order) is isomorphic to the view (oracle only; that its colour "
                     "cells never split a true orbit is proved for the model: C18_wl_never_splits_orbit)",
                     "VF2 enumerates exactly the self-isomorphisms (premise of C18_vf2_count, compared per case)",
                     "graph()/orbits()/has_nontrivial_automorphism()/canonical()/iter()/detect_automorphisms()/wl_canonical() agree with summary() "
                     "(oracle; with max_depth / max_count also in the correspondence)",
                     "second halves of clauses 2-4 for attribute selections OUTSIDE the domain of the round-6 theorems: 'label' selected, neither kind "
                     "nor bipartite selected, or a view with self-loops such as a species view with catalysts (oracle: brute-force self-maps on the "
                     "selected attributes)"]

KIND = {"reaction": 0, "species": 1}
ROLE = {None: -1, "product": 0, "reactant": 1}


# ------------------------------------------------------------------ shared helpers

_SAT = [False]


def _saturate():
    """Put the interpreter into the allocator state of any long-running session: CPython keeps per-length free lists
    of small tuples (2000 entries each); every tuple(<generator>) is allocated with 10 slots and shrunk, so it drains the
    length-10 list and feeds the list of its final length.  After a few hundred canonicalisations the small lists are
    full and a freed small tuple goes back to the allocator, where the next one of the same size class reuses the
    address.  The harness reaches that state deterministically before the first case instead of somewhere mid-run."""
    if _SAT[0]:
        return
    for m in range(1, 20):
        for _ in range(9000):
            tuple(i for i in range(m))
    _SAT[0] = True


def worker_init():
    import logging
    logging.disable(logging.CRITICAL)
    _saturate()


def _build(net):
    from synkit.CRN.Hypergraph.hypergraph import CRNHyperGraph
    H = CRNHyperGraph()
    for eid, rule, l, r in net["rxns"]:
        H.add_rxn([tuple(x) for x in l], [tuple(x) for x in r], rule=rule, edge_id=eid)
    for k, s in enumerate(net.get("iso", [])):
        if s not in H.species:
            H.add_rxn([(s, 1)], [], rule="zz_tmp", edge_id="zz_tmp_%d" % k)
            H.remove_species(s, prune_orphans=False)
    return H


def _table(H):
    """order-preserving interning of the names of a network: name -> N = rank of the name in the namespace shared by species
    labels and reaction ids"""
    names = sorted(set(H.species) | set(H.edges.keys()))
    return {n: i for i, n in enumerate(names)}


def _node_rank(H, view, intids):
    """view node id -> N.  integer_ids=True (bipartite view): the ids are the converter's numbers 1..N+M, which the model
    computes itself (coq/model/C18_IntIdsModel.v) from the network under the default table"""
    if intids and view == "bip":
        return {i + 1: i + 1 for i in range(len(H.species) + len(H.edges))}
    return _table(H)


def _keyed_graph(G, rank=None):
    f = (lambda x: rank[x]) if rank is not None else (lambda x: x)
    nodes = sorted([f(n), KIND[d.get("kind")]] for n, d in G.nodes(data=True))
    arcs = sorted([f(u), f(v), ROLE[d.get("role")], (-1 if d.get("stoich") is None else int(d["stoich"]))]
                  for u, v, d in G.edges(data=True))
    return nodes, arcs


# ------------------------------------------------------------------ implementation adapter

def _premises(G):
    """premises of the theorems, checked on the implementation's view (the model evaluates wfb/kinds_okb/arcs_okb on its own):
    a simple DiGraph whose kinds are reaction / species, roles None / product / reactant, stoich None or a non-negative integer"""
    import networkx as nx
    ok = isinstance(G, nx.DiGraph) and not G.is_multigraph()
    ok = ok and all(d.get("kind") in KIND for _, d in G.nodes(data=True))
    for _, _, d in G.edges(data=True):
        st = d.get("stoich")
        ok = ok and d.get("role") in ROLE and (st is None or (float(st) == int(st) and int(st) >= 0))
    return bool(ok)


def _wl_obs(H, rank, inc, stoich, kw, keep=None):
    """WL colour cells and the automorphism estimate (the WL canonical relabelling depends on digest values: oracle only)"""
    from synkit.CRN.Topo.wl_canon import WLCanonicalizer
    WW = WLCanonicalizer(H, include_rule=inc, include_stoich=stoich, **kw)
    W = WW.summary()
    if keep is not None:
        keep["W"] = WW
        # WLCanonicalizer caches its last result under a key that starts with id(G); the backend replaces G after an edit, so the
        # address of a freed view could be handed to a later one (never observed, see notes/C18.md).  Keeping every view the kept
        # WL analyzer has worked on alive makes the re-reads below independent of the allocator.
        keep.setdefault("W_graphs", []).append(WW.G)
    return [S([S(sorted(rank[v] for v in o)) for o in W["orbits"]]), W["automorphism_count"]]


def _impl_net(net, view, stoich, intids=False):
    return _impl_H(_build(net), view, stoich, intids)


def _impl_H(H, view, stoich, intids=False, keep=None):
    from synkit.CRN.Topo.canon import CRNCanonicalizer
    from synkit.CRN.Topo.automorphism import CRNAutomorphism
    rank = _node_rank(H, view, intids)
    inc = view == "bip"
    C = CRNCanonicalizer(H, include_rule=inc, include_stoich=stoich, integer_ids=intids)
    G = C.G
    log = []
    orig = C._refine

    def wrapped(G_, part):
        out = orig(G_, part)
        log.append([[[rank[v] for v in c] for c in part], [[rank[v] for v in c] for c in out]])
        return out

    labs = []
    orig_label = C._label

    def wrapped_label(G_, perm):
        lab = orig_label(G_, perm)
        labs.append([[rank[v] for v in perm], lab])
        return lab

    C._refine = wrapped
    C._label = wrapped_label
    s = C.summary()
    C._refine = orig          # the analyzer may be kept and read again later (on another network): log the first analysis only
    C._label = orig_label
    nodes, arcs = _keyed_graph(G, rank)
    cn, ca = _keyed_graph(s["canon_graph"])
    AA = CRNAutomorphism(H, include_rule=inc, include_stoich=stoich, integer_ids=intids)
    A = AA.summary(max_count=10 ** 9, timeout_sec=None)
    if keep is not None:
        keep.update(C=C, A=AA, s=s, a=A)
    return [S(nodes), S(arcs), [list(x) for x in log],
            [rank[v] for v in s["canonical_perm"]],
            C._label(G, s["canonical_perm"]),
            s["automorphism_count"],
            [[rank[v] for v in p] for p in s["sample_permutations"]],
            S([S(sorted(rank[v] for v in o)) for o in s["orbits"]]),
            S(cn), S(ca),
            A["automorphism_count"],
            S([S(sorted(rank[v] for v in o)) for o in A["orbits"]]),
            _premises(G),
            [S([[rank[k], rank[v]] for k, v in m.items()]) for m in s["mappings"]]] + _wl_obs(H, rank, inc, stoich, dict(integer_ids=intids), keep) + \
        [S([S(sorted(rank[v] for v in o)) for o in A["orbits"]]),      # compared with the structure-following union-find (C18_UFModel.v)
         labs if len(labs) <= MAX_LEAVES_LOGGED else []]                 # every _label call of the search: (leaf permutation, label)


def _add_extra(H, net0, net1):
    """mutate H (built from net0) into net1 = net0 + further reactions, the way _build would have added them"""
    for eid, rule, l, r in net1["rxns"][len(net0["rxns"]):]:
        H.add_rxn([tuple(x) for x in l], [tuple(x) for x in r], rule=rule, edge_id=eid)


def _touch(H, view, stoich, intids):
    """an analysis whose answer is not part of the observable (integer_ids=True is outside the model): run it anyway,
    it exercises whatever state the hypergraph object or the module keeps between analyses"""
    from synkit.CRN.Topo.canon import CRNCanonicalizer
    from synkit.CRN.Topo.automorphism import CRNAutomorphism
    inc = view == "bip"
    CRNCanonicalizer(H, include_rule=inc, include_stoich=stoich, integer_ids=intids).summary()
    CRNAutomorphism(H, include_rule=inc, include_stoich=stoich, integer_ids=intids).summary(max_count=10 ** 9, timeout_sec=None)


def _impl_seq(case):
    """ONE hypergraph object analysed by a sequence of (view, stoich, integer_ids) configurations, then mutated
    (reactions added) and analysed again; the model evaluates every step from scratch"""
    net0 = case["nets"][0]
    H = _build(net0)
    out = []
    for k, net in enumerate(case["nets"]):
        if k > 0:
            _add_extra(H, case["nets"][k - 1], net)
        for view, st, intids in case["steps"]:
            out.append(_impl_H(H, view, st, intids))
    return out


def _apply_op(net, op):
    """the network value after an in-place edit of the hypergraph (pure mirror of CRNHyperGraph.remove_rxn / add_rxn /
    remove_species(prune_orphans=False) / RXNSide.__setitem__); reactions carry explicit ids"""
    rx = [[e, ru, [list(x) for x in l], [list(x) for x in r]] for e, ru, l, r in net["rxns"]]
    iso = list(net.get("iso", []))
    kind = op[0]
    if kind == "replace":
        _, eid, rule, l, r = op
        rx = [x for x in rx if x[0] != eid] + [[eid, rule, [list(x) for x in l], [list(x) for x in r]]]
    elif kind == "add":
        _, eid, rule, l, r = op
        rx = rx + [[eid, rule, [list(x) for x in l], [list(x) for x in r]]]
    elif kind == "coeff":
        _, eid, side, sp, c = op
        for x in rx:
            if x[0] == eid:
                x[2 + side] = [[a, (c if a == sp else b)] for a, b in x[2 + side]]
    elif kind == "rmsp":
        sp = op[1]
        for x in rx:
            x[2] = [y for y in x[2] if y[0] != sp]
            x[3] = [y for y in x[3] if y[0] != sp]
        rx = [x for x in rx if x[2] or x[3]]
        if sp not in iso:
            iso.append(sp)
    present = {a for x in rx for a, _ in x[2] + x[3]}
    iso = [a for a in iso if a not in present]
    return dict(rxns=rx, iso=iso)


def _do_op(H, op):
    kind = op[0]
    if kind == "replace":
        _, eid, rule, l, r = op
        H.remove_rxn(eid)
        H.add_rxn([tuple(x) for x in l], [tuple(x) for x in r], rule=rule, edge_id=eid)
    elif kind == "add":
        _, eid, rule, l, r = op
        H.add_rxn([tuple(x) for x in l], [tuple(x) for x in r], rule=rule, edge_id=eid)
    elif kind == "coeff":
        _, eid, side, sp, c = op
        e = H.edges[eid]
        (e.reactants if side == 0 else e.products)[sp] = c
    elif kind == "rmsp":
        H.remove_species(op[1], prune_orphans=False)


def _scribble(keep):
    """the caller edits everything an earlier analysis handed out: the view, the canonical graph, orbit sets, permutation lists"""
    if not keep:
        return
    for G in (keep["C"].G, keep["A"].G, keep["s"]["canon_graph"]):
        try:
            G.add_node("zz_scribble", kind="species")
            for u, v, d in list(G.edges(data=True)):
                d["stoich"] = 7
                d["role"] = "product"
            G.remove_nodes_from(list(G.nodes)[:1])
        except Exception:
            pass
    for o in list(keep["s"]["orbits"]) + list(keep["a"]["orbits"]):
        try:
            o.add("zz_scribble")
        except Exception:
            pass
    for p in keep["s"]["sample_permutations"]:
        p.reverse()
    keep["s"]["canonical_perm"].reverse()


def _scribble_results(keep):
    """the caller edits the RESULTS an earlier analysis returned (not the analyzer's view)"""
    G = keep["s"]["canon_graph"]
    G.add_node("zz_scribble", kind="species")
    for u, v, d in list(G.edges(data=True)):
        d["stoich"] = 7
    for o in list(keep["s"]["orbits"]) + list(keep["a"]["orbits"]):
        o.add("zz_scribble")
    for p in keep["s"]["sample_permutations"]:
        p.reverse()
    for m in keep["s"]["mappings"] + keep["a"].get("sample_mappings", []):
        m.clear()


def _run_history(case, analyse, reread=None, on_read=None):
    """ONE hypergraph object; ops = analyses (each on fresh analyzers), in-place edits of the hypergraph, edits of earlier
    results by the caller, repeated reads of an earlier analyzer.  analyse(H, net_value, view, st, intids, keep) is called for
    every analysis; returns the list of its results.  on_read(keep) is called at every read of the kept analyzers that the
    backend state machine of the model tracks (_hist_plan)"""
    net = case["nets"][0]
    H = _build(net)
    keep = {}
    out = []
    plan = _hist_plan(case)[2] if on_read is not None else None
    for k_op, op in enumerate(case["ops"]):
        if k_op > 0 and plan is not None and plan[k_op - 1]:
            on_read(keep)
        if op[0] == "an":
            keep = {}
            out.append(analyse(H, net, op[1], op[2], op[3], keep))
        elif op[0] == "scribble":
            _scribble(keep)
        elif op[0] == "reread":
            if keep and reread is not None:
                reread(keep)
            elif keep:
                _scribble_results(keep)
                keep["C"].summary()
                keep["A"].summary(max_count=10 ** 9, timeout_sec=None)
        elif op[0] == "reuse":
            if keep:
                keep["C"].summary()
                keep["C"].orbits()
                keep["A"].summary(max_count=10 ** 9, timeout_sec=None)
        else:
            _do_op(H, op)
            net = _apply_op(net, op)
    if plan is not None and plan and plan[-1]:
        on_read(keep)
    return out


def _hist_plan(case):
    """the script of a history as the backend state machine of coq/model/C18_BackendModel.v sees it: every analysis creates
    analyzers (SNew) and reads them (SRead); `reuse` / `reread` read the kept analyzers again; replace / add / rmsp are calls of
    mutating methods (EMethod: the version is bumped), coeff edits a side object behind the hypergraph's back (ESilent).
    Reads are tracked while the kept analyzers are modelled (integer_ids=False) and the caller has not scribbled on their view.
    Returns (rank table over ALL names of the history, Gallina steps, per op: a tracked read happens after it)"""
    nets = [case["nets"][0]]
    for op in case["ops"]:
        if op[0] not in ("an", "scribble", "reuse", "reread"):
            nets.append(_apply_op(nets[-1], op))
    names = set()
    for n in nets:
        H = _build(n)
        names |= set(H.species) | set(H.edges.keys())
    rank = {n: i for i, n in enumerate(sorted(names))}
    steps, plan = [], []
    tracked, dirty, nnew = False, False, 0
    net = nets[0]
    for op in case["ops"]:
        read = False
        if op[0] == "an":
            tracked, dirty = (not op[3]), False
            if tracked:
                steps.append("SNew %s %s" % (cbool(op[1] == "bip"), cbool(op[2])))
                nnew += 1
                steps.append("SRead %d" % (nnew - 1))
                read = True
        elif op[0] == "scribble":
            dirty = True
        elif op[0] in ("reuse", "reread"):
            if tracked and not dirty:
                steps.append("SRead %d" % (nnew - 1))
                read = True
        else:
            net = _apply_op(net, op)
            if op[0] == "coeff":
                steps.append("SEdit (ESilent %s)" % _coq_net(net, rank=rank))
            else:
                steps.append("SEdit (EMethod %s 0%%N)" % _coq_net(net, rank=rank))
        plan.append(read)
    return rank, steps, plan


def _read_obs(keep, rank):
    """what the kept analyzers serve now: the canonicaliser's view, count, orbits, canonical graph; the VF2 tool's count and orbits;
    the WL cells and estimate.  The three analyzers share one backend class: their views must agree"""
    C, A, W = keep["C"], keep["A"], keep["W"]
    s = C.summary()
    a = A.summary(max_count=10 ** 9, timeout_sec=None)
    w = W.summary()
    keep.setdefault("W_graphs", []).append(W.G)
    nodes, arcs = _keyed_graph(C.G, rank)
    cn, ca = _keyed_graph(s["canon_graph"])
    out = [S(nodes), S(arcs), s["automorphism_count"], S([S(sorted(rank[v] for v in o)) for o in s["orbits"]]), S(cn), S(ca),
           a["automorphism_count"], S([S(sorted(rank[v] for v in o)) for o in a["orbits"]]),
           S([S(sorted(rank[v] for v in o)) for o in w["orbits"]]), w["automorphism_count"]]
    if _keyed_graph(A.G, rank) != (nodes, arcs) or _keyed_graph(W.G, rank) != (nodes, arcs):
        out.append("the analyzers of one analysis serve different views")
    return out


def _history_nets(case):
    """(network value, view, stoich, intids) of every analysis of a history"""
    net = case["nets"][0]
    out = []
    for op in case["ops"]:
        if op[0] == "an":
            out.append((net, op[1], op[2], op[3]))
        elif op[0] not in ("scribble", "reuse", "reread"):
            net = _apply_op(net, op)
    return out


NSEL = {"kind": "NKind", "bipartite": "NBip", "label": "NLabel"}
ESEL = {"role": "ERole", "stoich": "EStoich"}
_NODE_KEYS = {"kind", "bipartite", "label"}          # attributes the bipartite converter puts on every node
_EDGE_KEYS = {"role", "stoich"}


_SP_EDGE_SETS = {"via", "rules", "stoich_r_map", "stoich_p_map"}      # name-dependent sets / maps on the species view's arcs: not modelled
NSEL_SP = {"kind": "NKind", "label": "NLabel"}                          # the species view has no 'bipartite' attribute
ESEL_SP = {"stoich_r": "SR", "stoich_p": "SP"}


def _attr_modelled(case):
    """attribute selections on the bipartite view are in the model (coq/model/C18_AttrModel.v); on the species view
    (coq/model/C18_SpAttrModel.v) the aggregates stoich_r / stoich_p and absent keys are, the name-dependent sets (via / rules /
    per-reaction maps) are not"""
    at = case.get("attrs")
    if not at or case.get("intids"):
        return False
    if case["view"] == "bip":
        return True
    return not (set(at.get("ek", ("role", "stoich"))) & _SP_EDGE_SETS) and "mol" not in at.get("nk", ())


def _keyed_graph_sp(G, rank=None):
    f = (lambda x: rank[x]) if rank is not None else (lambda x: x)
    nodes = sorted([f(n), KIND[d.get("kind")]] for n, d in G.nodes(data=True))
    arcs = sorted([f(u), f(v), int(d["stoich_r"]), int(d["stoich_p"])] for u, v, d in G.edges(data=True))
    return nodes, arcs


def _impl_spattr_net(net, nk, ek):
    from synkit.CRN.Topo.canon import CRNCanonicalizer
    H = _build(net)
    rank = _table(H)
    C = CRNCanonicalizer(H, include_rule=False, node_attr_keys=list(nk), edge_attr_keys=list(ek))
    G = C.G
    log = []
    orig = C._refine

    def wrapped(G_, part):
        out = orig(G_, part)
        log.append([[[rank[v] for v in c] for c in part], [[rank[v] for v in c] for c in out]])
        return out

    C._refine = wrapped
    s = C.summary()
    nodes, arcs = _keyed_graph_sp(G, rank)
    cn, ca = _keyed_graph_sp(s["canon_graph"])
    return [S(nodes), S(arcs), [list(x) for x in log], [rank[v] for v in s["canonical_perm"]], C._label(G, s["canonical_perm"]),
            s["automorphism_count"], [[rank[v] for v in p] for p in s["sample_permutations"]],
            S([S(sorted(rank[v] for v in o)) for o in s["orbits"]]), S(cn), S(ca)]


def _impl_attr_net(net, st, nk, ek, wl=None):
    from synkit.CRN.Topo.canon import CRNCanonicalizer
    H = _build(net)
    rank = _table(H)
    C = CRNCanonicalizer(H, include_rule=True, include_stoich=st, node_attr_keys=list(nk), edge_attr_keys=list(ek))
    G = C.G
    log = []
    orig = C._refine

    def wrapped(G_, part):
        out = orig(G_, part)
        log.append([[[rank[v] for v in c] for c in part], [[rank[v] for v in c] for c in out]])
        return out

    C._refine = wrapped
    s = C.summary()
    nodes, arcs = _keyed_graph(G, rank)
    cn, ca = _keyed_graph(s["canon_graph"])
    return [S(nodes), S(arcs), [list(x) for x in log], [rank[v] for v in s["canonical_perm"]], C._label(G, s["canonical_perm"]),
            s["automorphism_count"], [[rank[v] for v in p] for p in s["sample_permutations"]],
            S([S(sorted(rank[v] for v in o)) for o in s["orbits"]]), S(cn), S(ca)] + \
        _wl_obs(H, rank, True, st, dict(node_attr_keys=list(nk), edge_attr_keys=list(ek), **(wl or {}))) + _vf2_attr_obs(H, rank, st, nk)


def _vf2_attr_obs(H, rank, st, nk):
    """the VF2 tool under the node selection (its edge match is always role / stoich)"""
    from synkit.CRN.Topo.automorphism import CRNAutomorphism
    A = CRNAutomorphism(H, include_rule=True, include_stoich=st, node_attr_keys=list(nk)).summary(max_count=10 ** 9, timeout_sec=None)
    return [A["automorphism_count"], S([S(sorted(rank[v] for v in o)) for o in A["orbits"]])]


def _coq_ltab(net, view="bip"):
    """node -> (rank of its 'label' string among the label strings of the view, the string): species are labelled with their
    name, reaction nodes (bipartite view) with the rule name"""
    H = _build(net)
    rank = _table(H)
    lab = {s: s for s in H.species}
    for eid, e in (H.edges.items() if view == "bip" else ()):
        lab[eid] = e.rule                  # on an id collision the reaction node overwrites the species node, as in the view
    order = {x: i for i, x in enumerate(sorted(set(lab.values())))}
    ent = ["(%s, (%s, %s))" % (cN(rank[n]), cZ(order[x]), clist([cN(ord(ch)) for ch in x])) for n, x in sorted(lab.items(), key=lambda kv: rank[kv[0]])]
    return clist(ent)


def _impl_attrs(case):
    """non-default attribute selections: bipartite view in the model; species view / WL options informative only"""
    from synkit.CRN.Topo.canon import CRNCanonicalizer
    at = case["attrs"]
    if _attr_modelled(case) and case["view"] == "sp":
        return [_impl_spattr_net(n, at.get("nk", ("kind",)), at.get("ek", ("role", "stoich"))) for n in case["nets"]]
    if _attr_modelled(case):
        return [_impl_attr_net(n, case["stoich"], at.get("nk", ("kind",)), at.get("ek", ("role", "stoich")), at.get("wl")) for n in case["nets"]]
    out = []
    for net in case["nets"]:
        C = CRNCanonicalizer(_build(net), include_rule=case["view"] == "bip", include_stoich=case["stoich"],
                             node_attr_keys=list(at.get("nk", ("kind",))), edge_attr_keys=list(at.get("ek", ("role", "stoich"))))
        out.append(C.summary()["automorphism_count"])
    return out


def impl(case):
    _saturate()
    if case.get("attrs"):
        return _impl_attrs(case)
    if case.get("ops"):
        rank = _hist_plan(case)[0]
        reads = []
        out = _run_history(case, lambda H, net, view, st, intids, keep: _impl_H(H, view, st, intids, keep),
                           on_read=lambda keep: reads.append(_read_obs(keep, rank)))
        return out + [reads]
    if case.get("steps"):
        return _impl_seq(case)
    if case.get("mds"):
        return _impl_depth(case)
    if case.get("ks"):
        return _impl_vf2opts(case)
    if case.get("siglog"):
        return _impl_siglog(case)
    return [_impl_net(n, case["view"], case["stoich"], case.get("intids", False)) for n in case["nets"]]


def _impl_siglog(case):
    """EVERY call of CRNCanonicalizer._sig of a canonicalisation, in call order: (node, partition, the signature tuple flattened:
    kind, in-degree, out-degree, neighbour count per cell, sorted out-edge (role, stoich) pairs)"""
    from synkit.CRN.Topo.canon import CRNCanonicalizer
    inc, st = case["view"] == "bip", case["stoich"]
    out = []
    for net in case["nets"]:
        H = _build(net)
        rank = _table(H)
        C = CRNCanonicalizer(H, include_rule=inc, include_stoich=st)
        log = []
        orig = C._sig

        def wrapped(G_, v, part, orig=orig, log=log, rank=rank):
            sg = orig(G_, v, part)
            node_attrs, degree, counts, edge_mult = sg
            flat = [KIND[node_attrs[0]], degree[0], degree[1]] + list(counts) + \
                   [x for (r, q) in edge_mult for x in (ROLE[r], -1 if q is None else int(q))]
            log.append([rank[v], [[rank[w] for w in c] for c in part], flat])
            return sg

        C._sig = wrapped
        C.summary()
        out.append(log)
    return out


def _impl_depth(case):
    """summary(max_depth=d) for every d of the case: [] when _canon raises (no leaf within the depth), else early_stop, permutation,
    label, count, minimal leaves, orbits, canonical graph"""
    from synkit.CRN.Topo.canon import CRNCanonicalizer, canonical
    inc, st = case["view"] == "bip", case["stoich"]
    out = []
    for net in case["nets"]:
        H = _build(net)
        rank = _table(H)
        per = []
        for md in case["mds"]:
            C = CRNCanonicalizer(H, include_rule=inc, include_stoich=st)
            try:
                s = C.summary(max_depth=md)
            except RuntimeError:
                per.append([])
                continue
            cn, ca = _keyed_graph(s["canon_graph"])
            # the thin wrappers forward max_depth: graph(), orbits(), has_nontrivial_automorphism(), canonical()
            C2 = CRNCanonicalizer(H, include_rule=inc, include_stoich=st)
            gn, ga = _keyed_graph(C2.graph(max_depth=md))
            gn3, ga3 = _keyed_graph(canonical(H, include_rule=inc, include_stoich=st, max_depth=md).graph(max_depth=md))
            per.append([bool(s["early_stop"]), [rank[v] for v in s["canonical_perm"]], C._label(C.G, s["canonical_perm"]),
                        s["automorphism_count"], [[rank[v] for v in p] for p in s["sample_permutations"]],
                        S([S(sorted(rank[v] for v in o)) for o in s["orbits"]]), S(cn), S(ca),
                        S(gn), S(ga), S([S(sorted(rank[v] for v in o)) for o in C2.orbits(max_depth=md)]),
                        bool(C2.has_nontrivial_automorphism(max_depth=md)), S(gn3), S(ga3)])
        out.append(per)
    return out


def _impl_vf2opts(case):
    """CRNAutomorphism.summary(max_count=k): orbits of the complete run; per k the bookkeeping (automorphism_count, stopped_early,
    number of sample mappings, mapping_count_used).  Which mappings a truncated run has seen depends on VF2's order: not compared"""
    from synkit.CRN.Topo.automorphism import CRNAutomorphism, detect_automorphisms
    inc, st, ii = case["view"] == "bip", case["stoich"], bool(case.get("intids", False))
    out = []
    for net in case["nets"]:
        H = _build(net)
        rank = _node_rank(H, case["view"], ii)
        full = CRNAutomorphism(H, include_rule=inc, include_stoich=st, integer_ids=ii).summary(max_count=10 ** 9, timeout_sec=None)
        per = []
        for k in case["ks"]:
            a = CRNAutomorphism(H, include_rule=inc, include_stoich=st, integer_ids=ii).summary(max_count=k, timeout_sec=None)
            n_iter = len(list(CRNAutomorphism(H, include_rule=inc, include_stoich=st, integer_ids=ii).iter(max_count=k, timeout_sec=None)))
            d = detect_automorphisms(H, include_rule=inc, include_stoich=st, integer_ids=ii, max_count=k, timeout_sec=None)
            per.append([a["automorphism_count"], bool(a["stopped_early"]), len(a["sample_mappings"]), a["mapping_count_used"],
                        n_iter, d["automorphism_count"], bool(d["stopped_early"])])
        a = CRNAutomorphism(H, include_rule=inc, include_stoich=st, integer_ids=ii).summary(timeout_sec=None)           # default max_count
        d = detect_automorphisms(H, include_rule=inc, include_stoich=st, integer_ids=ii, timeout_sec=None)               # default max_count
        out.append([S([S(sorted(rank[v] for v in o)) for o in full["orbits"]]), per,
                    [a["automorphism_count"], bool(a["stopped_early"]), len(a["sample_mappings"]), a["mapping_count_used"]],
                    [d["automorphism_count"], bool(d["stopped_early"])]])
    return out


# ------------------------------------------------------------------ model encoder

def _coq_net(net, rank=None):
    H = _build(net)
    rank = _table(H) if rank is None else rank
    sp = clist([cN(rank[s]) for s in sorted(H.species)])
    rx = []
    for eid, e in H.edges.items():
        l = clist(["(%s, %s)" % (cN(rank[s]), cZ(int(c))) for s, c in e.reactants.items()])
        r = clist(["(%s, %s)" % (cN(rank[s]), cZ(int(c))) for s, c in e.products.items()])
        rx.append("Rxn %s %s %s" % (cN(rank[eid]), l, r))
    return "(Net %s %s)" % (sp, clist(rx))


MAX_LEAVES_LOGGED = 60       # the (leaf, label) log of a search is part of the observable up to this many leaves (same rule in C18_RunModel.v)
MODEL_MAX_NODES = 45         # the Gallina model is evaluated by vm_compute; its refinement is O(n^4): larger views are judged by the oracle only


def coq_case(case):
    if case.get("attrs"):
        if not _attr_modelled(case):
            return None      # species-view attribute selections: outside the model, oracle only
        at = case["attrs"]
        if case["view"] == "sp":
            nk = clist([NSEL_SP.get(k, "NNone") for k in at.get("nk", ("kind",))])
            ek = clist([ESEL_SP.get(k, "SNone") for k in at.get("ek", ("role", "stoich"))])
            nets = clist(["(%s, %s)" % (_coq_net(n), _coq_ltab(n, "sp")) for n in case["nets"]])
            return "run_spattr_case %s %s %s" % (nets, nk, ek)
        nk = clist([NSEL.get(k, "NNone") for k in at.get("nk", ("kind",))])
        ek = clist([ESEL.get(k, "ENone") for k in at.get("ek", ("role", "stoich"))])
        nets = clist(["(%s, %s)" % (_coq_net(n), _coq_ltab(n)) for n in case["nets"]])
        wl = at.get("wl", {})
        return "run_attr_all_case %s %s %s %s %s %s %s %s %s" % (
            cbool(case["stoich"]), nets, nk, ek, cbool(wl.get("include_in_neighbors", True)), cbool(wl.get("include_out_neighbors", True)),
            "%d%%nat" % wl.get("n_iter", 20), cbool(wl.get("estimate_automorphisms", True)), cN(wl.get("automorphism_cap", 10 ** 18)))
    if case.get("nomodel"):
        return None          # very large automorphism groups: budgeted out of the Coq side
    if any(len({s for _, _, l, r in n["rxns"] for s, _ in l + r} | set(n.get("iso", []))) + len(n["rxns"]) > MODEL_MAX_NODES for n in case["nets"]):
        return None
    if case.get("ops"):
        terms = ["run_net_full %s %s %s %s" % (cbool(view == "bip"), cbool(st), cbool(intids), _coq_net(net))
                 for net, view, st, intids in _history_nets(case)]
        rank, steps, _ = _hist_plan(case)
        terms.append("run_history %s %s" % (_coq_net(case["nets"][0], rank=rank), clist(steps)))
        return "L %s" % clist(terms)
    if case.get("steps"):
        terms = ["run_net_full %s %s %s %s" % (cbool(view == "bip"), cbool(st), cbool(intids), _coq_net(net))
                 for net in case["nets"] for view, st, intids in case["steps"]]
        return "L %s" % clist(terms)
    ii = bool(case.get("intids", False))
    if case.get("mds"):
        mds = clist(["None" if d is None else "(Some %d%%nat)" % d for d in case["mds"]])
        return "L %s" % clist(["run_md_case %s %s %s %s" % (cbool(case["view"] == "bip"), cbool(case["stoich"]), _coq_net(n), mds) for n in case["nets"]])
    if case.get("siglog"):
        return "run_siglog_case %s %s %s" % (cbool(case["view"] == "bip"), cbool(case["stoich"]), clist([_coq_net(n) for n in case["nets"]]))
    if case.get("ks"):
        ks = clist([cZ(k) for k in case["ks"]])
        return "L %s" % clist(["run_vf2opts %s %s %s %s %s" % (cbool(case["view"] == "bip"), cbool(case["stoich"]), cbool(ii), _coq_net(n), ks)
                               for n in case["nets"]])
    return "run_case_full %s %s %s %s" % (cbool(case["view"] == "bip"), cbool(case["stoich"]), cbool(ii),
                                       clist([_coq_net(n) for n in case["nets"]]))


# ------------------------------------------------------------------ property oracle (independent reference)

def _isos(G1, G2, nkey, ekey, limit=None):
    """All bijections V(G1) -> V(G2) preserving the node key, arcs in both directions (loops included) and the edge key.
    Plain back-tracking over the nodes of G1; no refinement, no library matcher."""
    n1 = list(G1.nodes)
    if len(n1) != G2.number_of_nodes() or G1.number_of_edges() != G2.number_of_edges():
        return []
    nk1 = {v: nkey(G1.nodes[v]) for v in n1}
    nk2 = {v: nkey(G2.nodes[v]) for v in G2.nodes}
    a1 = {(u, v): ekey(d) for u, v, d in G1.edges(data=True)}
    a2 = {(u, v): ekey(d) for u, v, d in G2.edges(data=True)}
    if sorted(map(repr, nk1.values())) != sorted(map(repr, nk2.values())):
        return []
    # assignment order: breadth-first over the underlying undirected graph, so that every node (but the first of a
    # component) is constrained by an already assigned neighbour; still plain back-tracking, no refinement
    adj = {v: set() for v in n1}
    for (u, v) in a1:
        adj[u].add(v)
        adj[v].add(u)
    order, seen = [], set()
    for s0 in n1:
        if s0 in seen:
            continue
        queue = [s0]
        seen.add(s0)
        while queue:
            x = queue.pop(0)
            order.append(x)
            for y in sorted(adj[x], key=repr):
                if y not in seen:
                    seen.add(y)
                    queue.append(y)
    n1 = order
    MISS = object()
    out = []
    m = {}
    used = set()

    def rec(i):
        if limit is not None and len(out) >= limit:
            return
        if i == len(n1):
            out.append(dict(m))
            return
        p = n1[i]
        for h in G2.nodes:
            if h in used or nk2[h] != nk1[p]:
                continue
            if a1.get((p, p), MISS) != a2.get((h, h), MISS):
                continue
            ok = True
            for q, hq in m.items():
                if a1.get((p, q), MISS) != a2.get((h, hq), MISS) or a1.get((q, p), MISS) != a2.get((hq, h), MISS):
                    ok = False
                    break
            if not ok:
                continue
            m[p] = h
            used.add(h)
            rec(i + 1)
            del m[p]
            used.discard(h)

    rec(0)
    return out


def _nk(d):
    return d.get("kind")


def _ek(d):
    return (d.get("role"), d.get("stoich"))


def _orbits(nodes, maps):
    cls = {v: {v} for v in nodes}
    for m in maps:
        for a, b in m.items():
            if cls[a] is not cls[b]:
                u = cls[a] | cls[b]
                for x in u:
                    cls[x] = u
    return {frozenset(c) for c in cls.values()}


def _fmt_net(net):
    return "; ".join("%s:%s>>%s" % (e or "-", "+".join("%d%s" % (c, s) for s, c in l) or "0", "+".join("%d%s" % (c, s) for s, c in r) or "0")
                     for e, _, l, r in net["rxns"]) + (" iso=%s" % net["iso"] if net.get("iso") else "")


def _collides(net):
    """a species label equal to a reaction id (the two live in one namespace in the views)"""
    H = _build(net)
    return bool(set(H.species) & set(H.edges.keys()))


def _answers(H, view, st, intids):
    from synkit.CRN.Topo.canon import CRNCanonicalizer
    from synkit.CRN.Topo.automorphism import CRNAutomorphism
    from synkit.CRN.Topo.wl_canon import WLCanonicalizer
    inc = view == "bip"
    C = CRNCanonicalizer(H, include_rule=inc, include_stoich=st, integer_ids=intids)
    s = C.summary()
    A = CRNAutomorphism(H, include_rule=inc, include_stoich=st, integer_ids=intids).summary(max_count=10 ** 9, timeout_sec=None)
    key = lambda G: (sorted((repr(n), repr(sorted(d.items(), key=repr))) for n, d in G.nodes(data=True)),
                     sorted((repr(u), repr(v), repr(sorted(d.items(), key=repr))) for u, v, d in G.edges(data=True)))
    W = WLCanonicalizer(H, include_rule=inc, include_stoich=st, integer_ids=intids).summary()
    return dict(view=key(C.G), canon=key(s["canon_graph"]), count=s["automorphism_count"],
                orbits=sorted(sorted(map(repr, o)) for o in s["orbits"]),
                vf2_count=A["automorphism_count"], vf2_orbits=sorted(sorted(map(repr, o)) for o in A["orbits"]),
                wl_canon=key(W["canon_graph"]), wl_orbits=sorted(sorted(map(repr, o)) for o in W["orbits"]),
                wl_count=W["automorphism_count"])


def _api_consistency(H, inc, st, s, A, auts, where, ckw=None, akw=None, auts_v=None):
    """graph()/orbits()/has_nontrivial_automorphism()/canonical() of the canonicaliser and iter()/
    has_nontrivial_automorphism()/detect_automorphisms() of the VF2 tool against summary() and the brute-force reference"""
    from synkit.CRN.Topo.canon import CRNCanonicalizer, canonical
    from synkit.CRN.Topo.automorphism import CRNAutomorphism, detect_automorphisms
    out = []

    def bad(what, got, exp):
        out.append(dict(clause="api-consistency", detail="%s = %r, expected %r: %s" % (what, got, exp, where)))

    ckw = dict(ckw or {})
    akw = dict(akw or {})
    auts_v = auts if auts_v is None else auts_v
    C2 = CRNCanonicalizer(H, include_rule=inc, include_stoich=st, **ckw)
    kg = _keyed_graph(C2.graph())
    if kg != _keyed_graph(s["canon_graph"]):
        bad("CRNCanonicalizer.graph()", kg, _keyed_graph(s["canon_graph"]))
    o2 = {frozenset(o) for o in C2.orbits()}
    if o2 != {frozenset(o) for o in s["orbits"]}:
        bad("CRNCanonicalizer.orbits()", sorted(map(sorted, o2)), sorted(map(sorted, s["orbits"])))
    if C2.has_nontrivial_automorphism() != (len(auts) > 1):
        bad("CRNCanonicalizer.has_nontrivial_automorphism()", C2.has_nontrivial_automorphism(), len(auts) > 1)
    s2 = C2.summary()          # a second analysis on the same canonicaliser object
    if s2["automorphism_count"] != s["automorphism_count"] or _keyed_graph(s2["canon_graph"]) != _keyed_graph(s["canon_graph"]):
        bad("second CRNCanonicalizer.summary() on one object", s2["automorphism_count"], s["automorphism_count"])
    C3 = canonical(H, include_rule=inc, include_stoich=st, **ckw)
    if _keyed_graph(C3.graph()) != _keyed_graph(s["canon_graph"]):
        bad("canonical(...).graph()", _keyed_graph(C3.graph()), _keyed_graph(s["canon_graph"]))
    A2 = CRNAutomorphism(H, include_rule=inc, include_stoich=st, **akw)
    maps = list(A2.iter())
    ref = {tuple(sorted(m.items(), key=repr)) for m in auts_v}
    got = {tuple(sorted(m.items(), key=repr)) for m in maps}
    if len(maps) != len(auts_v) or got != ref:
        bad("CRNAutomorphism.iter() mappings", len(maps), len(auts_v))
    if A2.has_nontrivial_automorphism(timeout_sec=None) != (len(auts_v) > 1):
        bad("CRNAutomorphism.has_nontrivial_automorphism()", A2.has_nontrivial_automorphism(timeout_sec=None), len(auts_v) > 1)
    D = detect_automorphisms(H, include_rule=inc, include_stoich=st, max_count=None, timeout_sec=None, **akw)
    if D["automorphism_count"] != len(auts_v) or {frozenset(o) for o in D["orbits"]} != {frozenset(o) for o in A["orbits"]}:
        bad("detect_automorphisms()", D["automorphism_count"], len(auts))
    return out[:1]


def _wl_api(H, inc, st, W, ckw, wlkw, where):
    """the other entry points of the WL tool (orbits(), graph(), a second summary(), the functional wrapper wl_canonical) tell the
    same story as the first summary() under the same options"""
    from synkit.CRN.Topo.wl_canon import WLCanonicalizer, wl_canonical
    key = lambda G_: (sorted((repr(n), repr(sorted(d.items(), key=repr))) for n, d in G_.nodes(data=True)),
                      sorted((repr(u), repr(v), repr(sorted(d.items(), key=repr))) for u, v, d in G_.edges(data=True)))
    ref = (sorted(sorted(map(repr, o)) for o in W["orbits"]), W["automorphism_count"], key(W["canon_graph"]))
    out = []
    W2 = WLCanonicalizer(H, include_rule=inc, include_stoich=st, **ckw, **wlkw)
    got = (sorted(sorted(map(repr, o)) for o in W2.orbits()), W2.summary()["automorphism_count"], key(W2.graph()))
    if got != ref:
        out.append(dict(clause="api-consistency", detail="WLCanonicalizer.orbits()/graph()/second summary() = %r, first summary() %r: %s" % (got[:2], ref[:2], where)))
    W3 = wl_canonical(H, include_rule=inc, include_stoich=st, **ckw, **wlkw).summary()
    got = (sorted(sorted(map(repr, o)) for o in W3["orbits"]), W3["automorphism_count"], key(W3["canon_graph"]))
    if got != ref:
        out.append(dict(clause="api-consistency", detail="wl_canonical(...) = %r, WLCanonicalizer(...).summary() %r: %s" % (got[:2], ref[:2], where)))
    return out[:1]


def _oracle_seq(case):
    """every analysis of the sequence on the shared, later mutated, hypergraph object must answer exactly what a fresh
    object built for that network answers (view, canonical graph, counts, orbits)"""
    fails = []
    H = _build(case["nets"][0])
    for k, net in enumerate(case["nets"]):
        if k > 0:
            _add_extra(H, case["nets"][k - 1], net)
        for j, (view, st, intids) in enumerate(case["steps"]):
            got = _answers(H, view, st, intids)
            ref = _answers(_build(net), view, st, intids)
            bad = [f for f in got if got[f] != ref[f]]
            if bad:
                fails.append(dict(clause="reuse-stale", detail="analysis %d of the sequence %r on ONE hypergraph object (network %d: %s) differs from a "
                                  "fresh object in %s: shared %r, fresh %r" % (j, case["steps"], k, _fmt_net(net), bad,
                                                                               {f: got[f] for f in bad[:2]}, {f: ref[f] for f in bad[:2]})))
                return fails
    return fails


def _oracle_hist(case):
    """every analysis of a history (fresh analyzers on the shared, edited hypergraph object; earlier results scribbled on by the
    caller; earlier analyzers read again) must answer exactly what analyzers on a freshly built network answer"""
    fails = []

    def analyse(H, net, view, st, intids, keep):
        got = _answers(H, view, st, intids)
        ref = _answers(_build(net), view, st, intids)
        bad = [f for f in got if got[f] != ref[f]]
        if bad and not fails:
            fails.append(dict(clause="reuse-stale", detail="analysis (%s, stoich=%s, integer_ids=%s) inside the history %r on ONE hypergraph object, "
                              "network value now [%s], differs from a freshly built network in %s: shared %r, fresh %r"
                              % (view, st, intids, case["ops"], _fmt_net(net), bad, {f: got[f] for f in bad[:1]}, {f: ref[f] for f in bad[:1]})))
        # hand the caller something to scribble on / re-read
        from synkit.CRN.Topo.canon import CRNCanonicalizer
        from synkit.CRN.Topo.automorphism import CRNAutomorphism
        inc = view == "bip"
        C = CRNCanonicalizer(H, include_rule=inc, include_stoich=st, integer_ids=intids)
        A = CRNAutomorphism(H, include_rule=inc, include_stoich=st, integer_ids=intids)
        keep.update(C=C, A=A, s=C.summary(), a=A.summary(max_count=10 ** 9, timeout_sec=None))
        return None

    def snap(C, A):
        s_, a_ = C.summary(), A.summary(max_count=10 ** 9, timeout_sec=None)
        gk = lambda G_: (sorted((repr(n), repr(sorted(d.items(), key=repr))) for n, d in G_.nodes(data=True)),
                         sorted((repr(u), repr(v), repr(sorted(d.items(), key=repr))) for u, v, d in G_.edges(data=True)))
        return dict(canon=gk(s_["canon_graph"]), count=s_["automorphism_count"], perm=list(map(repr, s_["canonical_perm"])),
                    orbits=sorted(sorted(map(repr, o)) for o in s_["orbits"]), leaves=[list(map(repr, p)) for p in s_["sample_permutations"]],
                    maps=[sorted(map(repr, m.items())) for m in s_["mappings"]],
                    vf2_count=a_["automorphism_count"], vf2_orbits=sorted(sorted(map(repr, o)) for o in a_["orbits"])), s_, a_

    def reread(keep):
        """the same analyzers read again after the caller scribbled on the results they returned earlier"""
        before, s_, a_ = snap(keep["C"], keep["A"])
        keep["s"], keep["a"] = s_, a_
        _scribble_results(keep)
        after, _, _ = snap(keep["C"], keep["A"])
        bad = [f for f in before if before[f] != after[f]]
        if bad and not fails:
            fails.append(dict(clause="result-aliasing", detail="reading the same analyzers again after the caller edited the results returned earlier "
                              "changes %s (history %r): before %r, after %r" % (bad, case["ops"], {f: before[f] for f in bad[:1]}, {f: after[f] for f in bad[:1]})))

    _run_history(case, analyse, reread)
    return fails


def oracle(case):
    _saturate()
    if case.get("ops"):
        fl = _oracle_hist(case)
        if fl:
            return fl
        seen = set()
        for net, view, st, intids in _history_nets(case):
            k = repr((net, view, st, intids))
            if k in seen:
                continue
            seen.add(k)
            fl = oracle(dict(case, ops=None, nets=[net], rel=["base"], view=view, stoich=st, intids=intids))
            if fl:
                return fl
        return []
    if case.get("steps"):
        fl = _oracle_seq(case)
        if fl:
            return fl
        # the per-network clauses on every configuration of the sequence
        for view, st, intids in case["steps"]:
            fl = oracle(dict(case, steps=None, view=view, stoich=st, intids=intids))
            if fl:
                return fl
        return []
    from synkit.CRN.Topo.canon import CRNCanonicalizer
    from synkit.CRN.Topo.automorphism import CRNAutomorphism
    from synkit.CRN.Topo.wl_canon import WLCanonicalizer
    inc, st = case["view"] == "bip", case["stoich"]
    intids = bool(case.get("intids", False))
    at = case.get("attrs") or {}
    nk = tuple(at.get("nk", ("kind",)))
    ek = tuple(at.get("ek", ("role", "stoich")))
    wlkw = dict(at.get("wl", {}))
    ckw = dict(integer_ids=intids)
    akw = dict(integer_ids=intids)
    if at:
        ckw.update(node_attr_keys=list(nk), edge_attr_keys=list(ek))
        akw.update(node_attr_keys=list(nk))
    fz = CRNCanonicalizer._freeze
    nsel = lambda d: repr(tuple(fz(d.get(k)) for k in nk))
    esel = lambda d: repr(tuple(sorted((k, repr(fz(d.get(k)))) for k in ek)))
    edef = lambda d: repr((d.get("role"), d.get("stoich")))
    ksel = lambda G_: (sorted([repr(n), nsel(d)] for n, d in G_.nodes(data=True)),
                       sorted([repr(u), repr(v), esel(d)] for u, v, d in G_.edges(data=True)))
    fails = []
    cfg = "%s/%s%s%s" % (case["view"], "stoich" if st else "nostoich", "/integer_ids" if intids else "", ("/%r" % at) if at else "")
    data = []
    for i, net in enumerate(case["nets"]):
        H = _build(net)
        C = CRNCanonicalizer(H, include_rule=inc, include_stoich=st, **ckw)
        G = C.G
        where = "%s net %d [%s]" % (cfg, i, _fmt_net(net))
        try:
            s = C.summary()
        except Exception as exc:        # no max_depth / timeout was given: every network must get a canonical graph
            fails.append(dict(clause="canon-crash", detail="CRNCanonicalizer.summary() raises %s(%s): %s" % (type(exc).__name__, exc, where)))
            continue
        Gc = s["canon_graph"]
        # (1) canonical graph isomorphic to the view (all attributes)
        full_n = lambda d: tuple(sorted((k, repr(v)) for k, v in d.items()))
        if not _isos(G, Gc, full_n, full_n, limit=1):
            fails.append(dict(clause="canon-iso", detail="canonical graph not isomorphic to its view: " + where))
        auts = _isos(G, G, nsel, esel)
        auts_v = auts if not at else _isos(G, G, nsel, edef)       # the VF2 tool always matches edges on (role, stoich)
        # (2) automorphism count / orbits of the canonicaliser
        if s["automorphism_count"] != len(auts):
            fails.append(dict(clause="aut-count", detail="canonicaliser reports %d automorphisms, the view has %d: %s"
                              % (s["automorphism_count"], len(auts), where)))
        ref_orb = _orbits(list(G.nodes), auts)
        if {frozenset(o) for o in s["orbits"]} != ref_orb:
            fails.append(dict(clause="orbits", detail="canonicaliser orbits %r, true orbits %r: %s"
                              % (sorted(map(sorted, s["orbits"])), sorted(map(sorted, ref_orb)), where)))
        # (3) the VF2 tool
        A = CRNAutomorphism(H, include_rule=inc, include_stoich=st, **akw).summary(max_count=10 ** 9, timeout_sec=None)
        ref_orb_v = ref_orb if not at else _orbits(list(G.nodes), auts_v)
        if A["automorphism_count"] != len(auts_v):
            fails.append(dict(clause="vf2-count", detail="CRNAutomorphism reports %d automorphisms, the view has %d structure-preserving self-maps: %s"
                              % (A["automorphism_count"], len(auts_v), where)))
        if {frozenset(o) for o in A["orbits"]} != ref_orb_v:
            fails.append(dict(clause="vf2-orbits", detail="CRNAutomorphism orbits %r, true orbits %r: %s"
                              % (sorted(map(sorted, A["orbits"])), sorted(map(sorted, ref_orb)), where)))
        # (4) WL canonicaliser: approximate by its documentation; only the sound half is demanded
        W = WLCanonicalizer(H, include_rule=inc, include_stoich=st, **ckw, **wlkw).summary()
        if not _isos(G, W["canon_graph"], full_n, full_n, limit=1):
            fails.append(dict(clause="wl-iso", detail="WL canonical graph not isomorphic to its view: " + where))
        wl_cells = [set(o) for o in W["orbits"]]
        for o in ref_orb:
            if not any(o <= c for c in wl_cells):
                fails.append(dict(clause="wl-splits-orbit", detail="WL colour cells %r split the true orbit %r: %s"
                                  % (sorted(map(sorted, wl_cells)), sorted(o), where)))
                break
        # (4b) the other public entry points must tell the same story as summary() (not for the bulk exhaustive family)
        if case.get("kind") != "exh3":
            fails += _api_consistency(H, inc, st, s, A, auts, where, ckw, akw, auts_v)
            fails += _wl_api(H, inc, st, W, ckw, wlkw, where)
        data.append((G, ksel(Gc) if at else _keyed_graph(Gc), where))
    # (5) identical canonical graphs exactly for isomorphic views; declared variants must be identical
    collide = any(_collides(n) for n in case["nets"])
    for i in range(len(data)):
        for j in range(i + 1, len(data)):
            same = data[i][1] == data[j][1]
            iso = bool(_isos(data[i][0], data[j][0], nsel, esel, limit=1))
            if "label" in nk or (set(ek) & _SP_EDGE_SETS):
                continue            # labels / reaction-id sets / rule-name sets are names: renaming is not an isomorphism on this selection
            if i == 0 and case["rel"][j] == "variant" and not same:
                key = "C18:view-id-collision" if collide else None
                fails.append(dict(clause="canon-invariant", key=key,
                                  detail="networks that differ only by renaming / reordering / regenerated ids get different canonical graphs "
                                         "(views isomorphic: %s): %s  VS  %s" % (iso, data[i][2], data[j][2])))
            elif iso and not same:
                fails.append(dict(clause="canon-invariant", detail="isomorphic views, different canonical graphs: %s  VS  %s"
                                  % (data[i][2], data[j][2])))
            elif same and not iso:
                fails.append(dict(clause="canon-complete", detail="non-isomorphic views, identical canonical graphs: %s  VS  %s"
                                  % (data[i][2], data[j][2])))
    for f in fails:
        if f.get("key") is None:
            f.pop("key", None)
    return fails[:4]


def shrink(case, fl):
    """drop nets (keeping net 0) and then reactions while the same clause keeps failing"""
    clause = fl.get("clause")
    if case.get("steps") or case.get("ops"):
        return case

    def bad(c):
        try:
            return any(f.get("clause") == clause for f in oracle(c))
        except Exception:
            return False

    cur = case
    changed = True
    while changed:
        changed = False
        for k in range(len(cur["nets"]) - 1, 0, -1):
            cand = dict(cur, nets=cur["nets"][:k] + cur["nets"][k + 1:], rel=cur["rel"][:k] + cur["rel"][k + 1:])
            if bad(cand):
                cur, changed = cand, True
                break
    if len(cur["nets"]) == 1:
        net = cur["nets"][0]
        changed = True
        while changed and len(net["rxns"]) > 1:
            changed = False
            for k in range(len(net["rxns"])):
                cand_net = dict(net, rxns=net["rxns"][:k] + net["rxns"][k + 1:])
                cand = dict(cur, nets=[cand_net])
                if bad(cand):
                    net, cur, changed = cand_net, cand, True
                    break
    return dict(cur, name=case.get("name", "") + "(shrunk)")


def neighbours(case, rng):
    if case.get("ops"):
        ans = [op for op in case["ops"] if op[0] == "an"]
        return [dict(case, ops=[op for op in case["ops"] if op[0] not in ("scribble", "reuse", "reread")], name="no-scribble"),
                dict(case, ops=ans[-1:], name="last-analysis-only")]
    if case.get("steps"):
        return [dict(case, steps=[stp], name="single-step") for stp in case["steps"]] + \
               [dict(case, steps=list(reversed(case["steps"])), name="reversed-steps")]
    out = []
    for i, n in enumerate(case["nets"]):
        out.append(dict(case, nets=[n], rel=["base"], name="single-net"))
    for view, st in (("bip", True), ("bip", False), ("sp", True)):
        if (view, st) != (case["view"], case["stoich"]):
            out.append(dict(case, view=view, stoich=st, name="other-config"))
    return out


def nontrivial(case, obs):
    try:
        for o in obs:
            nodes = o[0]["__set__"]
            if len(nodes) < 4:
                continue
            first_out = o[2][0][1]
            if any(len(c) > 1 for c in first_out) or o[5] > 1:
                return True
    except Exception:
        pass
    return False


def distribution(cases, obss):
    sizes, auts, depth, cfg, rels, leaves, dup_orbit = {}, {}, {}, {}, {}, {}, 0
    nets = 0
    for c, obs in zip(cases, obss):
        k = "%s/%s" % (c["view"], "stoich" if c["stoich"] else "nostoich")
        cfg[k] = cfg.get(k, 0) + 1
        for r in c["rel"]:
            rels[r] = rels.get(r, 0) + 1
        if not (isinstance(obs, list) and obs and isinstance(obs[0], list) and len(obs[0]) == 18):
            continue
        for o in obs:
            if not (isinstance(o, list) and len(o) == 18):
                continue           # the list of re-reads of a history
            nets += 1
            n = len(o[0]["__set__"])
            sizes[n] = sizes.get(n, 0) + 1
            a = o[5]
            b = "1" if a == 1 else "2" if a == 2 else "3-6" if a <= 6 else "7-24" if a <= 24 else ">24"
            auts[b] = auts.get(b, 0) + 1
            d = len(o[3]) - n
            depth[d] = depth.get(d, 0) + 1
            nl = len(o[2])
            b = "1" if nl == 1 else "2-5" if nl <= 5 else "6-20" if nl <= 20 else "21-100" if nl <= 100 else ">100"
            leaves[b] = leaves.get(b, 0) + 1
    return dict(configurations=cfg, relations=rels, networks=nets,
                view_nodes={str(k): v for k, v in sorted(sizes.items())},
                automorphisms=auts, individualisation_depth={str(k): v for k, v in sorted(depth.items())},
                refine_calls_per_network=leaves)


# ------------------------------------------------------------------ generators

SP3 = ["A", "B", "C"]


def _sides(sp):
    out = [()]
    for a in sp:
        out.append(((a, 1),))
        out.append(((a, 2),))
    for a, b in itertools.combinations(sp, 2):
        out.append(((a, 1), (b, 1)))
    return out


def _alphabet(sp):
    S_ = _sides(sp)
    return [(l, r) for l in S_ for r in S_ if l or r]


def _rename_rxn(rx, m):
    l, r = rx
    return (tuple(sorted((m[s], c) for s, c in l)), tuple(sorted((m[s], c) for s, c in r)))


def _net_of(rxs, ids=None, rules=None, iso=()):
    return dict(rxns=[[None if ids is None else ids[k], (rules[k] if rules else "r"),
                       [list(x) for x in l], [list(x) for x in r]] for k, (l, r) in enumerate(rxs)],
                iso=list(iso))


def _exhaustive3():
    """one representative per class of <=2-reaction networks on {A,B,C} under species permutation,
    with all its distinct permuted copies"""
    A = _alphabet(SP3)
    perms = [dict(zip(SP3, p)) for p in itertools.permutations(SP3)]
    nets = [(a,) for a in A] + [(a, b) for i, a in enumerate(A) for b in A[i:]]
    seen = set()
    out = []
    for net in nets:
        key = tuple(sorted(net))
        if key in seen:
            continue
        imgs = []
        for m in perms:
            im = tuple(_rename_rxn(rx, m) for rx in net)
            k = tuple(sorted(im))
            if k not in seen:
                seen.add(k)
                imgs.append(im)
        out.append(imgs)
    return out


def _tweak(rxs, rng):
    """near miss: change one coefficient (1 <-> 2) or move one species occurrence"""
    rxs = [(list(l), list(r)) for l, r in rxs]
    cands = [(k, side, i) for k, (l, r) in enumerate(rxs) for side, sd in ((0, l), (1, r)) for i in range(len(sd))]
    if not cands:
        return [(tuple(l), tuple(r)) for l, r in rxs]
    k, side, i = rng.choice(cands)
    s, c = rxs[k][side][i]
    rxs[k][side][i] = (s, 2 if c == 1 else 1)
    return [(tuple(l), tuple(r)) for l, r in rxs]


CONFIGS = [("bip", True), ("bip", False), ("sp", True)]


def _case(kind, view, st, nets, rel, intids=False, attrs=None):
    c = dict(kind=kind, view=view, stoich=st, nets=nets, rel=rel)
    if intids:
        c["intids"] = True
    if attrs:
        c["attrs"] = attrs
    return c


def _variant(rxs, rng, names_from, names_to, rules=("r", "q", "R1"), explicit_ids=False, iso=()):
    m = dict(zip(names_from, names_to))
    order = list(range(len(rxs)))
    rng.shuffle(order)
    out = []
    for k in order:
        l, r = rxs[k]
        l2 = [(m[s], c) for s, c in l]
        r2 = [(m[s], c) for s, c in r]
        rng.shuffle(l2)
        rng.shuffle(r2)
        out.append((tuple(l2), tuple(r2)))
    rl = [rng.choice(rules) for _ in out]
    ids = None
    if explicit_ids:
        pool = ["x%d" % i for i in range(1, 30)] + ["e_%d" % i for i in range(10, 13)] + ["Zr", "a0"]
        ids = rng.sample(pool, len(out))
    return _net_of(out, ids=ids, rules=rl, iso=[m[s] for s in iso])


NAME_POOLS = [
    ["A", "B", "C", "D", "E", "F", "G", "H"],
    ["s1", "s10", "s2", "S", "r", "q", "r_", "zz"],          # around the generated ids r_1.. / q_1.. in string order
    ["Glc", "ATP", "ADP", "Pi", "H2O", "NAD", "X", "a"],
    ["r_x", "q1", "R1_", "R", "Q", "p", "t", "u"],
]


def _rand_rxs(rng, sp, nr, maxc):
    rxs = []
    for _ in range(nr):
        while True:
            l = tuple((s, rng.choice(maxc)) for s in rng.sample(sp, min(len(sp), rng.choice([0, 1, 1, 2, 2, 3]))))
            r = tuple((s, rng.choice(maxc)) for s in rng.sample(sp, min(len(sp), rng.choice([0, 1, 1, 2, 2, 3]))))
            if l or r:
                break
        rxs.append((l, r))
    return rxs


def _random_case(rng, view, st, max_sp=6, max_rx=5):
    ns = rng.randint(2, max_sp)
    nr = rng.randint(1, max_rx)
    base = NAME_POOLS[0][:ns]
    maxc = rng.choice([[1], [1, 1, 2], [1, 2, 3], [1, 2, 10, 12]])
    rxs = _rand_rxs(rng, base, nr, maxc)
    if rng.random() < 0.35 and nr >= 2:           # plant symmetry: copy a reaction under a transposition of two species
        a, b = rng.sample(base, 2)
        m = {s: s for s in base}
        m[a], m[b] = b, a
        k = rng.randrange(nr)
        rxs[(k + 1) % nr] = (tuple((m[s], c) for s, c in rxs[k][0]), tuple((m[s], c) for s, c in rxs[k][1]))
    used = {s for l, r in rxs for s, _ in l + r}
    iso = [s for s in base if s not in used][:rng.choice([0, 0, 1, 2])]
    nets = [_net_of(rxs, rules=[rng.choice(["r", "q"]) for _ in rxs], iso=iso)]
    rel = ["base"]
    for _ in range(2):
        pool = rng.choice(NAME_POOLS)
        nets.append(_variant(rxs, rng, base, rng.sample(pool, ns), explicit_ids=rng.random() < 0.3, iso=iso))
        rel.append("variant")
    nets.append(_variant(_tweak(rxs, rng), rng, base, rng.sample(rng.choice(NAME_POOLS), ns), iso=iso))
    rel.append("other")
    return _case("random", view, st, nets, rel)


def _ring(n, form, coeffs=None):
    sp = ["A%d" % i for i in range(n)]
    rxs = []
    for i in range(n):
        c = 1 if coeffs is None else coeffs[i]
        a, b = sp[i], sp[(i + 1) % n]
        if form == "uni":
            rxs.append((((a, c),), ((b, 1),)))
        elif form == "cat":
            rxs.append((((a, c), ("X", 1)), ((b, 1), ("X", 1))))
        elif form == "pcat":
            rxs.append((((a, c), ("W%d" % i, 1)), ((b, 1), ("W%d" % i, 1))))
        elif form == "dimer":
            rxs.append((((a, 2),), ((b, c),)))
        elif form == "rev":
            rxs.append((((a, c),), ((b, 1),)))
            rxs.append((((b, 1),), ((a, c),)))
    return sp + (["X"] if form == "cat" else []) + (["W%d" % i for i in range(n)] if form == "pcat" else []), rxs


def _names(rng, k):
    """k distinct species names from one of the pools (extended with suffixed copies when the pool is too small)"""
    pool = list(rng.choice(NAME_POOLS))
    ext = list(dict.fromkeys(pool + [x + y for y in ("x", "y", "k") for x in pool]))     # distinct, never of the form <rule>_<n>
    return rng.sample(ext, k)


def _ring_cases(rng, sizes, big_forms=("uni",), more=4):
    out = []
    for n in sizes:
        for form in ("uni", "cat", "pcat", "dimer", "rev"):
            if form == "rev" and n > 4:
                continue
            if n >= 6 and form not in big_forms:
                continue
            sp, rxs = _ring(n, form)
            for view, st in CONFIGS:
                nets = [_net_of(rxs)]
                rel = ["base"]
                rot = sp[1:n] + sp[:1] + sp[n:]
                nets.append(_variant(rxs, rng, sp, rot))
                rel.append("variant")
                nets.append(_variant(rxs, rng, sp, _names(rng, len(sp)), explicit_ids=True))
                rel.append("variant")
                if n >= 5 or form == "pcat":
                    # symmetric branching points with several equal-size cells below them: many renamings, so that every
                    # order of the names relative to each other and to the generated reaction ids occurs
                    for _ in range(more if n <= 4 else (2 if n == 5 else 0)):
                        nets.append(_variant(rxs, rng, sp, _names(rng, len(sp)), explicit_ids=rng.random() < 0.3))
                        rel.append("variant")
                # the same skeleton with one / two coefficients raised: differ only in stoichiometry
                c1 = [1] * n
                c1[0] = 2
                sp1, r1 = _ring(n, form, c1)
                nets.append(_net_of(r1))
                rel.append("other")
                c2 = [1] * n
                c2[rng.randrange(n)] = 2
                sp2, r2 = _ring(n, form, c2)
                nets.append(_variant(r2, rng, sp2, sp2))
                rel.append("other")
                out.append(_case("ring", view, st, nets, rel))
    return out


def _star_cases(rng, ms):
    """m reactions  c_i A_i >> C  (and the mirrored C >> c_i A_i): skeleton fully symmetric, only coefficients differ"""
    out = []
    for m in ms:
        for vec in itertools.combinations_with_replacement([1, 2], m):
            for mirror in (False, True):
                sp = ["A%d" % i for i in range(m)] + ["C"]

                def mk(v):
                    if mirror:
                        return [((("C", 1),), ((sp[i], v[i]),)) for i in range(m)]
                    return [(((sp[i], v[i]),), (("C", 1),)) for i in range(m)]
                base = mk(vec)
                pv = list(vec)
                rng.shuffle(pv)
                other = list(vec)
                other[0] = 3 - other[0]
                for view, st in CONFIGS:
                    nets = [_net_of(base), _net_of(mk(pv)), _variant(base, rng, sp, rng.sample(NAME_POOLS[2], len(sp))),
                            _net_of(mk(other))]
                    out.append(_case("star", view, st, nets, ["base", "variant", "variant", "other"]))
    return out


def _special_cases(rng):
    out = []
    fam = [
        # twins, isolated species, catalysts (self-loops in the species view), empty sides
        ([((("A", 1), ("B", 1)), (("C", 1),))], ["D", "E"]),
        ([((("A", 1), ("B", 1)), (("C", 1),)), ((("C", 1),), (("A", 1), ("B", 1)))], []),
        ([((("A", 1), ("X", 1)), (("B", 1), ("X", 1))), ((("B", 1), ("Y", 1)), (("A", 1), ("Y", 1)))], []),
        ([((), (("A", 1),)), ((), (("B", 1),)), ((("A", 1),), ()), ((("B", 2),), ())], []),
        ([((("A", 1),), (("A", 1),)), ((("B", 1),), (("C", 1),)), ((("C", 1),), (("B", 1),))], []),
        ([((("A", 1),), (("A", 1), ("B", 1))), ((("C", 1),), (("C", 1), ("D", 1)))], ["E"]),
        ([((("A", 10),), (("B", 2),)), ((("C", 2),), (("D", 10),))], []),
        ([((("A", 1),), (("B", 1),)), ((("A", 1),), (("B", 1),))], []),                     # duplicate reaction
        ([((("A", 1),), (("B", 1),)), ((("A", 1),), (("B", 1),)), ((("B", 1),), (("A", 1),))], ["C"]),
        # species-view digraph on 4 nodes on which a premature stop of the refinement is visible
        ([((("A", 1),), (("A", 1),)), ((("A", 1),), (("D", 1),)), ((("B", 1),), (("C", 1),)), ((("B", 1),), (("D", 1),)),
          ((("C", 1),), (("B", 1),)), ((("C", 1),), (("C", 1),)), ((("D", 1),), (("A", 1),)), ((("D", 1),), (("B", 1),))], []),
    ]
    for rxs, iso in fam:
        sp = sorted({s for l, r in rxs for s, _ in l + r} | set(iso))
        for view, st in CONFIGS:
            nets = [_net_of(rxs, iso=iso)]
            rel = ["base"]
            for _ in range(3):
                nets.append(_variant(rxs, rng, sp, rng.sample(rng.choice(NAME_POOLS), len(sp)), explicit_ids=rng.random() < 0.5, iso=iso))
                rel.append("variant")
            nets.append(_variant(_tweak(rxs, rng), rng, sp, sp, iso=iso))
            rel.append("other")
            out.append(_case("special", view, st, nets, rel))
    return out


def _digraph_cases(rng, count, n=4):
    """species views that are arbitrary digraphs with loops on n nodes (one unimolecular reaction per arc), each with
    relabelled copies: the family on which representation dependence of the refinement shows"""
    out = []
    names = NAME_POOLS[0][:n]
    pairs = [(i, j) for i in range(n) for j in range(n)]
    for _ in range(count):
        while True:
            arcs = [p for p in pairs if rng.random() < rng.choice([0.35, 0.5])]
            if {x for a in arcs for x in a} == set(range(n)):
                break
        rxs = [(((names[i], 1),), ((names[j], 1),)) for i, j in arcs]
        nets = [_net_of(rxs)]
        rel = ["base"]
        for _ in range(3):
            nets.append(_variant(rxs, rng, names, rng.sample(names, n)))
            rel.append("variant")
        out.append(_case("digraph", "sp", True, nets, rel))
    return out


def _collision_cases():
    """a species whose label equals a reaction id: both views put them in one namespace (known finding)"""
    base = _net_of([((("A", 1),), (("B", 1),))])
    ren = _net_of([((("r_1", 1),), (("B", 1),))])
    # under integer_ids=True species and reactions are numbered separately: no collision, the variant must be identical
    return [_case("collision", "bip", True, [base, ren], ["base", "variant"]),
            _case("collision", "bip", True, [base, ren], ["base", "variant"], intids=True)]


STEP_SEQS = [
    [("bip", False, False), ("bip", True, False)],
    [("bip", True, False), ("bip", False, False)],
    [("sp", True, False), ("bip", False, False), ("bip", True, False), ("sp", True, False)],
    [("bip", True, True), ("bip", True, False), ("bip", False, True), ("bip", False, False)],
    [("bip", False, False), ("bip", True, True), ("bip", True, False)],
    [("bip", True, False), ("sp", True, False), ("bip", False, False), ("bip", True, False)],
]


def _seq_cases(rng, nrand):
    """sequences of analyses with different options on ONE hypergraph object (then the object is mutated and analysed
    again); coefficients > 1 so that the stoichiometry option matters"""
    bases = [
        ([((("A", 2), ("B", 1)), (("C", 1),))], ((("C", 1),), (("A", 3),))),
        ([((("A", 2),), (("C", 1),)), ((("B", 1),), (("C", 1),))], ((("B", 2),), (("C", 1),))),
        ([((("A", 1),), (("B", 2),)), ((("B", 2),), (("A", 1),))], ((("A", 2),), (("B", 1),))),
        ([((("A", 1), ("X", 1)), (("B", 1), ("X", 1))), ((("B", 2),), (("A", 1),))], ((("X", 2),), ())),
        ([((("A", 2),), (("B", 1),)), ((("B", 2),), (("C", 1),)), ((("C", 2),), (("A", 1),))], ((("A", 1),), (("C", 2),))),
        ([((("A", 1),), (("C", 1),)), ((("B", 2),), (("C", 1),)), ((("D", 1),), (("C", 1),))], ((("C", 1),), (("D", 2),))),
        ([((("A", 3), ("B", 1)), (("A", 1), ("C", 2)))], ((("C", 2),), (("B", 1),))),
        ([((), (("A", 2),)), ((("A", 2),), ())], ((("A", 1),), (("A", 2),))),
    ]
    out = []
    for rxs, extra in bases:
        for steps in STEP_SEQS:
            nets = [_net_of(rxs), _net_of(rxs + [extra])]
            out.append(dict(kind="seq", view=steps[0][0], stoich=steps[0][1], nets=nets, rel=["base", "other"],
                            steps=[list(x) for x in steps]))
    for _ in range(nrand):
        sp = NAME_POOLS[0][:rng.randint(2, 4)]
        rxs = _rand_rxs(rng, sp, rng.randint(1, 3), [1, 2, 2, 3])
        extra = _rand_rxs(rng, sp, 1, [1, 2, 3])[0]
        steps = [[rng.choice(["bip", "bip", "sp"]), rng.random() < 0.5, rng.random() < 0.25] for _ in range(rng.randint(2, 4))]
        if all(x[2] for x in steps):
            steps[-1][2] = False
        out.append(dict(kind="seq", view=steps[0][0], stoich=steps[0][1], nets=[_net_of(rxs), _net_of(rxs + [extra])],
                        rel=["base", "other"], steps=steps))
    return out


def _long_cases(rng):
    """>= 10 reactions: generated ids r_1 .. r_11 ('r_10' < 'r_2' in string order), canonical ids with two digits"""
    out = []
    sp, rxs = _ring(11, "uni")
    for view, st in (("bip", True), ("sp", True)):
        nets = [_net_of(rxs), _variant(rxs, rng, sp, _names(rng, len(sp)), explicit_ids=(view == "sp"))]
        out.append(_case("long", view, st, nets, ["base", "variant"]))
    chain = [(((sp[i], 1),), ((sp[i + 1], 1 + (i == 9)),)) for i in range(10)]
    for view, st in CONFIGS:
        nets = [_net_of(chain), _variant(chain, rng, sp, _names(rng, len(sp)))]
        out.append(_case("long", view, st, nets, ["base", "variant"]))
    return out


def _hist_cases(rng, nrand):
    """histories on ONE hypergraph object: analyses under changing options, in-place edits that keep the number of reactions and
    species (a reaction replaced under its old id, a coefficient edited in place, a species removed from all reactions but kept),
    edits that change them, results of earlier analyses edited by the caller, earlier analyzers read again"""
    A = lambda view="bip", st=True, ii=False: ["an", view, st, ii]
    base = [["e1", "r", [["A", 2], ["B", 1]], [["C", 1]]], ["e2", "r", [["C", 1]], [["A", 1]]]]
    sym = [["e1", "r", [["A", 1]], [["C", 1]]], ["e2", "r", [["B", 1]], [["C", 1]]]]
    scripts = [
        (base, [A(), ["replace", "e1", "r", [["A", 1], ["B", 1]], [["C", 2]]], A(), A("bip", False), A("sp")]),
        (base, [A("bip", False), ["coeff", "e1", 0, "A", 1], A("bip", False), A(), ["coeff", "e1", 0, "A", 3], A(), A("sp")]),
        (base, [A(), ["rmsp", "B"], A(), A("sp"), ["add", "e3", "q", [["B", 1]], [["A", 1]]], A(), A("sp")]),
        (sym, [A(), ["coeff", "e2", 0, "B", 2], A(), ["coeff", "e2", 0, "B", 1], A(), ["replace", "e2", "r", [["C", 1]], [["B", 1]]], A(), A("sp")]),
        (sym, [A(), ["scribble"], A(), ["scribble"], A("sp"), ["scribble"], A("sp"), A("bip", True, True), ["scribble"], A("bip", True, True)]),
        (sym, [A(), ["reuse"], ["replace", "e1", "q", [["A", 1]], [["C", 1]]], ["reuse"], A(), ["rmsp", "C"], ["reuse"], A(), A("sp")]),
        (sym, [A(), ["reread"], A(), ["reread"], ["coeff", "e1", 0, "A", 2], ["reread"], A("sp"), ["reread"], A("bip", False), ["reread"]]),
        (base, [A("bip", True, True), ["replace", "e2", "r", [["C", 1]], [["B", 1]]], A("bip", True, True), A("bip", False, True), A()]),
        (sym, [A("sp"), ["replace", "e1", "r", [["C", 1]], [["A", 1]]], A("sp"), ["rmsp", "A"], A("sp"), A()]),
        ([["e1", "r", [["A", 1]], [["A", 1]]]], [A(), A("sp"), ["coeff", "e1", 1, "A", 2], A(), A("sp"), ["rmsp", "A"], A(), A("sp")]),
        # kept analyzers read again after edits, without a fresh analysis in between: after a mutating method they must serve the
        # current network (backend.py compares the hypergraph's _version), after an edit of a side object they serve the old one
        (base, [A(), ["replace", "e1", "r", [["A", 1], ["B", 1]], [["C", 2]]], ["reuse"], ["coeff", "e1", 1, "C", 1], ["reuse"],
                ["add", "e3", "r", [["C", 1]], [["B", 1]]], ["reuse"], ["rmsp", "B"], ["reread"]]),
        (sym, [A("bip", False), ["coeff", "e2", 0, "B", 2], ["reuse"], A("bip", False), ["reuse"], ["coeff", "e2", 0, "B", 1], ["rmsp", "A"], ["reuse"]]),
        (sym, [A("sp"), ["replace", "e2", "r", [["C", 1]], [["B", 1]]], ["reread"], ["coeff", "e1", 0, "A", 3], ["reread"], A(), ["coeff", "e1", 0, "A", 1],
               ["reuse"], ["replace", "e1", "r", [["A", 1]], [["C", 1]]], ["reuse"]]),
    ]
    out = []
    for rx, ops in scripts:
        out.append(dict(kind="hist", view="bip", stoich=True, nets=[dict(rxns=rx, iso=[])], rel=["base"], ops=ops))
    for _ in range(nrand):
        sp = NAME_POOLS[0][:rng.randint(2, 4)]
        rxs = _rand_rxs(rng, sp, rng.randint(2, 3), [1, 2, 2, 3])
        net = dict(rxns=[["e%d" % (k + 1), "r", [list(x) for x in l], [list(x) for x in r]] for k, (l, r) in enumerate(rxs)], iso=[])
        ops = [A(rng.choice(["bip", "bip", "sp"]), rng.random() < 0.6, rng.random() < 0.2)]
        cur = net
        for _ in range(rng.randint(2, 4)):
            kind = rng.choice(["replace", "coeff", "coeff", "rmsp", "scribble", "reuse", "reread", "add"])
            op = None
            if kind == "replace" and cur["rxns"]:
                l, r = _rand_rxs(rng, sp, 1, [1, 2, 3])[0]
                op = ["replace", rng.choice(cur["rxns"])[0], rng.choice(["r", "q"]), [list(x) for x in l], [list(x) for x in r]]
            elif kind == "add":
                l, r = _rand_rxs(rng, sp, 1, [1, 2, 3])[0]
                op = ["add", "e%d" % (10 + len(ops)), "r", [list(x) for x in l], [list(x) for x in r]]
            elif kind == "coeff":
                cands = [(x[0], side, a) for x in cur["rxns"] for side in (0, 1) for a, _ in x[2 + side]]
                if cands:
                    e, side, a = rng.choice(cands)
                    op = ["coeff", e, side, a, rng.choice([1, 2, 3, 10])]
            elif kind == "rmsp":
                present = sorted({a for x in cur["rxns"] for a, _ in x[2] + x[3]})
                if present:
                    op = ["rmsp", rng.choice(present)]
            elif kind in ("scribble", "reuse", "reread"):
                op = [kind]
            if op is None:
                continue
            ops.append(op)
            if op[0] not in ("scribble", "reuse", "reread"):
                cur = _apply_op(cur, op)
                if rng.random() < 0.4:
                    ops.append([rng.choice(["reuse", "reread"])])      # the kept analyzers see the edit before any fresh analysis
            ops.append(A(rng.choice(["bip", "bip", "sp"]), rng.random() < 0.6, rng.random() < 0.2))
        out.append(dict(kind="hist", view="bip", stoich=True, nets=[net], rel=["base"], ops=ops))
    return out


def _degenerate_cases(rng):
    """empty network, a single (isolated) species, null steps A>>A, falsy / odd species labels, empty sides, large coefficients"""
    fam = [
        ([], []),                                                               # empty network
        ([], ["A"]),                                                            # one isolated species
        ([], ["A", "B"]),
        ([], [""]),                                                             # isolated species with falsy / odd labels
        ([((("A", 1),), (("B", 1),))], ["", "0"]),
        ([((("A", 1),), (("A", 1),))], []),                                     # null step
        ([((("A", 2),), (("A", 1),))], []),
        ([((("A", 1),), (("A", 1),)), ((("B", 1),), (("B", 1),))], []),
        ([((("", 1),), (("0", 2),))], []),                                      # empty-string and "0" labels
        ([((("0", 1), ("", 1)), ((" ", 1),)), (((" ", 1),), (("0", 1), ("", 1)))], ["None"]),
        ([((), (("A", 1),))], []),                                              # empty side
        ([((("A", 1),), ())], ["B"]),
        ([((("A", 100),), (("B", 12),)), ((("B", 12),), (("A", 100),))], []),   # coefficients with 2-3 digits
        ([((("A", 1),), (("B", 1),)), ((("A", 1),), (("B", 1),)), ((("A", 1),), (("B", 1),))], []),   # triple reaction
    ]
    out = []
    for rxs, iso in fam:
        sp = sorted({s for l, r in rxs for s, _ in l + r} | set(iso))
        for view, st in CONFIGS:
            nets = [_net_of(rxs, iso=iso)]
            rel = ["base"]
            if sp:
                for _ in range(2):
                    nets.append(_variant(rxs, rng, sp, _names(rng, len(sp)), explicit_ids=rng.random() < 0.5, iso=iso))
                    rel.append("variant")
            out.append(_case("degenerate", view, st, nets, rel))
        out.append(_case("degenerate", "bip", True, [_net_of(rxs, iso=iso)], ["base"], intids=True))
    return out


def _intids_cases(rng):
    """integer_ids=True on the bipartite view (species 1..N in sorted order, reactions N+1.. sorted by id): a renaming of the
    default view; with >= 10 nodes the numeric order of the ids differs from the string order of the names"""
    out = []
    for n, form in ((3, "pcat"), (5, "uni"), (4, "rev")):
        sp, rxs = _ring(n, form)
        nets = [_net_of(rxs), _variant(rxs, rng, sp, _names(rng, len(sp))), _variant(rxs, rng, sp, _names(rng, len(sp)), explicit_ids=True)]
        out.append(_case("intids", "bip", True, nets, ["base", "variant", "variant"], intids=True))
    sp = ["S%d" % i for i in range(7)]
    rxs = [(((sp[i], 1),), ((sp[i + 1], 1 + (i == 2)),)) for i in range(6)]          # 13 nodes: ids 10..13 sort before 2 as strings
    out.append(_case("intids", "bip", True, [_net_of(rxs), _variant(rxs, rng, sp, _names(rng, len(sp)))], ["base", "variant"], intids=True))
    for _ in range(12):
        c = _random_case(rng, "bip", rng.random() < 0.7)
        c["kind"] = "intids"
        c["intids"] = True
        out.append(c)
    for m, vec in ((2, (1, 2)), (3, (1, 1, 2))):
        sp = ["A%d" % i for i in range(m)] + ["C"]
        base = [(((sp[i], vec[i]),), (("C", 1),)) for i in range(m)]
        out.append(_case("intids", "bip", True, [_net_of(base), _variant(base, rng, sp, _names(rng, len(sp)))], ["base", "variant"], intids=True))
    return out


ATTR_SELECTIONS = [
    dict(nk=[], ek=["role", "stoich"]),
    dict(nk=["kind"], ek=[]),
    dict(nk=["kind"], ek=["role"]),
    dict(nk=["kind"], ek=["stoich"]),
    dict(nk=["kind"], ek=["stoich", "role"]),
    dict(nk=["bipartite"], ek=["role", "stoich"]),
    dict(nk=["kind", "bipartite"], ek=["role", "stoich", "order"]),
    dict(nk=["kind", "label"], ek=["role", "stoich"]),
    dict(nk=["kind", "mol"], ek=["role", "stoich", "absent"]),
    dict(nk=["label"], ek=["role"]),
    dict(nk=["bipartite", "label", "kind", "bipartite"], ek=["stoich", "role", "stoich"]),
    dict(nk=["zz", "kind"], ek=["zz"]),
    dict(nk=["kind"], ek=["role", "stoich"], wl=dict(n_iter=1)),
    dict(nk=["kind"], ek=["role", "stoich"], wl=dict(n_iter=0)),
    dict(nk=["kind"], ek=["role", "stoich"], wl=dict(n_iter=2, automorphism_cap=3)),
    dict(nk=["kind"], ek=["role", "stoich"], wl=dict(automorphism_cap=1)),          # degenerate caps: every product reaches the cap at once
    dict(nk=["kind", "bipartite"], ek=["stoich"], wl=dict(automorphism_cap=0, n_iter=1)),
    dict(nk=["label", "kind"], ek=["stoich"], wl=dict(n_iter=3, include_in_neighbors=False)),
    dict(nk=[], ek=[], wl=dict(include_in_neighbors=False, include_out_neighbors=False)),
    dict(nk=["kind"], ek=["role", "stoich"], wl=dict(include_in_neighbors=False)),
    dict(nk=["kind"], ek=["role", "stoich"], wl=dict(include_out_neighbors=False, estimate_automorphisms=False, digest_size=4)),
]
ATTR_SELECTIONS_SP = [
    dict(nk=["kind"], ek=["stoich_r", "stoich_p"]),
    dict(nk=["kind"], ek=["stoich_p"]),
    dict(nk=[], ek=[]),
    dict(nk=["label", "kind"], ek=["stoich_r"]),
    dict(nk=["bipartite", "kind"], ek=["stoich_p", "role", "stoich_r", "stoich_p"]),
    dict(nk=["kind"], ek=["via"]),                  # name-dependent: oracle only
]


def _attr_cases(rng):
    """non-default node / edge attribute selections (permuted, reduced, extended, with absent attributes) and WL options:
    judged by the oracle with the self-maps that preserve the SELECTED attributes"""
    out = []
    fams = []
    sp, rxs = _ring(4, "uni", [2, 1, 1, 1])
    fams.append((sp, rxs))
    sp, rxs = _ring(3, "pcat")
    fams.append((sp, rxs))
    fams.append((["A", "B", "C"], [((("A", 2),), (("C", 1),)), ((("B", 1),), (("C", 1),))]))
    fams.append((["A", "B", "X"], [((("A", 1), ("X", 1)), (("B", 1), ("X", 1))), ((("B", 2),), (("A", 1),))]))
    # one (reactant, product) pair inside several reactions with different coefficients: the species view aggregates by minimum
    fams.append((["A", "B", "C"], [((("A", 2),), (("B", 3),)), ((("A", 3), ("C", 1)), (("B", 2),)), ((("A", 4),), (("B", 4), ("C", 2)))]))
    fams.append(([], []))          # the empty network under every selection (one run of each tool on the graph without nodes)
    for k, (sp, rxs) in enumerate(fams):
        nets = [_net_of(rxs), _variant(rxs, rng, sp, _names(rng, len(sp))), _variant(_tweak(rxs, rng), rng, sp, sp)]
        rel = ["base", "variant", "other"]
        if not sp:
            nets, rel = nets[:1], rel[:1]
        for at in ATTR_SELECTIONS:
            out.append(_case("attrs", "bip", (k % 2 == 0) or ("stoich" in at["ek"]), nets, rel, attrs=at))
        for at in ATTR_SELECTIONS_SP:
            out.append(_case("attrs", "sp", True, nets, rel, attrs=at))
    return out


def _big_cases(rng, sizes):
    """chains of n reactions (rigid: one refinement, no branching) with three-digit ids"""
    out = []
    for n in sizes:
        sp = ["S%d" % i for i in range(n + 1)]
        chain = [(((sp[i], 1),), ((sp[i + 1], 1 + (i % 7 == 3)),)) for i in range(n)]
        for view, st, ii in (("bip", True, False), ("sp", True, False), ("bip", True, True)):
            nets = [_net_of(chain), _variant(chain, rng, sp, ["k%03d" % j for j in rng.sample(range(900), len(sp))])]
            out.append(_case("big", view, st, nets, ["base", "variant"], intids=ii))
    return out


def _option_cases(rng):
    """options of the two exact tools: max_depth of the canonicaliser (early stop / RuntimeError / exact answer) and max_count of
    the VF2 tool (bookkeeping of a truncated run), on symmetric and rigid networks"""
    out = []
    fams = []
    sp, rxs = _ring(4, "uni")
    fams.append((sp, rxs))
    sp, rxs = _ring(3, "pcat")
    fams.append((sp, rxs))
    sp = ["A0", "A1", "A2", "C"]
    fams.append((sp, [(((sp[i], 1),), (("C", 1),)) for i in range(3)]))
    S_ = ["S1", "S2", "S3", "S4"]
    fams.append((["hub"] + S_, [((("hub", 1),), tuple((x, 1) for x in S_))]))
    fams.append((["A", "B", "C"], [((("A", 1),), (("B", 1),)), ((("B", 1),), (("C", 2),))]))        # rigid
    fams.append(([], []))                                                                         # empty network
    # leaves at different depths (a 2-cycle and a loop look alike to the refinement: the branch through the loop node is deeper):
    # with max_depth = 1 the search stops early AFTER it has found leaves -- early_stop = True with an answer
    fams.append((["A", "C", "E"], [((("A", 1),), (("C", 1),)), ((("C", 1),), (("A", 1),)), ((("E", 1),), (("E", 1),))]))
    # ... and with the loop node BETWEEN the two others in name order the stop comes before the second minimal leaf was visited:
    # the truncated answer (count 1) differs from the exact one (count 2)
    fams.append((["A", "B", "C"], [((("A", 1),), (("C", 1),)), ((("C", 1),), (("A", 1),)), ((("B", 1),), (("B", 1),))]))
    fams.append((["A", "B", "C", "D", "E"], [((("A", 1),), (("A", 1),)), ((("A", 1),), (("B", 1),)), ((("B", 1),), (("A", 1),)),
                                              ((("C", 1),), (("D", 1),)), ((("D", 1),), (("C", 1),)), ((("E", 1),), (("E", 1),))]))
    mds = [0, 1, 2, 3, 4, 9, None]
    for sp, rxs in fams:
        for view, st in (("bip", True), ("sp", True), ("bip", False)):
            nets = [_net_of(rxs)] + ([_variant(rxs, rng, sp, _names(rng, len(sp)))] if sp else [])
            rel = ["base"] + (["variant"] if sp else [])
            out.append(dict(_case("depth", view, st, nets, rel), mds=mds))
            for ii in ((False, True) if view == "bip" and st else (False,)):
                c = dict(_case("vf2opts", view, st, nets, rel, intids=ii), ks=[-1, 0, 1, 2, 3, 5, 6, 7, 24, 100])
                out.append(c)
    return out


def _siglog_cases(rng, count):
    """the same kinds of networks once more with EVERY _sig call as the observable (rings, stars, special, digraphs, random)"""
    pool = _ring_cases(rng, [3, 4, 5], more=1) + _star_cases(rng, [2, 3]) + _special_cases(rng) + _digraph_cases(rng, 20) + \
        [_random_case(rng, *CONFIGS[k % 3]) for k in range(30)]
    out = []
    for c in rng.sample(pool, min(count, len(pool))):
        out.append(dict(c, kind="sigs", siglog=True))
    return out


def _bigsym_cases(rng, ms, heavy_ms, model_bip=True):
    """large symmetric groups: m mutually interchangeable species (|Aut| = m!, 720 / 5040): one reaction hub >> S1..Sm, one reaction
    S1+..+Sm >> P, m parallel reactions S_i >> P, and near misses (one coefficient raised: the group drops to (m-1)!).  The depth-first
    enumeration of such a group keeps its first node fixed for (m-1)! consecutive mappings."""
    out = []
    for m in ms:
        S_ = ["S%d" % i for i in range(1, m + 1)]
        fams = [
            ("hub", ["hub"] + S_, lambda c: [((("hub", 1),), tuple((x, c[i]) for i, x in enumerate(S_)))]),
            ("join", S_ + ["P"], lambda c: [(tuple((x, c[i]) for i, x in enumerate(S_)), (("P", 1),))]),
        ]
        if m in heavy_ms:
            fams.append(("par", S_ + ["P"], lambda c: [(((x, c[i]),), (("P", 1),)) for i, x in enumerate(S_)]))
        for name, sp, mk in fams:
            ones = [1] * m
            bump = list(ones)
            bump[rng.randrange(m)] = 2
            for view, st in (("sp", True), ("bip", True)):
                if name == "par" and view == "bip" and m > 6:
                    continue
                nets = [_net_of(mk(ones)), _variant(mk(ones), rng, sp, _names(rng, len(sp))), _net_of(mk(bump))]
                c = _case("bigsym", view, st, nets, ["base", "variant", "other"])
                if m >= 7 or (view == "bip" and (name == "par" or not model_bip)):
                    c["nomodel"] = True        # the Coq side is budgeted by group size x view size: these are judged by the oracle only
                out.append(c)
    return out


def gen_cases(tier, rng):
    cases = []
    # exhaustive small scope: both tiers
    for imgs0 in _exhaustive3():
        for view, st in CONFIGS:
            nets, rel = [], []
            imgs = imgs0
            if tier == "quick" and (view, st) != ("bip", True) and len(imgs0) > 3:
                # quick tier: all permuted copies in the bipartite+stoichiometry configuration, the class representative and
                # two of its permuted copies in the two other configurations (thorough: all copies everywhere)
                imgs = [imgs0[0]] + rng.sample(imgs0[1:], 2)
            for k, im in enumerate(imgs):
                order = list(im) if k % 2 == 0 else list(reversed(im))       # also regenerates the ids in another order
                nets.append(_net_of(order))
                rel.append("base" if k == 0 else "variant")
            nets.append(_net_of(_tweak(list(imgs[0]), rng)))
            rel.append("other")
            cases.append(_case("exh3", view, st, nets, rel))
    cases += _special_cases(rng)
    cases += _collision_cases()
    cases += _long_cases(rng)
    cases += _degenerate_cases(rng)
    cases += _bigsym_cases(rng, [6], [6], model_bip=False) if tier == "quick" else _bigsym_cases(rng, [6, 7], [6])
    cases += _intids_cases(rng)
    cases += _option_cases(rng)
    cases += _siglog_cases(rng, 50 if tier == "quick" else 150)
    cases += _attr_cases(rng)
    cases += _hist_cases(rng, 30 if tier == "quick" else 300)
    cases += _big_cases(rng, [12, 40] if tier == "quick" else [12, 40, 100])
    cases += _seq_cases(rng, 24 if tier == "quick" else 400)
    if tier == "quick":
        cases += _ring_cases(rng, [2, 3, 4, 5, 6], more=3)
        cases += _star_cases(rng, [2, 3])
        cases += _digraph_cases(rng, 150)
        nrand, msp, mrx = 360, 6, 5
    else:
        cases += _ring_cases(rng, [2, 3, 4, 5, 6, 7], big_forms=("uni", "cat", "pcat", "dimer"), more=8)
        cases += _star_cases(rng, [2, 3, 4])
        cases += _digraph_cases(rng, 1500)
        nrand, msp, mrx = 4000, 6, 5
    for k in range(nrand):
        view, st = CONFIGS[k % 3]
        cases.append(_random_case(rng, view, st, msp, mrx))
    rng.shuffle(cases)          # spread the expensive symmetric families over the Coq shards
    return cases


LEVEL_TEXT = ("Machine-checked proof (Coq, 60 theorems, closed under the global context) over an executable model of CRNCanonicalizer / "
              "CRNAutomorphism / WLCanonicalizer, the two network views and the analyzers' cached-view state, for ALL views: the canonical graph is the view relabelled by a bijection onto "
              "k+1..k+n (clause 1); a view renamed by a map injective on its nodes and presented in any other node/arc order gets the same "
              "minimal label and the identical canonical graph (clause 2: signature/label/initial partition equivariant, generic IR leaf "
              "enumeration equivariant, label string injective incl. decimal rendering, self-loops recovered from the refinement); equal "
              "canonical graphs force isomorphic views (clause 3); the minimal leaves are a duplicate-free enumeration of the structure-"
              "preserving self-maps, and so is the reference enumerator the VF2 tool is compared with (clause 4, counts); fuel sufficiency "
              "of search and refinement; every view of a network lies in the theorems' domain; clause 2 also on networks (closed form of the "
              "bipartite view; species view); the reported orbits of both tools are exactly the exchangeability classes (the slot-based "
              "union-find of _orbits_from_perms with its emptied slots and duplicated prefix positions is modelled and proved; so is the parent-dict "
              "union-find with path halving of CRNAutomorphism, independent of the order of the mappings; VF2 itself is an "
              "explicit, monitored premise). Also proved: the WL colour cells never split an orbit (any selection, any option) and the WL estimate "
              "never under-estimates the number of self-maps; integer_ids gives the identical canonical graph and makes clause 2 hold for EVERY "
              "species renaming (no view-id collision); for every attribute selection: clause 1, invariance of the minimal label / leaves / count "
              "under renaming and count >= number of selected-attribute self-maps (partial clauses 2 and 4); round 6: the selection's label is read back "
              "(C18_labelA_read), so for bipartite selections without 'label' that contain kind or bipartite, on loop-free views (every bipartite "
              "view without a view-id collision), clauses 2 and 4 hold IN FULL on the selected attributes (C18_attr_count_exact, "
              "C18_attr_orbits_exact, C18_attr_invariant_full, C18_net_attr_count_exact; species view: C18_spattr_count_exact on loop-free views); max_depth: early_stop=False certifies the exact answer and a bound >= |V| never stops early; a kept "
              "analyzer serves the current network after any sequence of mutating method calls (version cache of _CRNGraphBackend as a state "
              "machine = dirty flags, for every script; refuted for edits behind the hypergraph's back). The model is tied to the Python code on every run by comparing the view graph, every _refine "
              "argument/result, the canonical permutation and label string, all minimal leaves, orbits, canonical graph, the VF2 "
              "count/orbits and the decidable premises, on an exhaustive small scope plus seeded random, ring/star, long, adversarially "
              "named networks and one-object analysis sequences.")
LEVEL_NOTE = ("Trusted: Coq kernel + vm_compute; the hand-written model and the harness interning (rank in Python string order); "
              "networkx DiGraph/relabel_nodes semantics; VF2 as an enumerator of self-isomorphisms (explicit premise, monitored). "
              "Tested, not proved: the WL canonical relabelling (depends on digest values) is isomorphic to the view; blake2b digests do not "
              "collide. Known finding C18:view-id-collision: a species "
              "label equal to a reaction id merges two view nodes (refuted-style witness theorem).")
