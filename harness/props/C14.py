"""C14 — batching, parallelism and caching are operational only.

Case kinds (round 5: batch cases with "bench": the Benchmark facade over whole reactions; runtime/batch_jobs cases with "single" are evaluated by
the worker-process model)
  hist     history driven directly at batch_reactor._RuleApplier (stub `execute`):
           {"cache":bool,"max":int,"alloc":mode,"aseed":int,"ops":[["new",content,cyclic]|["app",i,j,inv]|["del",i]|["gc"]]}
  batch    BatchReactor.fit calls on one BatchReactor object:
           {"subs":[smiles],"calls":[{"rules":[rsmi],"robj":[pool index|None],"inv":bool}],"pool":[rsmi],
            "cache":bool,"max":int,"dedupe":bool,"alloc":mode,"aseed":int,"gc_each":bool,"exec":"real"|"stub"}
  cluster  BatchCluster.fit for every batch size vs one-shot:
           {"items":[[graph json, att]],"pre":k,"sizes":[0=None,1,..]}
  runtime  worker counts (modelled, not verified): {"what": "batch_jobs"|"validate"|"balance"|"syncrn", ...}
  crn      SynCRN.build serial vs parallel (max_workers 1, 2, 3) on the FULL event records (step, rule index, rule name,
           rule content, application index, reactant and product nodes, node ids), rule lists in which some rules cannot
           produce a task (arity > max_components) or match nothing, placed before rules that fire; see gen/c14_crn.py.
           The serial run's task/result table is replayed through the Gallina model of build (coq/model/C14_CrnModel.v).

Correspondence for hist/batch: the implementation run records the OBSERVED event trace (allocation addresses as
seen by `id()` inside batch_reactor, apply calls, reference drops, real deallocations) — see gen/c14_trace.py —
and the Gallina heap+cache machine (coq/model/C14_Model.v) replays exactly that trace.  Because the trace is only
known after the implementation has run, impl() leaves it in a side file under /verif/.work/C14-side/<pid of the
check>/<case hash>.json which coq_case() (called afterwards by harness.main in the parent process) reads.
"""
import hashlib
import json
import os
import random
import zlib

from ..coqrun import cN, cbool, clist, cpair, cnat, WORK
from ..tok import S

PID = "C14"
COQ_HEADER = ("From Coq Require Import NArith List Bool.\nImport ListNotations.\n"
              "From SK Require Import lib.Tok model.C14_Model model.C14_CrnModel model.C14_WorkersModel model.C14_BenchModel model.C14_InputsModel.\nLocal Open Scope N_scope.\n")
SHARD = 40
IMPL_TIMEOUT = 1500
COQ_TIMEOUT = 900
ALLOC_MODES = ["real", "lifo", "fifo", "min", "rand", "fresh"]


# ------------------------------------------------------------------ side channel impl -> coq_case

def _case_hash(case):
    return hashlib.sha1(json.dumps(case, sort_keys=True, default=str).encode()).hexdigest()[:20]


def _side_path(case, main_pid):
    d = os.path.join(WORK, "C14-side", str(main_pid))
    os.makedirs(d, exist_ok=True)
    return os.path.join(d, _case_hash(case) + ".json")


def _write_side(case, obj):
    import multiprocessing as mp
    main_pid = os.getppid() if mp.current_process().name != "MainProcess" else os.getpid()
    p = _side_path(case, main_pid)
    with open(p + ".tmp", "w") as f:
        json.dump(obj, f)
    os.replace(p + ".tmp", p)


def _read_side(case):
    p = _side_path(case, os.getpid())
    if not os.path.exists(p):
        return None
    with open(p) as f:
        obj = json.load(f)
    try:
        os.remove(p)
        os.rmdir(os.path.dirname(p))
    except OSError:
        pass
    return obj


def worker_init():
    import gc
    import logging
    logging.disable(logging.CRITICAL)
    # The check's workers are forked AFTER the whole case list was generated: every gc.collect() of a history / of the
    # tracer would traverse the inherited heap (all cases of the run), which made the thorough tier (10^4 cases) ~50x
    # slower per case than the quick tier.  Move everything inherited into the permanent generation once.
    gc.collect()
    gc.freeze()


# ------------------------------------------------------------------ stub reactor (Section variable `execute`)

def _stub(s, r, inv):
    """Cheap deterministic pseudo-chemistry: depends on the CONTENT only; different rules share products
    (so that _dedupe has work to do) and some applications give nothing."""
    h = zlib.crc32(("%s|%s|%d" % (s, r, inv)).encode())
    n = h % 4
    out = ["%s>%s>%d#%d" % (s, r, inv, i) for i in range(n)]
    if (h >> 3) % 3 == 0:
        out.insert(0, "%s:common%d" % (s, (h >> 5) % 2))
    if (h >> 7) % 5 == 0 and out:
        out.append(out[0])
    return out


# ------------------------------------------------------------------ implementation adapters

def _impl_hist(case):
    import gc
    import networkx as nx
    from synkit.Synthesis.Reactor import batch_reactor as br
    from ..gen.c14_trace import Tracer
    T = Tracer(mode=case["alloc"], rng=random.Random(case.get("aseed", 0)), stub=_stub).install()
    try:
        ap = br._RuleApplier("syn", strategy="bt", explicit_h=True, implicit_temp=False,
                             cache_enabled=case["cache"], cache_maxsize=case["max"])
        objs = []
        for op in case["ops"]:
            if op[0] == "new":
                g = nx.Graph()
                if op[2]:
                    g.graph["self"] = g          # reference cycle: only the cyclic GC can free it
                T.register(g, "O:%d" % op[1])
                objs.append(g)
                del g
            elif op[0] == "app":
                ap(objs[op[1]], objs[op[2]], op[3])
            elif op[0] == "del":
                T.release(T.oid_of(objs[op[1]]))
                objs[op[1]] = None
            elif op[0] == "gc":
                gc.collect()
        ex = T.export(ap)
        _fill_table(T, ex)
    finally:
        T.remove()
    _write_side(case, dict(trace=ex["trace"], table=ex["table"]))
    return [1, ex["papp"], ex["keys"] or []]


def _fill_table(T, ex):
    """Make the execute table total on every (content_s, content_r, inv) that was applied (a combination is
    missing only when the implementation answered from the cache without ever executing it)."""
    have = {tuple(k) for k, _ in ex["table"]}
    cont = {}
    n = 0
    for e in ex["trace"]:
        if e[0] == "A":
            cont[n] = e[2]
            n += 1
    for e in ex["trace"]:
        if e[0] == "P":
            k = (cont[e[1]], cont[e[2]], e[3])
            if k not in have:
                have.add(k)
                ex["table"].append([list(k), [T.rcode(x) for x in _execute_fresh(T, k)]])
    if T.table_conflict:
        raise RuntimeError("execute is not a function of the content: %r" % T.table_conflict[:3])


def _execute_fresh(T, k):
    s, r, inv = T.contents[k[0]], T.contents[k[1]], k[2]
    if T.stub is not None:
        return _stub(s, r, inv)
    return _single_rule(s[2:], r[2:], inv, T.cfg)


def _single_rule(smiles, rule, inv, cfg):
    """One rule on one substrate, outside any batch: a fresh SynReactor on fresh graphs."""
    from synkit.IO import smiles_to_graph, rsmi_to_its
    from synkit.Synthesis.Reactor.syn_reactor import SynReactor
    g = smiles_to_graph(smiles, drop_non_aam=False, use_index_as_atom_map=False)
    t = rsmi_to_its(rule, core=True)
    try:
        return list(SynReactor(substrate=g, template=t, invert=inv, strategy=cfg.get("strategy", "bt"),
                               explicit_h=cfg.get("explicit_h", True),
                               implicit_temp=cfg.get("implicit_temp", False)).smarts_list)
    except Exception:
        return []


def _run_batch(case, T):
    """Runs the fit calls of a batch case under tracer T; returns per call per entry the raw output lists."""
    from synkit.IO import rsmi_to_its
    from synkit.Synthesis.Reactor.batch_reactor import BatchReactor
    pool = []
    for r in case.get("pool", []):
        g = rsmi_to_its(r, core=True)
        if T is not None:
            T.register(g, "R:" + r)
        pool.append(g)
    if case.get("bench"):
        # the Benchmark facade: entries are reaction dicts; one fit call = forward over the reactant sides + backward over the product
        # sides on the SAME object (host_key re-pointed in between)
        from synkit.Synthesis.Reactor.benchmark import Benchmark
        data = [{"rx": s_, "row": i} for i, s_ in enumerate(case["subs"])]
        bm = Benchmark(data, "rx", cache_enabled=case["cache"], cache_maxsize=case["max"], dedupe=case["dedupe"],
                       strategy=case.get("strategy", "bt"), explicit_h=case.get("explicit_h", True),
                       implicit_temp=case.get("implicit_temp", False), enable_logging=True)
        assert len(bm) == len(data) and "Benchmark host_key" in bm.describe()
        outs = []
        for c in case["calls"]:
            rules = [pool[o] if o is not None else r for r, o in zip(c["rules"], c["robj"])]
            res = bm.fit(rules)
            assert len(res) == len(data) and all(a is b for a, b in zip(res, data))          # the caller's own dicts, in order
            assert all(d["fw_count"] == len(d["fw"]) and d["bw_count"] == len(d["bw"]) for d in res)
            assert all(d["rx"] == s_ and d["row"] == i and d["r"] + ">>" + d["p"] == s_ for i, (d, s_) in enumerate(zip(res, case["subs"])))
            outs.append([list(d["fw"]) for d in res])
            outs.append([list(d["bw"]) for d in res])
            del rules
        if T is not None:
            for g in pool:
                T.release(T.oid_of(g))
        return bm, outs, pool
    if case.get("dict_entries"):          # entries given as dicts with the SMILES under host_key (second positional parameter)
        data = [{"smi": s_, "row": i, "note": None} for i, s_ in enumerate(case["subs"])]
        br_ = BatchReactor(data, "smi", cache_enabled=case["cache"], cache_maxsize=case["max"],
                           dedupe=case["dedupe"], strategy=case.get("strategy", "bt"),
                           explicit_h=case.get("explicit_h", True), implicit_temp=case.get("implicit_temp", False))
    else:
        data = list(case["subs"])
        br_ = BatchReactor(data, cache_enabled=case["cache"], cache_maxsize=case["max"],
                           dedupe=case["dedupe"], strategy=case.get("strategy", "bt"),
                           explicit_h=case.get("explicit_h", True), implicit_temp=case.get("implicit_temp", False))
    # derived views of the batch object
    assert len(br_) == len(data) and list(br_) == data and all(br_[i] == data[i] for i in range(len(data)))
    assert ("entries         : %d" % len(data)) in br_.describe() and ("entries=%d" % len(data)) in repr(br_) and "fit(" in br_.help()
    outs = []
    for c in case["calls"]:
        rules = [pool[o] if o is not None else r for r, o in zip(c["rules"], c["robj"])]
        if c.get("tuple_rules"):          # any iterable of rules
            rules = tuple(rules)
        res = br_.fit(rules, invert=c["inv"])
        key = "syn_bw" if c["inv"] else "syn_fw"
        outs.append([list(d[key]) for d in res])
        assert all(d["count"] == len(d[key]) for d in res)
        del rules
    if T is not None:
        for g in pool:
            T.release(T.oid_of(g))
    return br_, outs, pool


def _impl_batch(case):
    from ..gen.c14_trace import Tracer
    T = Tracer(mode=case["alloc"], rng=random.Random(case.get("aseed", 0)),
               stub=_stub if case["exec"] == "stub" else None)
    T.gc_each = bool(case.get("gc_each"))
    T.cfg = case
    T.install()
    try:
        br_, outs, pool = _run_batch(case, T)
        ex = T.export(br_._apply_rule)
        _fill_table(T, ex)
        del pool
        outs_c = [[[T.rcode(x) for x in o] for o in call] for call in outs]
    finally:
        T.remove()
    _write_side(case, dict(trace=ex["trace"], table=ex["table"], contents=T.contents))
    return [1, 1, ex["papp"], ex["keys"] or [], outs_c]


# ---- clustering

def _iso_classes(graphs):
    """Independent reference: classes of isomorphism on (element, charge) / order, by networkx directly."""
    import networkx as nx
    from networkx.algorithms.isomorphism import categorical_node_match, categorical_edge_match
    nm = categorical_node_match(["element", "charge"], ["*", 0])
    em = categorical_edge_match("order", 1)
    reps, cls = [], []
    for g in graphs:
        for k, r in enumerate(reps):
            if nx.is_isomorphic(r, g, node_match=nm, edge_match=em):
                cls.append(k)
                break
        else:
            cls.append(len(reps))
            reps.append(g)
    return cls


def _cluster_graph(gj):
    import networkx as nx
    G = nx.Graph()
    for n, a in gj["nodes"]:
        G.add_node(n, **a)
    for u, v, a in gj["edges"]:
        a = dict(a)
        if isinstance(a.get("order"), list):
            a["order"] = tuple(a["order"])
        G.add_edge(u, v, **a)
    return G


def _cluster_runs(case):
    """For every requested batch size: (class list of the items after `pre`, classes of the final templates)."""
    from synkit.Graph.Matcher.batch_cluster import BatchCluster
    graphs = [_cluster_graph(g) for g, _ in case["items"]]
    atts = [a for _, a in case["items"]]
    pre = case.get("pre", 0)
    runs = []
    for b in case["sizes"]:
        bc = BatchCluster()
        data = [{"g": g, "att": (list(a) if isinstance(a, list) else a), "idx": i} for i, (g, a) in enumerate(zip(graphs, atts))]
        templates = []
        pre_classes = []
        if pre:
            d0, templates = bc.fit(data[:pre], [], "g", "att", batch_size=1)
            pre_classes = [d["class"] for d in d0]
        out, templates = bc.fit(data[pre:], templates, "g", "att", batch_size=(b or None))
        runs.append([pre_classes, [d["class"] for d in out], [t["class"] for t in templates],
                     [[t["idx"], t["class"]] for t in templates]])
    return graphs, runs


def _impl_cluster(case):
    graphs, runs = _cluster_runs(case)
    return [[r[0], r[1], S(r[2])] for r in runs]


# ---- runtime (worker counts)

def _runtime(case):
    """Worker-count comparisons run in a fresh, non-daemonic interpreter (the check's pool workers are daemonic
    and may not start process pools): harness/gen/c14_runtime.py."""
    import subprocess
    import sys
    r = subprocess.run([sys.executable, "-m", "harness.gen.c14_runtime"], input=json.dumps(case), text=True,
                       stdout=subprocess.PIPE, stderr=subprocess.PIPE, timeout=1200, cwd=os.path.dirname(WORK))
    if r.returncode != 0:
        raise RuntimeError("runtime helper failed: " + r.stderr[-1500:])
    return json.loads(r.stdout.strip().splitlines()[-1])


def _impl_runtime(case):
    vals = _runtime(case)
    base = json.dumps(vals[0][1], sort_keys=True, default=str)
    return [len(vals), [int(json.dumps(v, sort_keys=True, default=str) == base) for _, v in vals],
            zlib.crc32(base.encode()) % 1000003]


# ---- SynCRN.build: serial vs parallel on full event records

def _crn_exec(case):
    import subprocess
    import sys
    r = subprocess.run([sys.executable, "-m", "harness.gen.c14_crn"], input=json.dumps(case), text=True,
                       stdout=subprocess.PIPE, stderr=subprocess.PIPE, timeout=1200, cwd=os.path.dirname(WORK))
    if r.returncode != 0:
        raise RuntimeError("crn helper failed: " + r.stderr[-1500:])
    return json.loads(r.stdout.strip().splitlines()[-1])


def _runtime_result(case, consume):
    """like _crn_result, for the worker-count helper (validate / balance cases are evaluated by the model too)"""
    import time
    p = _crn_cache_path(case)
    if consume:
        if os.path.exists(p) and time.time() - os.path.getmtime(p) < 900:
            with open(p) as f:
                res = json.load(f)
            try:
                os.remove(p)
            except OSError:
                pass
            return res
        return _runtime(case)
    res = _runtime(case)
    with open(p + ".tmp", "w") as f:
        json.dump(res, f, default=str)
    os.replace(p + ".tmp", p)
    return json.loads(json.dumps(res, default=str))


def _crn_cache_path(case):
    d = os.path.join(WORK, "C14-side", "crn-%d" % os.getppid())
    os.makedirs(d, exist_ok=True)
    return os.path.join(d, _case_hash(case) + ".json")


def _crn_result(case, consume):
    """impl() always executes and leaves its result for the oracle of the same case (run right afterwards in the same
    worker pool); the oracle re-uses it when it is recent (both only read what the implementation did) and executes
    itself otherwise."""
    import time
    p = _crn_cache_path(case)
    if consume:
        if os.path.exists(p) and time.time() - os.path.getmtime(p) < 900:
            with open(p) as f:
                res = json.load(f)
            try:
                os.remove(p)
            except OSError:
                pass
            return res
        return _crn_exec(case)
    res = _crn_exec(case)
    with open(p + ".tmp", "w") as f:
        json.dump(res, f)
    os.replace(p + ".tmp", p)
    return res


def _crn_records(res):
    rank = {k: i for i, k in enumerate(res["trace"]["keys"])}
    out = []
    for lab, recs in res["runs"]:
        out.append([[[[n, rank[k]] for n, k in species],
                     [[n, step, ri, int(name == "r%d" % ri), cid, app, int(bool(ok)), rs, ps]
                      for n, step, ri, name, cid, app, ok, rs, ps in events]] for species, events in recs])
    return out


def _impl_crn(case):
    res = _crn_result(case, consume=False)
    _write_side(case, dict(trace=res["trace"]))
    return [_crn_records(res), res["trace"]["steps"]]


def impl(case):
    return {"hist": _impl_hist, "batch": _impl_batch, "cluster": _impl_cluster, "runtime": _impl_runtime,
            "crn": _impl_crn}[case["kind"]](case)


# ------------------------------------------------------------------ Gallina encoder

def _ev(e):
    if e[0] == "A":
        return "EAlloc %s %s" % (cN(e[1]), cN(e[2]))
    if e[0] == "P":
        return "EApply %s %s %s" % (cN(e[1]), cN(e[2]), cbool(e[3]))
    if e[0] == "R":
        return "ERelease %s" % cN(e[1])
    if e[0] == "C":
        return "ECollect %s" % cN(e[1])
    raise AssertionError(e)


def _table(tb):
    return clist([cpair(cpair(cpair(cN(k[0]), cN(k[1])), cbool(k[2])), clist([cN(x) for x in v])) for k, v in tb])


def _cfg(case):
    return "(mkCfg %s %s %s)" % (cbool(case["cache"]), cnat(min(case["max"], 4000)) if case["max"] < 4000 else "(N.to_nat %s)" % cN(case["max"]),
                                cbool(case.get("dedupe", True)))


def coq_case(case):
    k = case["kind"]
    if k == "runtime":
        if not _in_model(case):
            return None
        side = _read_side(case)
        if side is None:
            return "L []"
        if case["what"] == "batch_jobs":
            # contents: distinct substrate strings 0.., rule strings 100000..; the parent is modelled as having served the first two
            # entries serially before (a filled cache is pickled to the workers; by C14_fit_workers this changes nothing)
            sid = {}
            subs = [sid.setdefault(s_, len(sid)) for s_ in case["subs"]]
            rid = {}
            rules = [100000 + rid.setdefault(r, len(rid)) for r in case["rules"]]
            seen, tb = set(), []
            for si, ri, one in side["table"]:
                kk = (subs[si], rules[ri])
                if kk not in seen:
                    seen.add(kk)
                    tb.append([[kk[0], kk[1], case["inv"]], one])
            jobs = [j for j in case["jobs"] for _ in range(2 if case.get("twice") else 1)]
            cfg = "(mkCfg %s %s %s)" % (cbool(case.get("cache", True)), "(N.to_nat %s)" % cN(case.get("max", 32768)),
                                        cbool(case.get("opts", {}).get("dedupe", True)))
            return "run_batch_jobs %s %s %s %s %s %s %s" % (
                cfg, _table(tb), clist([cN(x) for x in rules]), clist([cN(x) for x in subs]), clist([cN(x) for x in subs[:2]]),
                cbool(case["inv"]), clist([cpair(cpair(cnat(nj), cbool(pr)), cnat(rj)) for nj, pr, rj in jobs]))
        jobs = clist([cnat(j) for j in case["jobs"]])
        if case["what"] == "validate":
            return "run_validate %s %s" % (jobs, clist([clist([cbool(x) for x in col]) for col in side["cols"]]))
        if case.get("form") == "mixed":
            kind = dict(str="IStr", dict="IDictWith", nokey="IDictWithout", other="IOther")
            return "run_balance_items %s %s" % (jobs, clist([cpair(kind[k_], cbool(x)) for k_, x in zip(side["kinds"], side["verdicts"])]))
        return "run_balance %s %s" % (jobs, clist([cbool(x) for x in side["verdicts"]]))
    if k == "cluster":
        graphs = [_cluster_graph(g) for g, _ in case["items"]]
        cls = _iso_classes(graphs)
        amap = {}
        items = []
        for c, (_, a) in zip(cls, case["items"]):
            ka = json.dumps(sorted(a) if isinstance(a, list) else a)
            amap.setdefault(ka, len(amap))
            items.append(cpair(cN(c), cN(amap[ka])))
        return "run_cluster %s %s %s" % (clist(items), cnat(case.get("pre", 0)), clist([cnat(b) for b in case["sizes"]]))
    if k == "crn":
        side = _read_side(case)
        if side is None:
            return "L []"
        t = side["trace"]
        rank = {key: i for i, key in enumerate(t["keys"])}
        rules = list(case["rules"])
        cid = [rules.index(r) for r in rules]
        if any(not same for _, _, _, same in t["table"]):
            return "L []"                # a result that does not carry its task's (index, mixture): never equals the impl
        cfg = "(CrnCfg %s %s %s %s %s %s %s %s %s %s)" % (
            clist([cpair(cnat(a), cN(c)) for a, c in zip(t["arity"], cid)]), cnat(case["repeats"]),
            cnat(case.get("max_components", 3)), cbool(case.get("use_frontier", True)),
            cbool(case.get("dedup_across_rules", False)),
            cN(50000 if case.get("max_mix") is None else case["max_mix"]),
            cN(200000 if case.get("max_tasks") is None else case["max_tasks"]),
            cbool(case.get("skip_no_change", True)), cbool(case.get("allow_empty_side", False)), cbool(case.get("dedup_delta", True)))
        tb = clist([cpair(cpair(cN(cid[ti]), clist([cN(rank[x]) for x in tm])),
                          clist([clist([cN(rank[x]) for x in m]) for m in mixes])) for ti, tm, mixes, _ in t["table"]])
        seeds = clist([clist([("None" if x is None else "(Some %s)" % cN(rank[x])) for x in row]) for row in t["seeds"]])
        runs = clist([cpair(cbool(False), cnat(0))] + [cpair(cbool(True), cnat(w)) for w in case["workers"]])
        return "run_crn %s %s %s %s" % (cfg, tb, seeds, runs)
    side = _read_side(case)
    if side is None:
        return "L []"
    tr = clist([_ev(e) for e in side["trace"]])
    tb = _table(side["table"])
    if k == "hist":
        return "run_hist %s %s %s" % (_cfg(case), tb, tr)
    # batch: the program description
    cont = {s: i for i, s in enumerate(side["contents"])}
    if case.get("bench"):
        fits = []
        for c in case["calls"]:
            rs = clist([("RObj %s" % cN(o)) if o is not None else ("RStr %s" % cN(cont["R:" + r])) for r, o in zip(c["rules"], c["robj"])])
            # (a side the implementation never turned into a graph has no content number: 999999999 never equals one)
            fits.append(cpair(cpair(rs, clist([cN(cont.get("S:" + s_.split(">>", 1)[0], 999999999)) for s_ in case["subs"]])),
                              clist([cN(cont.get("S:" + s_.split(">>", 1)[1], 999999999)) for s_ in case["subs"]])))
        return "run_bench %s %s %s %s %s" % (_cfg(case), tb, clist([cN(cont["R:" + r]) for r in case.get("pool", [])]), clist(fits), tr)
    pool = clist([cN(cont["R:" + r]) for r in case.get("pool", [])])
    calls = []
    for c in case["calls"]:
        rs = clist([("RObj %s" % cN(o)) if o is not None else ("RStr %s" % cN(cont["R:" + r]))
                    for r, o in zip(c["rules"], c["robj"])])
        calls.append(cpair(rs, cbool(c["inv"])))
    subs = clist([cN(cont["S:" + s]) for s in case["subs"]])
    return "run_batch %s %s %s %s %s %s" % (_cfg(case), tb, pool, subs, clist(calls), tr)


# ------------------------------------------------------------------ property oracle (never calls the model)

def _dedupe_ref(xs):
    return list(dict.fromkeys(xs))


def _oracle_hist(case):
    """Every answer of the applier equals a fresh execution on the same two objects."""
    import gc
    import networkx as nx
    from synkit.Synthesis.Reactor import batch_reactor as br
    from ..gen.c14_trace import Tracer
    T = Tracer(mode=case["alloc"], rng=random.Random(case.get("aseed", 0)), stub=_stub).install()
    fails = []
    try:
        ap = br._RuleApplier("syn", strategy="bt", explicit_h=True, implicit_temp=False,
                             cache_enabled=case["cache"], cache_maxsize=case["max"])
        objs, cont = [], []
        for t, op in enumerate(case["ops"]):
            if op[0] == "new":
                g = nx.Graph()
                if op[2]:
                    g.graph["self"] = g
                T.register(g, "O:%d" % op[1])
                objs.append(g)
                cont.append("O:%d" % op[1])
                del g
            elif op[0] == "app":
                got = ap(objs[op[1]], objs[op[2]], op[3])
                want = _stub(cont[op[1]], cont[op[2]], op[3])
                if list(got) != want:
                    fails.append(dict(clause="cache-transparent",
                                      detail="op %d %r: applier returned %r, executing the rule on these objects gives %r"
                                      % (t, op, got, want)))
                    break
            elif op[0] == "del":
                T.release(T.oid_of(objs[op[1]]))
                objs[op[1]] = None
            elif op[0] == "gc":
                gc.collect()
    finally:
        T.remove()
    return fails


def _virtual_calls(case):
    """the (rules, direction, entry strings) of every BatchReactor.fit the case performs, in order (a Benchmark.fit = two of them)"""
    out = []
    for c in case["calls"]:
        if case.get("bench"):
            out.append((c["rules"], False, [s_.split(">>", 1)[0] for s_ in case["subs"]]))
            out.append((c["rules"], True, [s_.split(">>", 1)[1] for s_ in case["subs"]]))
        else:
            out.append((c["rules"], c["inv"], list(case["subs"])))
    return out


def _oracle_batch(case):
    """BatchReactor.fit output per entry == what the SAME reactor configuration returns for that entry ALONE: the literal reference is a
    fresh single-entry batch (cache off) asked through the same public API, under the same allocator / stub as the batch.  (How a single
    entry's answer is assembled from the rules - flatten in rule order, first-occurrence de-duplication - is the MODEL's business: a drift
    there shows up as a correspondence break, not as a property failure.)"""
    from ..gen.c14_trace import Tracer
    stub = case["exec"] == "stub"
    # the batch as a user runs it: real id(), real GC when alloc == "real"; the adversarial allocator otherwise
    T = Tracer(mode=case["alloc"], rng=random.Random(case.get("aseed", 0)), stub=_stub if stub else None)
    T.gc_each = bool(case.get("gc_each"))
    T.cfg = case
    T.install()
    refs = {}
    try:
        _, outs, pool = _run_batch(case, T)
        del pool
        from synkit.Synthesis.Reactor.batch_reactor import BatchReactor
        for rules_, inv_, subs_ in _virtual_calls(case):
            for s in subs_:
                k = (s, tuple(rules_), inv_)
                if k not in refs:
                    one = BatchReactor([s], cache_enabled=False, dedupe=case["dedupe"], strategy=case.get("strategy", "bt"),
                                       explicit_h=case.get("explicit_h", True), implicit_temp=case.get("implicit_temp", False))
                    r1 = one.fit(list(rules_), invert=inv_)
                    refs[k] = list(r1[0]["syn_bw" if inv_ else "syn_fw"])
    finally:
        T.remove()
    fails = []
    for ci, ((rules_, inv_, subs_), call_out) in enumerate(zip(_virtual_calls(case), outs)):
        for ei, (s, got) in enumerate(zip(subs_, call_out)):
            want = refs[(s, tuple(rules_), inv_)]
            if got != want:
                fails.append(dict(clause="batch-equals-single",
                                  detail="%scall %d entry %d (%s, %s): batch gave %d result(s) %r..., the entry alone (single-entry batch, cache off) gives %d %r..."
                                  % ("Benchmark: fit " if case.get("bench") else "", ci, ei, s[:60], "backward" if inv_ else "forward",
                                     len(got), got[:2], len(want), want[:2])))
                if len(fails) >= 3:
                    return fails
    return fails


def _partition(classes):
    d = {}
    for i, c in enumerate(classes):
        d.setdefault(c, []).append(i)
    return sorted(d.values())


def _oracle_cluster(case):
    graphs, runs = _cluster_runs(case)
    fails = []
    base = None
    for b, (prec, cl, tcl, tmpl) in zip(case["sizes"], runs):
        full = list(prec) + list(cl)
        if None in full:
            fails.append(dict(clause="cluster-total", detail="batch_size=%r left an item unclassified" % b))
            continue
        p = _partition(full)
        if base is None:
            base = (b, p)
        elif p != base[1]:
            fails.append(dict(clause="cluster-batches",
                              detail="batch_size=%r gives partition %r, batch_size=%r gives %r" % (b, p, base[0], base[1])))
        if sorted(set(tcl)) != sorted(set(full)) or len(tcl) != len(set(tcl)):
            fails.append(dict(clause="cluster-templates",
                              detail="batch_size=%r: template classes %r vs item classes %r" % (b, tcl, sorted(set(full)))))
        for idx, c in tmpl:
            if full[idx] != c:
                fails.append(dict(clause="cluster-templates", detail="template of item %d carries class %r, item has %r" % (idx, c, full[idx])))
    return fails[:3]


def _in_model(case):
    """worker-count cases the Gallina models evaluate: validate / balance (rows-parallel model) and the batch_jobs cases that carry
    the single-entry reference (worker-process model, coq/model/C14_WorkersModel.v)"""
    return case["what"] in ("validate", "balance") or (case["what"] == "batch_jobs" and bool(case.get("single")))


def _oracle_runtime(case):
    vals = _runtime_result(case, consume=True) if _in_model(case) else _runtime(case)
    vals = [[lab, v] for lab, v in vals if lab not in ("__ref__", "__table__")]
    base = json.dumps(vals[0][1], sort_keys=True, default=str)
    fails = []
    if case["what"] == "validate":
        for lab, v in vals:
            for col in v:
                n_ = len(col["results"])
                if n_ and abs(float(col["accuracy"]) - 100.0 * sum(1 for x in col["results"] if x) / n_) > 0.006:
                    fails.append(dict(clause="validate-accuracy", detail="%s: accuracy %r but results %r" % (lab, col["accuracy"], col["results"])))
    for lab, v in vals[1:]:
        if json.dumps(v, sort_keys=True, default=str) != base:
            fails.append(dict(clause="workers-" + case["what"],
                              detail="%s differs from %s%s" % (lab, vals[0][0], _first_diff(vals[0][1], v))))
    return fails[:3]


def _first_diff(a, b, path=""):
    """where two JSON values differ first (for the failure report)"""
    if isinstance(a, list) and isinstance(b, list):
        if len(a) != len(b):
            return " at %s: %d vs %d elements" % (path or "top", len(a), len(b))
        for i, (x, y) in enumerate(zip(a, b)):
            if x != y:
                return _first_diff(x, y, "%s[%d]" % (path, i))
        return ""
    if isinstance(a, dict) and isinstance(b, dict):
        for k in sorted(set(a) | set(b), key=str):
            if a.get(k) != b.get(k):
                return _first_diff(a.get(k), b.get(k), "%s[%r]" % (path, k))
        return ""
    return " at %s: %s vs %s" % (path or "top", json.dumps(a, default=str)[:160], json.dumps(b, default=str)[:160])


def oracle(case):
    k = case["kind"]
    if k == "runtime":
        return []          # impl() already ran every worker count; nontrivial()/verdict below use its observable
    return {"hist": _oracle_hist, "batch": _oracle_batch, "cluster": _oracle_cluster}[k](case)


def _impl_runtime(case):      # noqa: F811
    """batch_jobs / syncrn: the oracle runs the worker counts, nothing to compare with a model.  validate / balance: the
    per-row results of every worker count, compared with the rows-parallel model fed with the single-row verdicts."""
    if case["what"] == "validate":
        vals = _runtime_result(case, consume=False)
        ref = [v for lab, v in vals if lab == "row-by-row check_pair"][0]
        _write_side(case, dict(cols=[[bool(x) for x in col["results"]] for col in ref]))
        return [[[[bool(x) for x in col["results"]], sum(1 for x in col["results"] if x), len(col["results"])] for col in v]
                for lab, v in vals if lab.startswith("n_jobs=")]
    if case["what"] == "balance":
        vals = _runtime_result(case, consume=False)
        ref = [v for lab, v in vals if lab == "__ref__"][0]
        _write_side(case, dict(verdicts=[bool(x) for x in ref], kinds=[d.get("kind") for d in case["data"]]))
        # a returned row is identified by its record number "n" (unique per row; the same reaction occurs in several rows) and reported
        # as the POSITION of that row in the input; string forms: rows are identified by their (distinct) reaction
        posn = {d["n"]: i for i, d in enumerate(case["data"])}
        posr = {d["reactions"]: i for i, d in enumerate(case["data"]) if d.get("kind", "str") == "str"}
        row = lambda d: posn.get(d["n"], -1) if "n" in d else posr.get(d["reactions"], -1)
        return [[[row(d) for d in v[0]], [row(d) for d in v[1]]] for lab, v in vals if lab.startswith("n_jobs=")]
    if _in_model(case):
        # batch_jobs with the single-entry reference: per worker configuration (and per fit call) the per-entry outputs as result
        # codes; the execute table of the worker model = the single-entry, single-rule results
        vals = _runtime_result(case, consume=False)
        table = [v for lab, v in vals if lab == "__table__"][0]
        codes = {}
        tb = [[si, ri, [codes.setdefault(x, len(codes)) for x in one]] for si, ri, one in table]
        key = "syn_bw" if case["inv"] else "syn_fw"
        obs = []
        for lab, v in vals:
            if lab.startswith("entry_jobs="):
                for res in (v if case.get("twice") else [v]):
                    obs.append([1, [[codes.setdefault(x, len(codes)) for x in d[key]] for d in res]])
        _write_side(case, dict(table=tb))
        return obs
    return [0]


def _oracle_crn(case):
    """parallel expansion == serial expansion, on everything a user can read off the network: species nodes, event nodes
    with step / rule index / rule name / rule content / application index / label, reactant and product arcs; and every
    event names the rule whose content it carries."""
    res = _crn_result(case, consume=True)
    rules = list(case["rules"])
    base_lab, base = res["runs"][0]
    fails = []
    for lab, recs in res["runs"]:
        for rec in recs:
            for n, step, ri, name, cid, app, ok, rs, ps in rec[1]:
                if not (0 <= ri < len(rules)) or name != "r%d" % ri or cid != rules.index(rules[ri]) or not ok:
                    fails.append(dict(clause="crn-event-rule", detail="%s: event node %d (step %d) says rule_index=%r rule_name=%r "
                                      "but carries the content of rule %r (label/arcs consistent: %r)" % (lab, n, step, ri, name, cid, ok)))
                    break
    for lab, recs in res["runs"][1:]:
        for b, (rb, rp) in enumerate(zip(base, recs)):
            if rp != rb:
                ev_b, ev_p = rb[1], rp[1]
                d = next((i for i, (a, b_) in enumerate(zip(ev_b, ev_p)) if a != b_), min(len(ev_b), len(ev_p)))
                fails.append(dict(clause="workers-syncrn-events",
                                  detail="%s differs from %s after build call %d: %d/%d species, %d/%d events; first differing event: serial %r, parallel %r"
                                  % (lab, base_lab, b + 1, len(rp[0]), len(rb[0]), len(ev_p), len(ev_b),
                                     ev_b[d] if d < len(ev_b) else None, ev_p[d] if d < len(ev_p) else None)))
                break
    return fails[:3]


def oracle(case):             # noqa: F811
    return {"hist": _oracle_hist, "batch": _oracle_batch, "cluster": _oracle_cluster,
            "runtime": _oracle_runtime, "crn": _oracle_crn}[case["kind"]](case)


# ------------------------------------------------------------------ generators

def _corpus():
    """(uspto reactions [explicit-H centres], ecoli reactions [implicit]) as reaction SMILES strings."""
    from synkit.IO.data_io import load_from_pickle
    us = [d["smart"] for d in load_from_pickle("/repo/Data/Testcase/graph.pkl.gz")]
    ec = [d["smart"] for d in json.load(open("/repo/Data/ecoli.json.gz"))]
    ec = [r for r in ec if all(p for side in r.split(">>") for p in side.split("."))]
    return us, ec


def _rewrite(smiles, rng, keep_maps=True):
    """Same molecule, different text: PRNG atom permutation + non-canonical writer (never doRandom)."""
    from rdkit import Chem
    m = Chem.MolFromSmiles(smiles, sanitize=False)
    if m is None:
        return smiles
    perm = list(range(m.GetNumAtoms()))
    rng.shuffle(perm)
    m2 = Chem.RenumberAtoms(m, perm)
    if not keep_maps:
        for a in m2.GetAtoms():
            a.SetAtomMapNum(0)
    return Chem.MolToSmiles(m2, canonical=False)


def _gen_hist(rng, nops, maxes=(1, 2, 3, 8, 32768), modes=ALLOC_MODES):
    ops = [["new", rng.randrange(4), rng.random() < 0.3], ["new", 10 + rng.randrange(3), False]]
    live = [0, 1]
    nobj = 2
    recent = []
    while len(ops) < nops:
        z = rng.random()
        if (z < 0.22 and len(live) < 7) or len(live) < 2:
            c = rng.randrange(4) if rng.random() < 0.7 else 10 + rng.randrange(3)
            ops.append(["new", c, rng.random() < 0.3])
            live.append(nobj)
            nobj += 1
        elif z < 0.72:
            if recent and rng.random() < 0.45:
                i, j, inv = rng.choice(recent)
                if i not in live or j not in live:
                    continue
                if rng.random() < 0.2:
                    inv = not inv
            else:
                i, j, inv = rng.choice(live), rng.choice(live), rng.random() < 0.3
            ops.append(["app", i, j, inv])
            recent = (recent + [(i, j, inv)])[-4:]
        elif z < 0.9:
            i = rng.choice(live)
            live.remove(i)
            ops.append(["del", i])
            if rng.random() < 0.5:
                ops.append(["gc"])
        else:
            ops.append(["gc"])
    return dict(kind="hist", cache=rng.random() < 0.92, max=rng.choice(maxes), alloc=rng.choice(modes),
                aseed=rng.randrange(1 << 30), ops=ops)


def _exh_hist():
    """Every history of <= 4 further operations after [new a; new r; app(0,1)] over a small alphabet,
    for cache sizes 1 and 2 under the most adversarial allocator (address handed out again at once)."""
    out = []
    pre = [["new", 0, False], ["new", 10, False], ["app", 0, 1, False]]

    def rec(ops, live, nobj, depth):
        if depth == 0:
            return
        cand = []
        if nobj < 4:
            cand.append(["new", 1 if nobj == 2 else 0, False])
        for i in live:
            if i != 1:
                cand.append(["del", i])
        subs = [i for i in live if i != 1][-2:]
        for i in subs:
            cand.append(["app", i, 1, False])
        if subs:
            cand.append(["app", subs[-1], 1, True])
            cand.append(["app", subs[-1], subs[-1], False])
        for op in cand:
            nl, nn = list(live), nobj
            if op[0] == "new":
                nl.append(nobj)
                nn += 1
            elif op[0] == "del":
                nl.remove(op[1])
            o2 = ops + [op]
            if op[0] == "app":
                out.append(o2)
            rec(o2, nl, nn, depth - 1)
    rec(pre, [0, 1], 2, 4)
    cases = []
    for ops in out:
        for mx in (1, 2):
            cases.append(dict(kind="hist", cache=True, max=mx, alloc="lifo", aseed=0, ops=ops))
    return cases


def _gen_batch(rng, us, ec, exec_, n_entries, n_rules, ncalls=1, modes=ALLOC_MODES, maxes=(1, 2, 8, 32768), implicit=False):
    src = ec if implicit else us
    idx = [rng.randrange(len(src)) for _ in range(max(2, n_entries // 2))]
    subs = []
    for _ in range(n_entries):
        i = rng.choice(idx)
        s = src[i].split(">>")[0]
        z = rng.random()
        if z < 0.3:
            s = _rewrite(s, rng, keep_maps=True)          # look-alike: same molecule, other text
        elif z < 0.4:
            s = src[i].split(">>")[1]                      # product side (for backward calls)
        subs.append(s)
    rules_all = [src[i] for i in idx[:max(1, n_rules)]]
    pool = []
    calls = []
    for _ in range(ncalls):
        rs = [rng.choice(rules_all) for _ in range(n_rules)]
        robj = []
        for r in rs:
            if rng.random() < 0.35:
                if r in pool and rng.random() < 0.7:
                    robj.append(pool.index(r))
                else:
                    pool.append(r)
                    robj.append(len(pool) - 1)
            else:
                robj.append(None)
        if n_rules >= 2 and rng.random() < 0.4:             # the same rule OBJECT twice: the only legitimate cache hits
            if robj[0] is None:
                pool.append(rs[0])
                robj[0] = len(pool) - 1
            rs[-1], robj[-1] = rs[0], robj[0]
        calls.append(dict(rules=rs, robj=robj, inv=rng.random() < 0.3))
    c = dict(kind="batch", subs=subs, calls=calls, pool=pool, cache=rng.random() < 0.85, max=rng.choice(maxes),
             dedupe=rng.random() < 0.8, alloc=rng.choice(modes), aseed=rng.randrange(1 << 30),
             gc_each=rng.random() < 0.5, exec=exec_)
    if rng.random() < 0.3:
        c["dict_entries"] = True
    if exec_ == "real" and not implicit and rng.random() < 0.4:
        c["strategy"] = rng.choice(["comp", "all"])
    for cl in calls:
        if rng.random() < 0.2:
            cl["tuple_rules"] = True
    if implicit:
        c.update(explicit_h=False, implicit_temp=True)
    return c


def _gen_cluster(rng, us_graphs, n, allsizes):
    from ..gen import graphs as G
    listatt = rng.random() < 0.35
    base = [rng.choice(us_graphs) for _ in range(max(2, n // 3))]
    items = []
    for _ in range(n):
        g = rng.choice(base)
        z = rng.random()
        if z < 0.5:
            g = G.shuffle_insertion(G.random_relabel(g, rng, 1, 40), rng)
        elif z < 0.7:                                           # near miss: one label / order changed
            g = json.loads(json.dumps(g))
            if rng.random() < 0.5 or not g["edges"]:
                nd = rng.choice(g["nodes"])
                if rng.random() < 0.5:
                    nd[1]["element"] = rng.choice(["C", "N", "O", "S"])
                else:
                    nd[1]["charge"] = rng.choice([-1, 0, 1])
            else:
                e = rng.choice(g["edges"])
                e[2]["order"] = rng.choice([[1, 2], [2, 1], [0, 1], [1, 0], [1.5, 1]])
        att = "".join(sorted(a["element"] for _, a in g["nodes"])) + "/%d" % len(g["edges"])
        if listatt:                                            # list-valued attribute in NODE ORDER: a multiset
            att = [a["element"] for _, a in g["nodes"]]
        elif rng.random() < 0.1:
            att = "same"                                       # degenerate pre-grouping (still iso-invariant)
        items.append([g, att])
    pre = rng.choice([0, 0, rng.randrange(1, max(2, n // 2))])
    rest = n - pre
    sizes = [0] + (list(range(1, rest + 2)) if allsizes else sorted(set([1, 2, 3, rest - 1, rest, rest + 1, rng.randrange(1, rest + 1)]) - {0, -1}))
    return dict(kind="cluster", items=items, pre=pre, sizes=sizes)


def _runtime_cases(tier, rng, us, ec):
    q = tier == "quick"
    cases = []
    i0 = rng.randrange(len(us) - 12)
    rx = us[i0:i0 + (6 if q else 12)]
    jobs = [[1, False, 1], [2, False, 1], [3, False, 1], [8, False, 1], [1, True, 2]] if q else \
        [[k, False, 1] for k in range(1, 9)] + [[1, True, 2], [1, True, 5], [2, True, 2]]
    cases.append(dict(kind="runtime", what="batch_jobs", subs=[r.split(">>")[0] for r in rx], rules=rx[:3], inv=False, jobs=jobs, single=True))
    # every option of the reactor must reach the worker processes: the four explicit_h / implicit_temp combinations (they give four different
    # answers on templates written with explicit hydrogens), strategy, dedupe, direction, cache off / tiny, dict entries, a second fit
    # on the same object; each compared with the serial run AND with every entry alone (SynReactor rule by rule)
    hsubs = list(H_SUBS)
    rng.shuffle(hsubs)
    wj = [[1, False, 1], [2, False, 1], [3, False, 1], [1, True, 2]]
    for k, (eh, it) in enumerate([(False, False), (False, True), (True, False), (True, True)]):
        if not q or k < 3 or rng.random() < 0.3:
            cases.append(dict(kind="runtime", what="batch_jobs", subs=hsubs if k % 2 else hsubs[::-1], rules=list(H_RULES), inv=False, jobs=wj if not q else wj[:1] + [rng.choice(wj[1:3]), wj[3]],
                              opts=dict(explicit_h=eh, implicit_temp=it), single=True, dict_entries=bool(k == 1), twice=bool(k == 0)))
    cases.append(dict(kind="runtime", what="batch_jobs", subs=[r.split(">>")[0] for r in rx[:4]] + [rx[0].split(">>")[1]], rules=rx[:2], inv=rng.random() < 0.5,
                      jobs=[[1, False, 1], [2, False, 1], [1, True, 2]], single=True, cache=rng.random() < 0.5, max=1,
                      opts=dict(strategy=rng.choice(["comp", "all"]), dedupe=False)))
    def vdata(n, off, bad_gt=True):
        data = []
        for k in range(n):
            r = us[(i0 + off + k) % len(us)]
            alt = us[(i0 + off + k + 1) % len(us)]
            data.append(dict(gt=r, m1=r, m2=alt if rng.random() < 0.5 else r))
        # failing entries in the MIDDLE of the list: a mapped reaction that does not parse, an empty one, a ground truth
        # RDKit refuses (each is answered False by the serial code; every worker count must put the False at the same place)
        mid = len(data) // 2
        if n >= 4:
            data[mid]["m1"] = "not_a_smiles>>C"
            data[mid - 1]["m2"] = ""
            if bad_gt:              # (with ignore_tautomers=False an unusable ground truth makes every worker count raise alike)
                data[mid + 1]["gt"] = "C(C)(C)(C)(C)C>>CC"
        return data
    # table sizes around 8 rows per worker (a realistic place for a "send slices to the workers" shortcut), plus tiny tables
    if q:
        cases.append(dict(kind="runtime", what="validate", data=vdata(34, 0), jobs=[1, 2, 4]))
        cases.append(dict(kind="runtime", what="validate", data=vdata(25, 7), jobs=[1, 3]))
        cases.append(dict(kind="runtime", what="validate", data=vdata(17, 3, False), jobs=[1, 2], opts=dict(ignore_aromaticity=True, ignore_tautomers=False)))
        cases.append(dict(kind="runtime", what="validate", data=vdata(9, 11), jobs=[1, 2, 5], method="ITS"))
        cases.append(dict(kind="runtime", what="validate", data=vdata(1, 5), jobs=[1, 2]))
        cases.append(dict(kind="runtime", what="validate", data=vdata(11, 2), jobs=[1, 3], form="df"))     # pandas DataFrame input
        # (an empty table raises ValueError in mapping_success_rate for every worker count alike: not a case)
    else:
        cases.append(dict(kind="runtime", what="validate", data=vdata(23, 2), jobs=[1, 2, 3], form="df"))
        cases.append(dict(kind="runtime", what="validate", data=vdata(70, 0), jobs=list(range(1, 9))))
        cases.append(dict(kind="runtime", what="validate", data=vdata(33, 9), jobs=[1, 2, 3, 4], method="ITS"))
        cases.append(dict(kind="runtime", what="validate", data=vdata(17, 3, False), jobs=[1, 2], opts=dict(ignore_aromaticity=True, ignore_tautomers=False)))
        cases.append(dict(kind="runtime", what="validate", data=vdata(1, 5), jobs=[1, 2]))
    bd = [dict(reactions=r, n=i) for i, r in enumerate(ec[:(40 if q else 150)])]
    for i in range(0, len(bd), 4):                              # unbalance every fourth reaction
        bd[i]["reactions"] = bd[i]["reactions"].split(">>")[0] + ">>" + bd[(i + 1) % len(bd)]["reactions"].split(">>")[1]
    mid = len(bd) // 2 + 1                                      # malformed / unparsable entries in the middle
    bd[mid]["reactions"] = "not_a_smiles>>C"
    bd[mid + 2]["reactions"] = "C(C)(C)(C)(C)C>>CC"
    bd[mid + 3]["reactions"] = ">>"
    # the same reaction string in several rows whose OTHER columns differ (record number, source): every row must come back with its
    # own columns (a parallel path that shares work between equal reactions must not share the rows)
    nb = len(bd)
    rep = [bd[j]["reactions"] for j in (0, 1, 2, mid, 5, 1, 0, mid + 3, 9, 2)]          # balanced, unbalanced and malformed ones
    for k, r in enumerate(rep):
        bd.insert(3 + 4 * k, dict(reactions=r, n=nb + k))
    for i, d in enumerate(bd):
        d["src"] = "db%d" % (i % 3)
    cases.append(dict(kind="runtime", what="balance", data=bd, jobs=[1, 2, 3, 4] if q else list(range(1, 9)), second_pass=True))
    cases.append(dict(kind="runtime", what="balance", data=bd[:1], jobs=[1, 2]))
    seen_r, distinct = set(), []
    for d in bd:
        if d["reactions"] not in seen_r:
            seen_r.add(d["reactions"])
            distinct.append(dict(reactions=d["reactions"], n=d["n"]))
    cases.append(dict(kind="runtime", what="balance", data=distinct[:12], jobs=[1, 2, 3], form="strings"))
    cases.append(dict(kind="runtime", what="balance", data=distinct[1:2], jobs=[1, 2], form="string"))
    # parse_input's item kinds mixed in one list: strings, dicts with the key, dicts without it, foreign values (the last two are skipped)
    mixed = []
    for i, d in enumerate(distinct[:14] if q else distinct[:40]):
        mixed.append(dict(reactions=d["reactions"], n=i, kind=["dict", "str", "nokey", "dict", "other", "str", "dict"][(i + i0) % 7]))
    cases.append(dict(kind="runtime", what="balance", data=mixed, jobs=[1, 2, 3], form="mixed"))
    cases.append(dict(kind="runtime", what="balance", data=[], jobs=[1, 2]))
    cases.append(dict(kind="runtime", what="syncrn",
                      rules=["[C:1][OH:2]>>[C:1]=[O:2]" if False else "[CH2:1][OH:2].[O:3]=[C:4][OH:5]>>[CH2:1][O:5][C:4]=[O:3].[OH2:2]",
                             "[CH:1]=[O:2].[NH2:3]>>[CH:1]=[N:3].[OH2:2]"],
                      seeds=["CCO", "CC(=O)O", "OCCO", "NCC=O"][:(3 if q else 4)], repeats=2 if q else 3,
                      jobs=[[False, None], [True, 2], [True, 4]] if q else [[False, None]] + [[True, k] for k in (1, 2, 3, 4, 6, 8)]))
    return cases


H_RULES = [           # templates written with explicit hydrogens: the hydrogen options change what they produce
    "[CH3:1][C:2](=[O:3])[O:4][H:7].[CH3:5][O:6][H:8]>>[CH3:1][C:2](=[O:3])[O:6][CH3:5].[H:7][O:4][H:8]",
    "[C:1][Br:2].[H:4][O:3][H:5]>>[C:1][O:3][H:5].[Br:2][H:4]",
    "[C:1]=[C:2].[H:3][H:4]>>[C:1]([H:3])[C:2][H:4]",
]
H_SUBS = ["CC(=O)O.OCC", "CCBr.O", "OC(=O)CCBr.O.CO", "CC(=O)O.OCC", "BrCC=C.O", "C=CC.[HH]"]


CRN_RULES = {
    "R3": "[CH:1]=[O:2].[NH2:3].[CH3:4]>>[CH:1]([NH:3])[CH2:4].[OH2:2]",               # three components
    "E": "[CH2:1][OH:2].[O:3]=[C:4][OH:5]>>[CH2:1][O:5][C:4]=[O:3].[OH2:2]",           # esterification
    "I": "[CH:1]=[O:2].[NH2:3]>>[CH:1]=[N:3].[OH2:2]",                                 # imine formation
    "D": "[CH3:1][CH2:2][OH:3]>>[CH2:1]=[CH2:2].[OH2:3]",                              # dehydration (one component)
    "X": "[SH:1][CH3:2].[Cl:3][CH3:4]>>[CH3:2][S:1][CH3:4].[ClH:3]",                   # matches nothing in the seeds
    "X1": "[SH:1][CH3:2]>>[S:1]=[CH2:2]",                                              # one component, matches nothing
    "A": "[CH2:1][NH2:2].[O:3]=[C:4][OH:5]>>[CH2:1][NH:2][C:4]=[O:3].[OH2:5]",         # amide formation
}
CRN_SEEDS = ["CCO", "CC(=O)O", "OCCO", "NCC=O", "CC=O", "NCCO", "CCN", "OC(=O)CO"]
CRN_FIXED = [
    # (rules, max_components, repeats): rules that cannot produce a task BEFORE rules that fire
    (["R3", "E", "I", "D"], 2, 2), (["E", "R3", "D", "I"], 2, 2), (["I", "E", "D"], 1, 2), (["X", "E", "X1", "D"], 1, 2),
    (["R3", "X", "A", "E"], 2, 1), (["E", "I"], 3, 2), (["D", "E", "D", "E"], 2, 2), (["X", "X1", "I"], 2, 2),
]


def _gen_crn(rng, fixed=None):
    if fixed is not None:
        names, mc, rep = fixed
        seeds = ["CCO", "CC(=O)O", "OCCO", "NCC=O"] + rng.sample(CRN_SEEDS[4:], rng.randint(0, 1))
        rng.shuffle(seeds)
        c = dict(max_components=mc, repeats=rep, use_frontier=True, dedup_across_rules=False, max_mix=None, max_tasks=None)
    else:
        names = [rng.choice(list(CRN_RULES)) for _ in range(rng.randint(2, 5))]
        seeds = ["CCO", rng.choice(["CC(=O)O", "OC(=O)CO"]), rng.choice(["NCC=O", "NCCO", "CC=O"])] + rng.sample(CRN_SEEDS, rng.randint(0, 2))
        seeds = list(dict.fromkeys(seeds))
        rng.shuffle(seeds)
        if "D" not in names and "E" not in names and "I" not in names:
            names[rng.randrange(len(names))] = rng.choice(["D", "E", "I"])
        c = dict(max_components=rng.choice([1, 2, 2, 2, 3]), repeats=rng.choice([1, 2, 2, 3]), use_frontier=rng.random() < 0.7,
                 dedup_across_rules=rng.random() < 0.3, max_mix=rng.choice([None, None, 2, 5]),
                 max_tasks=rng.choice([None, 7, 25]))
        if c["repeats"] == 3 or c["max_components"] == 3:
            c["max_tasks"] = c["max_tasks"] or 60
        if rng.random() < 0.2:
            seeds.insert(rng.randrange(len(seeds) + 1), "C(C)(C)(C)(C)C")       # a seed RDKit refuses
    c.update(kind="crn", rules=[CRN_RULES[n] for n in names], rule_names=names, seeds=seeds, workers=[1, 2, 3])
    if fixed is None or rng.random() < 0.5:
        z = rng.random()
        if z < 0.2:
            c["skip_no_change"] = False
            c["allow_empty_side"] = True
        elif z < 0.35:
            c["allow_empty_side"] = True
        elif z < 0.5:
            c["dedup_delta"] = False
        elif z < 0.6:
            c["keep_aam"] = False
    if rng.random() < 0.35 and len(seeds) >= 3:      # successive build calls on one object: later seeds, repeated seeds
        k = rng.randint(1, len(seeds) - 1)
        c["builds"] = [seeds[:k], seeds[k:] + ([seeds[0]] if rng.random() < 0.5 else [])]
        if rng.random() < 0.3:
            c["builds"].append(list(seeds))
    return c


def gen_cases(tier, rng):
    from ..gen import graphs as G
    from synkit.IO.data_io import load_from_pickle
    q = tier == "quick"
    us, ec = _corpus()
    cases = []
    # -- applier histories
    exh = _exh_hist()
    cases += exh
    for k in range(600 if q else 8000):
        cases.append(_gen_hist(rng, rng.randrange(8, 40 if q else 70)))
    # -- batches, stub reactor (cache machine + fit structure under every allocator)
    for k in range(60 if q else 600):
        cases.append(_gen_batch(rng, us, ec, "stub", rng.randrange(2, 30 if q else 80), rng.randrange(1, 5), ncalls=rng.choice([1, 1, 2, 3])))
    # -- degenerate batches: no entry, one entry, no rule, the same rule string three times
    r0 = us[rng.randrange(len(us))]
    s0 = r0.split(">>")[0]
    for subs_, rules_ in (([], [r0]), ([s0], [r0]), ([s0, s0], []), ([s0], [r0, r0, r0])):
        cases.append(dict(kind="batch", subs=subs_, calls=[dict(rules=list(rules_), robj=[None] * len(rules_), inv=False),
                                                           dict(rules=list(rules_), robj=[None] * len(rules_), inv=True)],
                          pool=[], cache=True, max=2, dedupe=True, alloc="lifo", aseed=1, gc_each=True, exec="stub",
                          dict_entries=bool(len(subs_) % 2)))
    # -- the Benchmark facade (forward over the reactant sides, backward over the product sides, on one object): stub and real reactor
    for k in range(10 if q else 80):
        c = _gen_batch(rng, us, ec, "stub" if k % 5 else "real", rng.randrange(2, 9 if q else 20), rng.randrange(1, 4), ncalls=rng.choice([1, 1, 2]))
        idx = [rng.randrange(len(us)) for _ in range(max(2, len(c["subs"]) // 2))]
        c["subs"] = [us[rng.choice(idx)] for _ in c["subs"]]                 # whole reactions; repeated entries
        if rng.random() < 0.4:                                              # an entry whose two sides are the same molecule
            j = rng.randrange(len(c["subs"]))
            side_ = c["subs"][j].split(">>")[0]
            c["subs"][j] = side_ + ">>" + side_
        c.update(bench=True, dict_entries=False)
        c.pop("strategy", None)
        for cl in c["calls"]:
            cl["inv"] = False
            cl.pop("tuple_rules", None)
        cases.append(c)
    # -- batches, real reactor
    for k in range(10 if q else 80):
        cases.append(_gen_batch(rng, us, ec, "real", rng.randrange(4, 16 if q else 40), rng.randrange(1, 4), ncalls=rng.choice([1, 1, 2])))
    for k in range(2 if q else 12):
        cases.append(_gen_batch(rng, us, ec, "real", rng.randrange(4, 12), rng.randrange(1, 3), implicit=True))
    # -- the default configuration at the size of the design-time experiment: real id(), real GC
    start = rng.randrange(len(us))
    big = [us[(start + i) % len(us)].split(">>")[0] for i in range(100)] * (2 if q else 3)
    cases.append(dict(kind="batch", name="default-config-%d" % len(big), subs=big,
                      calls=[dict(rules=[us[start]], robj=[None], inv=False)], pool=[], cache=True, max=32768,
                      dedupe=True, alloc="real", aseed=0, gc_each=False, exec="real"))
    # -- clustering
    gs = [G.from_nx(d["RC"], node_keys=["element", "charge"], edge_keys=["order"]) for d in load_from_pickle("/repo/Data/Testcase/graph.pkl.gz")]
    for k in range(25 if q else 250):
        cases.append(_gen_cluster(rng, gs, rng.randrange(2, 10 if q else 24), allsizes=(k % 3 == 0)))
    # -- worker counts
    slow = _runtime_cases(tier, rng, us, ec)
    # -- network expansion: serial vs parallel on full event records, rule lists with unusable rules first
    slow += [_gen_crn(rng, f) for f in CRN_FIXED] + [_gen_crn(rng) for _ in range(8 if q else 80)]
    # degenerate expansions: no rule, no seed, only an unparsable seed, repeats = 0, a single one-component rule, the same seed in
    # successive builds and an empty build call
    base = dict(kind="crn", workers=[1, 2, 3], max_components=2, use_frontier=True, dedup_across_rules=False, max_mix=None, max_tasks=None)
    E_, D_ = CRN_RULES["E"], CRN_RULES["D"]
    slow += [dict(base, rules=[], rule_names=[], seeds=["CCO", "CC(=O)O"], repeats=2),
             dict(base, rules=[E_, D_], rule_names=["E", "D"], seeds=[], repeats=2),
             dict(base, rules=[E_, D_], rule_names=["E", "D"], seeds=["C(C)(C)(C)(C)C"], repeats=2),
             dict(base, rules=[E_, D_], rule_names=["E", "D"], seeds=["CCO", "CC(=O)O"], repeats=0),
             dict(base, rules=[D_], rule_names=["D"], seeds=["CCO"], repeats=3),
             dict(base, rules=[E_, D_], rule_names=["E", "D"], seeds=["CCO", "CCO", "OCC"], repeats=1, builds=[["CCO"], ["CCO"], []])]
    # the hydrogen / strategy options must reach SynCRN's worker processes too: templates written with explicit hydrogens, on which the
    # option combinations give different networks (1 event with implicit templates, 2 without)
    hb = dict(base, rules=list(H_RULES), rule_names=["HE", "HB", "HH"], seeds=["CC(=O)O", "CO", "CCBr", "O", "C=CC"], repeats=1, workers=[1, 2])
    slow += [dict(hb, explicit_h=False, implicit_temp=False), dict(hb, explicit_h=True, implicit_temp=False, workers=[2, 3]),
             dict(hb, explicit_h=False, implicit_temp=False, strategy=rng.choice(["comp", "all", "bt"]), repeats=2, workers=[3])]
    # code path selected by an availability flag: syncrn.Chem None (RDKit import failed) - serial and parallel builds must still agree
    slow.append(dict(base, rules=[E_, D_], rule_names=["E", "D"], seeds=["CCO", "CC(=O)O", "OCC"], repeats=2, no_rdkit=True, workers=[2]))
    # the slow cases (seconds each, they start process pools) are spread evenly through the list: the check's worker pool
    # hands out consecutive chunks, a block of them would be run by one worker one after the other
    out = []
    stride = max(1, len(cases) // (len(slow) + 1))
    k = 0
    for i, c in enumerate(cases):
        if i % stride == 0 and k < len(slow):
            out.append(slow[k])
            k += 1
        out.append(c)
    return out + slow[k:]


# ------------------------------------------------------------------ evidence helpers

def nontrivial(case, obs):
    k = case["kind"]
    if k == "hist":
        return sum(1 for o in case["ops"] if o[0] == "app") >= 2 and any(o[0] == "del" for o in case["ops"])
    if k == "batch":
        return len(case["subs"]) >= 2 and any(len(o) > 0 for call in obs[4] for o in call)
    if k == "cluster":
        return len(case["items"]) >= 3 and len(set(obs[0][1] + obs[0][0])) >= 2
    if k == "crn":
        # events of at least two different rules, or of a rule that is not the first one
        ev = obs[0][0][-1][1]
        return len(ev) >= 2 and (len({e[2] for e in ev}) >= 2 or any(e[2] > 0 for e in ev))
    return True


def distribution(cases, obss):
    d = dict(alloc={}, cache_max={}, hist_ops=0, hist_hits=0, hist_applies=0, batch_entries={}, batch_hits=0,
             batch_applies=0, batch_nonempty_entries=0, batch_entries_total=0, address_reuse_cases=0,
             cluster_items={}, cluster_sizes_tried=0, runtime={})
    for c, o in zip(cases, obss):
        k = c["kind"]
        if k in ("hist", "batch"):
            d["alloc"][c["alloc"]] = d["alloc"].get(c["alloc"], 0) + 1
            key = "off" if not c["cache"] else str(c["max"])
            d["cache_max"][key] = d["cache_max"].get(key, 0) + 1
        if not isinstance(o, list) or (o and o[0] == "EXC"):
            continue
        if k == "hist":
            d["hist_ops"] += len(c["ops"])
            d["hist_applies"] += len(o[1])
            d["hist_hits"] += sum(1 for h, _ in o[1] if h)
        elif k == "batch":
            b = str(min(len(c["subs"]) // 10 * 10, 100)) + "+"
            d["batch_entries"][b] = d["batch_entries"].get(b, 0) + 1
            d["batch_applies"] += len(o[2])
            d["batch_hits"] += sum(1 for h, _ in o[2] if h)
            for call in o[4]:
                d["batch_entries_total"] += len(call)
                d["batch_nonempty_entries"] += sum(1 for e in call if e)
        elif k == "cluster":
            b = str(len(c["items"]))
            d["cluster_items"][b] = d["cluster_items"].get(b, 0) + 1
            d["cluster_sizes_tried"] += len(c["sizes"])
        elif k == "runtime":
            d["runtime"][c["what"]] = d["runtime"].get(c["what"], 0) + len(c["jobs"])
        elif k == "crn":
            h = d.setdefault("crn", dict(cases=0, events=0, species=0, tasks=0, steps={}, rules_without_task_before_firing_rule=0,
                                         max_components={}, parallel_runs=0, duplicate_rule_content=0))
            ev = o[0][0][-1][1]
            h["cases"] += 1
            h["events"] += len(ev)
            h["species"] += len(o[0][0][-1][0])
            h["successive_builds"] = h.get("successive_builds", 0) + (len(o[0][0]) > 1)
            for kopt in ("skip_no_change", "allow_empty_side", "dedup_delta", "keep_aam"):
                if kopt in c:
                    h.setdefault("non_default_options", {})[kopt] = h.setdefault("non_default_options", {}).get(kopt, 0) + 1
            h["tasks"] += sum(o[1])
            h["steps"][str(len(o[1]))] = h["steps"].get(str(len(o[1])), 0) + 1
            h["parallel_runs"] += len(o[0]) - 1
            mc = str(c.get("max_components", 3))
            h["max_components"][mc] = h["max_components"].get(mc, 0) + 1
            fired = {e[2] for e in ev}
            h["rules_without_task_before_firing_rule"] += bool(fired) and any(i not in fired for i in range(max(fired)))
            h["duplicate_rule_content"] += len(set(c["rules"])) < len(c["rules"])
    return d


RULE = ("hist: histories of alloc/apply/release/gc at _RuleApplier (non-trivial: >=2 applies and a release); batch: fit calls on "
        "one BatchReactor (non-trivial: >=2 entries and at least one non-empty result); cluster: >=3 items in >=2 classes; crn: >=2 events of >=2 rules or of a rule that is not the first; "
        "runtime: every worker-count case; distinct = distinct case contents")
EXHAUSTIVE = {"quick": False, "thorough": False}
EXPLANATION = ("Theorems: cache transparency for every allocator / GC schedule / cache size (pinned key discipline), refutation for the "
               "unpinned discipline, fit = map single with order-preserving first-occurrence de-duplication, batched clustering = "
               "one-shot at partition level, parallel SynCRN.build = serial build with every result attributed to the rule of its index, fit with worker processes (pickled applier copies) = map single.  Correspondence: the observed id()/dealloc trace of each run is replayed through the "
               "Gallina heap+cache machine and compared entry by entry (hit flags, results, final cache keys, fit outputs). "
               "The sub-space 'all histories of <=4 operations after new;new;apply, cache sizes 1 and 2, LIFO allocator' is enumerated completely.")
TRUSTED_BASE = [
    "Coq 8.16.1 kernel + vm_compute (no native_compute)",
    "hand-written models coq/model/C14_Model.v (batch_reactor.py / batch_cluster.py), coq/model/C14_CrnModel.v (syncrn.py) and coq/model/C14_WorkersModel.v "
    "(what pickling a task does to the applier: copies with new identities / addresses, cache keys unchanged) tied to the code by the per-run correspondence",
    "pickle / cloudpickle semantics as modelled by [ship]: copies carry the contents of the originals, sharing inside one pickle is preserved, nothing a worker writes "
    "to its copy of the cache comes back (the worker-side id()/deallocation trace is NOT observed: theorems cover every legal one, the correspondence evaluates an "
    "adversarial synthetic one)",
    "harness instrumentation harness/gen/c14_trace.py (wrappers installed from the harness process; weakref.finalize as the deallocation witness)",
    "CPython object model: `is`/id() semantics, an address is reused only after deallocation, dict insertion order",
    "joblib/loky and concurrent.futures satisfy the pool contract `pm f l = map f l` (one result per item, in submission order): an explicit premise of "
    "C14_crn_pool_contract / C14_rows_pool_contract, tested for worker counts 1..8, not proved",
]
ASSUMPTIONS = ["graphs handed to the applier are not mutated while cached (BatchReactor never does)",
               "cache_maxsize >= 1 (0 raises StopIteration in the eviction line)",
               "the reactor is a function of the contents of substrate and rule (monitored: table conflicts raise)"]
TESTED_NOT_PROVED = [
    "BatchReactor entry_n_jobs 1..8 and parallel_rules/rule_n_jobs vs serial: the real loky pools are compared at run time with the serial run, with every entry alone "
    "(a fresh single-entry batch, cache off, through the public API) and with the worker-process model fed with the single-entry single-rule results — for every explicit_h / implicit_temp combination, "
    "strategy, dedupe, direction, cache off / tiny, dict entries, two fits on one object; that the options reach the worker processes is tested, not proved",
    "AAMValidator.validate_smiles n_jobs 1..8", "BalanceReactionCheck.dicts_balance_check n_jobs 1..8",
    "SynCRN.build(parallel=True, max_workers=k) vs serial: identical graph (nodes, attributes, edges) and identical full event records "
    "(crn cases: rule lists whose leading rules produce no task) — the real process pool is compared at run time; the Gallina model of build "
    "treats executor.map as an order-preserving chunked map (its contract)",
    "validate_smiles / dicts_balance_check: the real process pool (joblib) returns results in submission order — compared at run time for every worker "
    "count of the cases and against the rows-parallel model fed with the single-row verdicts; the per-row checks themselves (RDKit, ITS) are abstract",
]
LEVEL_TEXT = ("Machine-checked proof (Coq) over an executable heap+cache state machine modelling _RuleApplier and BatchReactor.fit: for every "
              "allocator (address-reuse history), every garbage-collection schedule and every cache size >= 1, each application returns "
              "execute(content of the substrate, content of the rule, direction); fit is map of the single-substrate function with "
              "order-preserving first-occurrence de-duplication; batched clustering gives the one-shot partition; and over an executable model of "
              "SynCRN.build (task generation per step, chunked executor.map, integration into the event graph): the parallel build equals the serial "
              "build for every rule list / configuration / worker count — also over successive build calls on one object —, every integrated result "
              "carries the index of the rule that produced it, and validate_smiles / dicts_balance_check return, for every worker count, the per-row "
              "results of the single-row entry points in input order; and over a model of worker processes (a task is pickled: the applier arrives as a copy whose cache keys "
              "are the parent's addresses and whose pinned objects are copies): for every parent history, every shipped cache, every address assignment and every legal "
              "worker trace each application returns execute(contents), and fit with entry-level or rule-level workers = map single for every order-preserving cut of the entry list; "
              "fit calls with per-call entry lists on one object and the Benchmark facade (forward over the reactant sides, backward over the product sides) give every entry its own single-entry results. "
              "The model is tied to the code by replaying the observed id()/deallocation trace of every generated run through the machine, and the "
              "serial run's (rule, mixture) -> products table of every network-expansion case through the build model (compared with the serial and "
              "the parallel runs with 1, 2, 3 workers on full event records).")
LEVEL_NOTE = ("Modelled, not verified: process-level parallelism (joblib/loky, ProcessPoolExecutor.map) is an order-preserving map in the "
              "model; worker counts 1..8 are compared at run time for BatchReactor, validate_smiles, dicts_balance_check and SynCRN.build. "
              "Isomorphism inside the clustering model is an abstract equivalence (C13 provides the instance).")
