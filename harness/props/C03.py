"""C03 — every reaction proposed by rule application is a genuine instance of the rule.

case = {"kind", "tpl": {"rsmi","core"} | {"graph"}, "sub": smiles | {"graph"}, "invert", "strategy", "mode",
        "pre": {...}}      # "pre" = model inputs taken from the implementation's own parsing / matching (oracle inputs:
                           # RDKit parsing and VF2 enumeration are not modelled), filled by gen_cases in a process pool.
Observable (compared with the Gallina model, all intermediate results, BEFORE any RDKit serialisation):
  SynRule fragments rc / left / right after standardize_hydrogen + its_decompose + _strip_explicit_h + typesGH refresh
  (and after _invert_template when applied backwards); the explicit-hydrogen flag and the implicit pattern used for
  matching; for every kept mapping: validity of the match (model: match_okb), the hydrogen-expanded host and the
  re-matches (explicit path), every glued ITS graph with its branch counters, and the result of _explicit_h.
"""
import os

from ..gen import c03_common as K

PID = "C03"
COQ_HEADER = ("From Coq Require Import List NArith ZArith Bool.\nImport ListNotations.\n"
              "From SK Require Import lib.Tok lib.LGraph model.C03_Model model.C03_Order model.C03_Reactor proof.C03_ReactorSpec.\n")
SHARD = 24
IMPL_TIMEOUT = 1500
COQ_TIMEOUT = 1500
MAXM, MAXR = 6, 6          # mappings / re-matches per mapping shipped to the model (the oracle sees all of them)
# per-case CPU budget of harness/main.py (impl; the oracle gets 2x; x4 in the thorough tier).  Measured on the quick population (seed 0, 1832
# generated cases incl. the 5-step histories and the >= 100-atom substrates): max 0.49 CPU-s in impl, 0.42 CPU-s in the oracle -- the default
# leaves a margin of two orders of magnitude
CASE_CPU_LIMIT = 150

RULE = ("(template, substrate, direction, strategy, hydrogen mode) with template = centre or full ITS of a corpus reaction, a "
        "hand-made rule, or a synthetic ITS graph planted on a random host; non-trivial = at least one glued result and a "
        "template with >= 2 changed bonds; distinct = distinct (template, substrate, configuration)")
EXHAUSTIVE = {"quick": False, "thorough": False}
EXPLANATION = ("86 theorems (coq/props/C03.v) about the Gallina model of SynReactor._glue_graph/_node_glue, _invert_template, _explicit_h, "
               "h_to_explicit and SynRule.__init__ (implicit-template mode; default mode for templates without explicit H atoms): for every host, rule and valid match the reactant side of the glued ITS "
               "(on its_decompose, what _to_smarts serialises) is the substrate; element counts incl. hydrogen and total charge agree on both "
               "sides for a balanced rule (and differ by exactly the rule's imbalance otherwise); changed bonds = image of the rule's bonds with "
               "equal order changes, matched atoms carry the rule atom's element / hydrogen change / charges, nothing else changes; the additive "
               "branch exactly, and 'no ITS' iff a formed bond lands on a host bond with a non-integral sum; backward direction; explicit-hydrogen "
               "stage and hydrogen expansion keep all counts and all bonds between substrate atoms. "
               "Correspondence: every intermediate graph compared before RDKit serialisation; the theorems' boolean hypotheses (wf_hostb, wf_rcb, "
               "match_rcb) are evaluated by run_c03 on every glued (re)mapping and must come out true.")
DESIGN_REF = "DESIGN.md section 5 C03; notes/C03.md"
TECHNIQUE = "Coq proof over an executable Gallina model + per-run correspondence (vm_compute digest vs implementation) + independent Python oracle"
TRUSTED_BASE = [
    "Coq 8.16.1 kernel + vm_compute (no native_compute)",
    "hand-written model coq/model/C03_Model.v + coq/model/C03_Order.v tied to synkit/Synthesis/Reactor/syn_reactor.py, synkit/Rule/syn_rule.py, "
    "synkit/Graph/Hyrogen/_misc.py (standardize_hydrogen, h_to_implicit, h_to_explicit), its_decompose / ITSConstruction by the per-run correspondence",
    "statement vocabulary coq/proof/C03_Spec.v (bondG, dH, dQ, sumZ, balancedb, count_el, total_hc, total_charge, elem_count, mol_of_host): plain definitions, to be read with the theorems",
    "harness encoders harness/gen/c03_common.py (nx graphs -> Gallina literals; attributes -> tok)",
    "oracle inputs: RDKit SMILES parsing of substrate / template, networkx VF2 enumeration (the mappings handed to the model are the implementation's; "
    "each is re-validated by match_okb / match_rcb inside run_c03)",
    "networkx Graph semantics (attribute dicts per unordered pair), CPython round() = round-half-to-even",
    "coq/model/C03_Reactor.v (state machine of the cached attributes + string logic of smarts_list / smiles_list / reverse_reaction); oracle input: RDKit's "
    "graph_to_smi on both sides of every result (harness/gen/c03_common.py side_smiles)",
    "oracle input: the visiting order of each hydrogen-transfer group inside _explicit_h (iteration order of a Python set), recorded around "
    "nx.connected_components by harness/gen/c03_common.py; the model uses a recorded order only for a component with exactly the same atoms",
]
ASSUMPTIONS = ["templates have typesGH 5-tuples on every node, no wildcard '*' atoms (partial-matching engine is outside C03)",
               "bond orders are multiples of 0.5", "node ids are non-negative ints",
               "hydrogen mode matches how the template is written (default/explicit_h=False modes need hydrogen changes written with explicit H atoms; "
               "the docstring asks for implicit_temp=True otherwise). The reactor does not enforce it: known finding implicit-template-in-explicit-mode "
               "(keyed regress witnesses are judged; other inputs of the class are skipped by the oracle)",
               "theorem hypotheses wf_hostb / wf_rcb / match_rcb (distinct node ids, one edge entry per unordered pair, no loops, host orders > 0, "
               "rule orders >= 0; the match is injective, total on the rule's atoms, element/charge equal, host hcount >= rule hcount, reactant-side "
               "orders equal) — true on every correspondence case (recomputed by the model, compared with constant 1)"]
TESTED_NOT_PROVED = ["serialisation half: graph_to_smi (RDKit) on the two sides of every result is an oracle input of the state-machine model (model/C03_Reactor.v: the "
                     "string logic on top of it — None filter, reversal on the backward direction, smiles_list — is modelled, compared on scripted reads and proved, "
                     "C03_smarts_direction); that RDKit writes the graph it is given is tested only: returned strings are re-parsed, the substrate side is compared "
                     "with the substrate (smi-a) and, for balanced templates, the two sides' element counts incl. hydrogen and total charge (smi-b); clause (c) is "
                     "not judged on the strings",
                     "rule preparation in the default mode for templates WITH explicit hydrogen atoms (three-step _strip_explicit_h + typesGH refresh): proved only "
                     "that the rule is the template minus some explicit H atoms with all remaining atoms (up to hydrogen counts) and all bonds among them kept "
                     "(C03_synrule_default_skeleton) and that a kept atom's hydrogen count on a side = number of that side's bonds to the removed atoms "
                     "(C03_synrule_default_counts); for templates with the same element on both sides of every atom WHICH atoms are removed is proved "
                     "exactly (C03_synrule_default_exact) and the pair ids in both directions (C03_default_pair_ids, C03_default_pair_ids_complete); "
                     "templates whose atoms change element, or that carry h_pairs of their own, are covered by the partial theorems + correspondence only. Fully proved: implicit-template mode (C03_synrule_implicit) and default mode without "
                     "explicit H (C03_synrule_default_noH)",
                     "re-matching of the explicit-hydrogen pattern (_get_explicit_map -> VF2): every re-match is checked by match_okb / match_rcb in the "
                     "correspondence, not proved valid or complete (premise of C03_explicit_path)",
                     "_explicit_h: the ORDER in which the atoms of one h_pairs group are visited is a Python set's (CPython hash-table order, not the "
                     "sorted order); it is recorded from the implementation and handed to the model as an oracle input (model/C03_Order.v, ord_of: "
                     "a recorded order is used only for a component with exactly its atoms). Everything else about the pairing is proved for EVERY order: "
                     "first fit = zip of donor and recipient slots (C03_first_fit_zip, C03_explicitH_ord_closed_form), wiring inside one group, usage "
                     "counts, shape, crash condition, conservation (C03_explicitH_ord_*)",
                     "matching itself (SubgraphSearchEngine, orbit de-duplication): C06 / C05"]

HAND = [
    # name, reaction SMILES, substrates
    ("sn2-explicit", "[CH3:1][C:2]([H:5])([H:6])[Br:3].[O:4]([H:7])[H:8]>>[CH3:1][C:2]([H:5])([H:6])[O:4][H:8].[Br:3][H:7]",
     ["CCBr.O", "BrCCCBr.O", "OCCBr.O"]),
    ("quaternisation", "[CH3:1][N:2]([CH3:3])[CH3:4].[CH3:5][I:6]>>[CH3:1][N+:2]([CH3:3])([CH3:4])[CH3:5].[I-:6]",
     ["CN(C)C.CI", "CCN(CC)CC.CCI", "CN(C)CCN(C)C.ICI"]),
    ("deprotonation-explicit", "[CH3:1][C:2](=[O:3])[O:4][H:5].[N:6]([H:7])([H:8])[H:9]>>[CH3:1][C:2](=[O:3])[O-:4].[N+:6]([H:5])([H:7])([H:8])[H:9]",
     ["CC(=O)O.N", "OC(=O)CC(=O)O.N"]),
    ("deprotonation-implicit", "[CH3:1][C:2](=[O:3])[OH:4].[NH3:5]>>[CH3:1][C:2](=[O:3])[O-:4].[NH4+:5]",
     ["CC(=O)O.N", "OC(=O)CC(=O)O.N"]),
    ("bond-over-bond", "[C:1][Br:2].[N:3]>>[C:1][N+:3].[Br-:2]", ["BrCN", "Brc1ccccn1", "BrCC#N", "BrC=N"]),
    ("bond-over-bond-cc", "[C:1][Br:2].[C:3]>>[C:1][C:3].[Br:2]", ["Brc1ccccc1", "BrCC", "BrC=C"]),
    ("double-over-bond", "[C:1][Br:2].[C:3]>>[C:1]=[C:3].[Br:2]", ["Brc1ccccc1", "BrCC"]),
    ("aromatic-sub", "[Br:2][c:1]1[cH:7][cH:8][cH:9][cH:10][cH:11]1.[NH3:3]>>[NH2:3][c:1]1[cH:7][cH:8][cH:9][cH:10][cH:11]1.[BrH:2]", ["Brc1ccccc1.N", "Brc1ccc(Br)cc1.N"]),
    ("aromatic-sub-explicit", "[Br:2][c:1]1[cH:7][cH:8][cH:9][cH:10][cH:11]1.[N:3]([H:4])([H:5])[H:6]>>[H:5][N:3]([H:6])[c:1]1[cH:7][cH:8][cH:9][cH:10][cH:11]1.[Br:2][H:4]", ["Brc1ccccc1.N", "Brc1ccc(Br)cc1.N"]),
    ("ylide", "[CH3:1][P+:2]([CH3:3])([CH3:4])[CH2:5][H:6].[O-:7][CH3:8]>>[CH3:1][P+:2]([CH3:3])([CH3:4])[CH2-:5].[O:7]([H:6])[CH3:8]",
     ["C[P+](C)(C)C.[O-]C"]),
    ("suzuki-type", "[CH3:1][Br:2].[BH2:3][CH3:4]>>[CH3:1][CH3:4].[BH2:3][Br:2]", ["CBr.CB", "CCBr.CCB"]),
    ("hydrogenation", "[CH2:1]=[CH2:2].[H:3][H:4]>>[CH2:1]([H:3])[CH2:2][H:4]", ["C=C.[H][H]", "C=CC=C.[H][H]"]),
    ("keto-enol-implicit", "[CH3:1][C:2](=[O:3])[CH3:4]>>[CH2:1]=[C:2]([OH:3])[CH3:4]", ["CC(=O)C", "CC(=O)CC(=O)C"]),
    ("ring-closure", "[OH:1][CH2:2][CH2:3][CH2:4][CH2:5][Br:6]>>[O:1]1[CH2:2][CH2:3][CH2:4][CH2:5]1.[BrH:6]", ["OCCCCBr"]),
    ("nitro-charge", "[CH3:1][N+:2](=[O:3])[O-:4]>>[CH3:1][N:2]=[O:3].[O:4]", ["C[N+](=O)[O-]"]),
]


# templates that move SEVERAL hydrogens: independent transfers (different donor/recipient pairs), several hydrogens between
# the same two atoms, and both at once.  Each is applied to substrates rewritten in several atom / fragment orders
# (the pairing of donors with recipients in _explicit_h must follow the h_pairs groups, not the atom order).
MULTIH = [
    ("transfer-hydrogenation", "[CH3:7][C:1]([H:5])([CH3:8])[O:2][H:6].[CH3:9][C:3](=[O:4])[CH3:10]>>[CH3:7][C:1]([CH3:8])=[O:2].[CH3:9][C:3]([H:5])([CH3:10])[O:4][H:6]",
     ["CC(O)C.CC(=O)CC", "CC(O)C.O=C(C)CC", "OC(C)CC.CC(=O)C", "CC(O)CO.O=C(C)C(C)=O"]),
    ("transfer-hydrogenation-centre", "[C:1]([H:5])[O:2][H:6].[C:3]=[O:4]>>[C:1]=[O:2].[C:3]([H:5])[O:4][H:6]",
     ["CC(O)C.CC(=O)CC", "CC(O)C.O=C(C)CC", "OCC.O=CC"]),
    ("aldol-condensation", "[CH3:1][C:2](=[O:3])[C:4]([H:8])([H:9])[H:10].[CH3:5][C:6](=[O:7])[H:11]>>[CH3:1][C:2](=[O:3])[C:4]([H:10])=[C:6]([CH3:5])[H:11].[O:7]([H:8])[H:9]",
     ["CC(=O)C.CC=O", "O=CC.CC(C)=O"]),
    ("diimide-type", "[N:1]([H:5])([H:6])[N:2]([H:7])[H:8].[C:3]#[C:4]>>[N:1]#[N:2].[C:3]([H:5])([H:6])[C:4]([H:7])[H:8]",
     ["NN.C#C", "C#CC.NN", "CC#CC.NN"]),
    ("imine-transfer-mixed", "[C:1]([H:5])([H:9])[N:2]([H:6])[H:10].[C:3]#[N:4]>>[C:1]#[N:2].[C:3]([H:5])([H:9])[N:4]([H:6])[H:10]",
     ["CCN.CC#N", "N#CC.NCC", "NCC.N#CC"]),
    ("three-transfers", "[C:1]([H:5])[O:2][H:6].[C:3]=[O:4].[S:7][H:8].[N:9]>>[C:1]=[O:2].[C:3]([H:5])[O:4][H:6].[S-:7].[N+:9][H:8]",
     ["CC(O)C.CC(=O)C.CS.CN(C)C", "CN(C)C.SC.O=C(C)C.OC(C)C"]),
]


def _reorder(smi, rng):
    """the same molecule(s) written with the atoms in a PRNG-chosen order (fragment order follows the atom order)"""
    from rdkit import Chem
    m = Chem.MolFromSmiles(smi)
    perm = list(range(m.GetNumAtoms()))
    rng.shuffle(perm)
    return Chem.MolToSmiles(Chem.RenumberAtoms(m, perm), canonical=False)


def _multih_cases(rng, full):
    from rdkit import Chem
    out = []
    nre = 6 if full else 3
    for name, r, subs in MULTIH:
        a, b = r.split(">>")
        for sub in subs:
            variants = [sub] + [_reorder(sub, rng) for _ in range(nre)]
            for k, sv in enumerate(dict.fromkeys(variants)):
                for mode in (("E", "S") if full or k == 0 else ("E",)):
                    for core in ((True, False) if full or k < 2 else (True,)):
                        out.append(dict(kind="multi-h", name="multih:%s:%s:%s:%s" % (name, "centre" if core else "full", sv, mode),
                                        tpl=dict(rsmi=r, core=core), sub=sv, invert=False,
                                        strategy="all" if k == 0 else rng.choice(["all", "comp", "bt"]), mode=mode))
        # backward on the template's own products, several atom orders
        try:
            m = Chem.MolFromSmiles(b)
            for at in m.GetAtoms():
                at.SetAtomMapNum(0)
            psub = Chem.MolToSmiles(Chem.RemoveHs(m))
            for sv in dict.fromkeys([psub] + [_reorder(psub, rng) for _ in range(nre)]):
                out.append(dict(kind="multi-h", name="multih:%s:bwd:%s" % (name, sv), tpl=dict(rsmi=r, core=True), sub=sv,
                                invert=True, strategy="all", mode="E"))
        except Exception:
            pass
    return out


def _syn_transfer_case(rng):
    """graph level: 2-3 independent (donor, recipient) pairs, 1-2 hydrogens each, written with explicit H atoms, planted on a
    host whose node ids and insertion order are random (so donors and recipients come in every relative order)"""
    els = ["C", "N", "O", "S", "P"]
    ng = rng.randint(2, 3)
    ids = rng.sample(range(1, 30), 2 * ng + rng.randint(0, 2))
    tids = rng.sample(range(1, 40), 2 * ng)
    hnodes, tn, te = {}, [], []
    nh = max(tids) + 1
    hedges = {}
    for gi in range(ng):
        d, r = ids[2 * gi], ids[2 * gi + 1]
        td, tr = tids[2 * gi], tids[2 * gi + 1]
        mult = rng.choice([1, 1, 2])
        ed, er = rng.choice(els), rng.choice(els)
        hnodes[d] = {"element": ed, "aromatic": False, "hcount": mult + rng.randint(0, 1), "charge": 0, "neighbors": [], "atom_map": 0}
        hnodes[r] = {"element": er, "aromatic": False, "hcount": rng.randint(0, 2), "charge": 0, "neighbors": [], "atom_map": 0}
        tn.append([td, [ed, False, 0, 0, []], [ed, False, 0, 0, []]])
        tn.append([tr, [er, False, 0, 0, []], [er, False, 0, 0, []]])
        for _ in range(mult):
            tn.append([nh, ["H", False, 0, 0, []], ["H", False, 0, 0, []]])
            te.append([td, nh, 1, 0, 1])
            te.append([tr, nh, 0, 1, -1])
            nh += 1
        z = rng.random()
        if z < 0.35:                                   # the pair is also bonded: bond order changes with the transfer
            o = rng.choice([1, 2])
            hedges[(d, r)] = o
            te.append([td, tr, o, o + rng.choice([-1, 1]) if o == 2 else 2, 0])
            te[-1][4] = te[-1][2] - te[-1][3]
    for x in ids[2 * ng:]:
        hnodes[x] = {"element": rng.choice(els), "aromatic": False, "hcount": rng.randint(0, 3), "charge": 0, "neighbors": [], "atom_map": 0}
        y = rng.choice(ids[:2 * ng])
        hedges[(x, y)] = 1
    order = list(hnodes)
    rng.shuffle(order)
    host = {"nodes": [[i, hnodes[i]] for i in order], "edges": [[u, v, {"order": o}] for (u, v), o in hedges.items()]}
    inv = rng.random() < 0.3
    if inv:
        tn = [[n_, h_, g_] for n_, g_, h_ in tn]
        te = [[u, v, r_, l_, -s_] for u, v, l_, r_, s_ in te]
    rng.shuffle(tn)
    rng.shuffle(te)
    tpl = {"nodes": [[n_, {"element": g_[0], "charge": g_[3], "atom_map": n_, "typesGH": [g_, h_]}] for n_, g_, h_ in tn],
           "edges": [[u, v, {"order": [l_, r_], "standard_order": s_}] for u, v, l_, r_, s_ in te]}
    return dict(kind="synthetic-transfer", tpl={"graph": tpl}, sub={"graph": host}, invert=inv, strategy=rng.choice(["all", "comp", "bt"]), mode="E")


def _syn_group_case(rng):
    """graph level (round 5): ONE hydrogen-transfer group with two or three donors AND two or three recipients (a chain
    d0 -> r0 <- d1 -> r1 ..., some pairs with two hydrogens), written with explicit H atoms, planted on a host whose node ids
    are scattered over 0..70 — the visiting order of the group inside _explicit_h is then the hash-table order of a Python
    set, not the sorted order, and the first-fit pairing depends on it"""
    els = ["C", "N", "O", "S", "P", "B", "F", "I"]
    nd, nr = rng.randint(2, 3), rng.randint(2, 3)
    use = rng.sample(els, nd + nr)
    spect = [e for e in els if e not in use]
    ids = rng.sample(range(0, 71), nd + nr + rng.randint(0, 2))
    tids = rng.sample(range(1, 40), nd + nr)
    don, recp = list(range(nd)), list(range(nd, nd + nr))
    pairs = []
    for i in range(max(nd, nr)):
        pairs.append((don[i % nd], recp[i % nr]))
        pairs.append((don[(i + 1) % nd], recp[i % nr]))
    pairs = list(dict.fromkeys(pairs))
    rng.shuffle(pairs)
    pairs = pairs[:rng.randint(max(nd, nr) + 1, len(pairs))] if len(pairs) > max(nd, nr) + 1 else pairs
    give = {}
    tn, te = [], []
    nh = max(tids) + 1
    for a in range(nd + nr):
        tn.append([tids[a], [use[a], False, 0, 0, []], [use[a], False, 0, 0, []]])
    for d, r in pairs:
        for _ in range(rng.choice([1, 1, 1, 2])):
            tn.append([nh, ["H", False, 0, 0, []], ["H", False, 0, 0, []]])
            te.append([tids[d], nh, 1, 0, 1])
            te.append([tids[r], nh, 0, 1, -1])
            give[d] = give.get(d, 0) + 1
            nh += 1
    hnodes = {}
    for a in range(nd + nr):
        hnodes[ids[a]] = {"element": use[a], "aromatic": False, "hcount": give.get(a, 0) + rng.randint(0, 1) if a < nd else rng.randint(0, 2),
                          "charge": 0, "neighbors": [], "atom_map": 0}
    hedges = {}
    for x in ids[nd + nr:]:
        hnodes[x] = {"element": rng.choice(spect) if spect else "C", "aromatic": False, "hcount": rng.randint(0, 3), "charge": 0, "neighbors": [], "atom_map": 0}
        hedges[(x, rng.choice(ids[:nd + nr]))] = 1
    if rng.random() < 0.4:
        hedges[(ids[0], ids[nd])] = rng.choice([1, 2])          # a donor bonded to a recipient: the bond is no part of the template
    order = list(hnodes)
    rng.shuffle(order)
    host = {"nodes": [[i, hnodes[i]] for i in order], "edges": [[u, v, {"order": o}] for (u, v), o in hedges.items()]}
    inv = rng.random() < 0.3
    if inv:
        tn = [[n_, h_, g_] for n_, g_, h_ in tn]
        te = [[u, v, r_, l_, -s_] for u, v, l_, r_, s_ in te]
    rng.shuffle(tn)
    rng.shuffle(te)
    tpl = {"nodes": [[n_, {"element": g_[0], "charge": g_[3], "atom_map": n_, "typesGH": [g_, h_]}] for n_, g_, h_ in tn],
           "edges": [[u, v, {"order": [l_, r_], "standard_order": s_}] for u, v, l_, r_, s_ in te]}
    return dict(kind="synthetic-group", tpl={"graph": tpl}, sub={"graph": host}, invert=inv, strategy=rng.choice(["all", "comp", "bt"]), mode="E")


def _syn_raw_case(rng):
    """graph level (round 5): a HAND-WRITTEN rule in prepared form (hydrogen changes as counts + h_pairs, no H atoms), handed over as
    SynRule(tpl, implicit_h=False) to a default-mode reactor, read with a random script.  1-2 groups; per group 1-3 donors with a
    surplus of 1-2, 0-3 recipients with a deficit of 1-2 (so: exact groups, groups with spare places, and groups with more to give
    than to take = _explicit_h raises); some groups are chained through an atom that carries two pair ids; host ids scattered
    over 0..70 (hash-table visiting order)."""
    els = ["C", "N", "O", "S", "P", "B", "F", "I"]
    rng.shuffle(els)
    atoms, k, pid = [], 0, 1
    for _ in range(rng.randint(1, 2)):
        nd, nr = rng.randint(1, 3), rng.randint(0, 3)
        if k + nd + nr > len(els):
            break
        chain = nd + nr >= 3 and rng.random() < 0.4
        give = take = 0
        for j in range(nd + nr):
            base, amt = rng.randint(0, 1), rng.randint(1, 2)
            if j < nd:
                give += amt
            else:
                take += amt
                if j == nd + nr - 1 and give > take and rng.random() < 0.75:
                    amt += give - take + rng.randint(0, 1)      # usually the places suffice (sometimes with one to spare)
            hg, hh = (base + amt, base) if j < nd else (base, base + amt)
            pairs = [pid] if not chain or j == 0 else ([pid, pid + 1] if j == 1 else [pid + 1])
            atoms.append((els[k], hg, hh, pairs))
            k += 1
        pid += 2 if chain else 1
    if rng.random() < 0.3 and k < len(els):
        atoms.append((els[k], 1, 0, None))            # a hydrogen change without pair ids: stays a count
        k += 1
    tids = rng.sample(range(1, 40), len(atoms))
    hids = rng.sample(range(0, 71), len(atoms) + rng.randint(0, 2))
    tpl = {"nodes": [[t, {"element": el, "charge": 0, "atom_map": t, "hcount": hg, "aromatic": False,
                          "typesGH": [[el, False, hg, 0, []], [el, False, hh, 0, []]], **({"h_pairs": pr} if pr is not None else {})}]
                     for t, (el, hg, hh, pr) in zip(tids, atoms)], "edges": []}
    hnodes = {h: {"element": el, "aromatic": False, "hcount": hg + rng.randint(0, 1), "charge": 0, "neighbors": [], "atom_map": 0}
              for h, (el, hg, hh, pr) in zip(hids, atoms)}
    hedges = {}
    for x in hids[len(atoms):]:
        hnodes[x] = {"element": "C" if "C" not in [a[0] for a in atoms] else "Si", "aromatic": False, "hcount": rng.randint(0, 3), "charge": 0, "neighbors": [], "atom_map": 0}
        hedges[(x, rng.choice(hids[:len(atoms)]))] = 1
    order = list(hnodes)
    rng.shuffle(order)
    rng.shuffle(tpl["nodes"])
    host = {"nodes": [[i, hnodes[i]] for i in order], "edges": [[u, v, {"order": o}] for (u, v), o in hedges.items()]}
    attrs = ["rule", "mappings", "mapping_count", "its_list", "its", "smarts_list", "smarts", "smiles_list", "its_list", "smarts_list"]
    return dict(kind="synthetic-raw", tpl={"graph": tpl}, sub={"graph": host}, invert=False, strategy=rng.choice(["all", "comp", "bt"]), mode="E",
                tpl_form="synrule-raw", script=[rng.choice(attrs) for _ in range(rng.randint(3, 6))])


# ------------------------------------------------------------------ API surface, histories, degenerate values (round 3)

API_SEEDS = [
    # (name, reaction SMILES of the template, mode, substrate, backward substrate)
    ("sn2", "[CH3:1][C:2]([H:5])([H:6])[Br:3].[O:4]([H:7])[H:8]>>[CH3:1][C:2]([H:5])([H:6])[O:4][H:8].[Br:3][H:7]", "E", "CC(C)CBr.O", "CC(C)CO.Br"),
    ("quat", "[CH3:1][N:2]([CH3:3])[CH3:4].[CH3:5][I:6]>>[CH3:1][N+:2]([CH3:3])([CH3:4])[CH3:5].[I-:6]", "I", "CCN(C)C.CI", "CC[N+](C)(C)C.[I-]"),
    ("ester", "[CH3:1][C:2](=[O:3])[OH:4].[OH:5][CH3:6]>>[CH3:1][C:2](=[O:3])[O:5][CH3:6].[OH2:4]", "I", "CC[C](=O)O.OC".replace("[C]", "C"), "CCC(=O)OC.O"),
    ("mpv", "[C:1]([H:5])[O:2][H:6].[C:3]=[O:4]>>[C:1]=[O:2].[C:3]([H:5])[O:4][H:6]", "E", "CC(O)C.O=C(C)CC", "CC(=O)C.OC(C)CC"),
    ("ring10", "[C:1][Br:2].[N:3]>>[C:1][N+:3].[Br-:2]", "I", "C1C2C3C4C5C6C7C8C9C%10C(Br)C%10C9C8C7C6C5C4C3C2C1.N", None),
    ("big", "[C:1][Br:2].[N:3]>>[C:1][N+:3].[Br-:2]", "I", "CCCCCCCCCCCCBr.CCCCCCCCCCCN(C)C", None),
]
# rules whose applied left side keeps explicit X-H hydrogens: (name, reaction, substrate, invert)
FIRSTS = [
    ("hydrogenation-bwd", "[CH2:1]=[CH2:2].[H:3][H:4]>>[CH2:1]([H:3])[CH2:2][H:4]", "CC", True),
    ("deprotonation-to-H+", "[CH3:1][C:2](=[O:3])[O:4][H:5]>>[CH3:1][C:2](=[O:3])[O-:4].[H+:5]", "CC(=O)O", False),
    ("dehydrogenation", "[C:1]([H:3])[C:2][H:4]>>[C:1]=[C:2].[H:3][H:4]", "CCO", False),
    ("protonation-bwd", "[CH3:3][N:1].[H+:2]>>[CH3:3][N+:1][H:2]", "C[NH3+]", True),
]
# (name, substrate, rule 1, mode 1, in-place edits [(element, hcount) of the atom -> new attributes], rule 2, mode 2):
# rule 2 touches exactly the atoms whose charge / hydrogen count the caller edited between the two applications
EDIT_SCENARIOS = [
    ("amide-then-salt", "CC(=O)O.CN", "[C:1](=[O:2])[O:3][H:4].[N:5][H:6]>>[C:1](=[O:2])[N:5].[H:4][O:3][H:6]", "E",
     [("O", 1, {"hcount": 0, "charge": -1}), ("N", 2, {"hcount": 3, "charge": 1})], "[O-:1].[N+:2][H:3]>>[O:1][H:3].[N:2]", "E"),
    ("salt-implicit", "CC(=O)O.N", "[CH3:1][C:2](=[O:3])[OH:4].[NH3:5]>>[CH3:1][C:2](=[O:3])[O-:4].[NH4+:5]", "I",
     [("O", 1, {"hcount": 0, "charge": -1}), ("N", 3, {"hcount": 4, "charge": 1})],
     "[CH3:1][C:2](=[O:3])[O-:4].[NH4+:5]>>[CH3:1][C:2](=[O:3])[OH:4].[NH3:5]", "I"),
    ("alkoxide-williamson", "CCO.CBr", "[C:1][Br:2].[OH:3]>>[C:1][OH+:3].[Br-:2]", "I",
     [("O", 1, {"hcount": 0, "charge": -1})], "[C:1][O-:2].[C:3][Br:4]>>[C:1][O:2][C:3].[Br-:4]", "I"),
]
# >= 100 atoms (three-digit node ids, two matches far apart); only a few forms each, they are the expensive ones
BIG100 = ("big100", "[C:1][Br:2].[N:3]>>[C:1][N+:3].[Br-:2]", "I", "BrC" + "C" * 60 + "CBr." + "C" * 45 + "N(C)C")


def _relabel_smiles(smi, rng, how):
    """the same molecule(s) with atom-map numbers: 'full' = every atom, a random permutation of 1..n; 'partial' = some atoms
    only, with numbers that COLLIDE with other atoms' index + 1; 'repeat' = numbers repeat; 'order' = no labels, random order"""
    from rdkit import Chem
    m = Chem.MolFromSmiles(smi)
    n = m.GetNumAtoms()
    perm = list(range(n))
    rng.shuffle(perm)
    m = Chem.RenumberAtoms(m, perm)
    if how == "full":
        nums = list(range(1, n + 1))
        rng.shuffle(nums)
        for a, k in zip(m.GetAtoms(), nums):
            a.SetAtomMapNum(k)
    elif how == "partial":
        for a in m.GetAtoms():
            if rng.random() < 0.4:
                a.SetAtomMapNum(rng.choice([i + 1 for i in range(n) if i != a.GetIdx()]))
        if not any(a.GetAtomMapNum() for a in m.GetAtoms()):
            m.GetAtomWithIdx(n - 1).SetAtomMapNum(1)
    elif how == "repeat":
        for a in m.GetAtoms():
            a.SetAtomMapNum(rng.choice([1, 1, 2, 7]))
    return Chem.MolToSmiles(m, canonical=False)


def _graph_form(smi, rng):
    """the substrate as a caller-built nx graph: node ids are arbitrary (0, two-digit, shuffled insertion order)"""
    from synkit.IO.chem_converter import smiles_to_graph
    g = smiles_to_graph(smi, use_index_as_atom_map=False, drop_non_aam=False)
    ids = rng.sample(range(0, 3 * g.number_of_nodes() + 12), g.number_of_nodes())
    mp = dict(zip(list(g.nodes), ids))
    order = list(g.nodes)
    rng.shuffle(order)
    nodes = [[mp[n], {k: (list(v) if isinstance(v, (list, tuple)) else v) for k, v in g.nodes[n].items() if k in ("element", "aromatic", "hcount", "charge", "neighbors", "atom_map")}] for n in order]
    edges = [[mp[u], mp[v], {"order": float(d["order"])}] for u, v, d in g.edges(data=True)]
    rng.shuffle(edges)
    return {"graph": {"nodes": nodes, "edges": edges}}


def _api_cases(rng, full):
    K.quiet()
    out = []
    strategies = ["all", "comp", "bt"]

    def base(name, r, mode, sub, inv=False, core=True, **kw):
        c = dict(kind="api", tpl=dict(rsmi=r, core=core), sub=sub, invert=inv, strategy=rng.choice(strategies), mode=mode)
        if "strategy_fixed" in kw:
            c["strategy"] = kw.pop("strategy_fixed")
        c.update(kw)
        c["name"] = "api:%s:%s:%s" % (name, c.get("family", "?"), json.dumps({k: v for k, v in c.items() if k in ("sub", "sub_form", "tpl_form", "opts", "invert", "mode", "reads", "first", "script")}, sort_keys=True)[:260])
        return c
    import json
    for name, r, mode, sub, bsub in API_SEEDS:
        # --- substrate input forms
        for how in ("order", "full", "partial", "partial", "repeat"):
            out.append(base(name, r, mode, _relabel_smiles(sub, rng, how), family="sub-" + how))
        out.append(base(name, r, mode, _graph_form(sub, rng), family="sub-graph"))
        out.append(base(name, r, mode, _graph_form(sub, rng), family="sub-syngraph", sub_form="syngraph"))
        out.append(base(name, r, mode, sub, family="sub-syngraph-smiles", sub_form="syngraph"))
        # --- template forms
        out.append(base(name, r, mode, sub, core=False, family="tpl-string", tpl_form="string"))
        out.append(base(name, r, mode, sub, family="tpl-synrule", tpl_form="synrule"))
        if bsub:
            out.append(base(name, r, mode, _relabel_smiles(bsub, rng, "partial"), inv=True, family="bwd-partial"))
            out.append(base(name, r, "I" if mode == "I" else mode, bsub, inv=True, family="bwd-reads", reads=3))
            out.append(base(name, r, mode, bsub, inv=True, family="bwd-synrule", tpl_form="synrule"))
            if mode == "E":
                out.append(base(name, r, "S", bsub, inv=True, family="bwd-synrule", tpl_form="synrule"))
        # --- constructor options (every one that exists; partial=True belongs to the partial-matching engine, outside C03)
        for opts in (dict(strategy_enum=True), dict(canonicaliser=True), dict(via="from_smiles"), dict(via="positional"),
                     dict(embed_pre_filter=True), dict(embed_threshold=10000), dict(automorphism=True),
                     dict(embed_pre_filter=True, embed_threshold=10000, automorphism=True, canonicaliser=True, strategy_enum=True)):
            out.append(base(name, r, mode, sub, family="opt-" + "+".join(sorted(opts)), opts=opts))
        # --- repeated reads of the lazily cached attributes
        out.append(base(name, r, mode, sub, family="reads", reads=3))
        # --- histories: one process, several reactors
        v = [_relabel_smiles(sub, rng, "order") for _ in range(3)]
        lab = [_relabel_smiles(sub, rng, "full") for _ in range(2)] + [_relabel_smiles(sub, rng, "partial")]

        def hist(fam, steps):
            return dict(kind="history", family=fam, name="history:%s:%s:%s" % (name, fam, "|".join(str(st["sub"])[:40] for st in steps)), steps=steps)
        out.append(hist("orders", [base(name, r, mode, x, family="step") for x in v]))
        out.append(hist("orders-reversed", [base(name, r, mode, x, family="step") for x in reversed(v)]))
        out.append(hist("numberings", [base(name, r, mode, x, family="step") for x in lab + [sub]]))
        out.append(hist("options-then-default", [base(name, r, mode, sub, family="step", opts=dict(embed_pre_filter=True, strategy_enum=True), reads=2),
                                                base(name, r, mode, sub, family="step"),
                                                base(name, r, mode, v[0], family="step", opts=dict(canonicaliser=True))]))
        out.append(hist("default-then-options", [base(name, r, mode, sub, family="step"),
                                                base(name, r, mode, sub, family="step", opts=dict(embed_pre_filter=True, automorphism=True))]))
        out.append(hist("results-mutated", [base(name, r, mode, sub, family="step", mutate_results=True),
                                           base(name, r, mode, sub, family="step", reads=2),
                                           base(name, r, mode, v[1], family="step")]))
        g1, g2 = _graph_form(sub, rng), _graph_form(v[2], rng)
        out.append(hist("graph-edited-in-place", [base(name, r, mode, g1, family="step", sub_ref="G"),
                                                 base(name, r, mode, g2, family="step", sub_ref="G", edit_to_sub=True),
                                                 base(name, r, mode, g1, family="step", sub_ref="G", edit_to_sub=True)]))
        if bsub:
            out.append(hist("template-object-and-string-reused", [
                base(name, r, mode, sub, core=False, family="step", tpl_form="string"),
                base(name, r, mode, bsub, inv=True, core=False, family="step", tpl_form="string"),
                base(name, r, mode, sub, family="step", tpl_ref="T"),
                base(name, r, mode, bsub, inv=True, family="step", tpl_ref="T", reads=2),
                base(name, r, mode, sub, family="step", tpl_ref="T")]))
            out.append(hist("fwd-then-bwd", [base(name, r, mode, sub, family="step", reads=2),
                                            base(name, r, mode, bsub, inv=True, family="step", reads=3)]))
    # --- read ORDER: the first thing asked of a fresh reactor (lazily set state must not depend on what was read before).
    # Rules whose applied left side KEEPS explicit X-H hydrogens (the explicit-hydrogen flag is set inside `mappings`).
    for name, r, sub, inv in FIRSTS:
        for first in (None, "its_list", "smarts_list", "smiles_list", "mapping_count", "mappings", "its", "smarts", "rule", "graph"):
            out.append(base(name, r, "E", sub, inv=inv, family="first-" + str(first), first=first, strategy_fixed="all"))
    for name, r, mode, sub, bsub in API_SEEDS[:4]:
        for first in ("its_list", "smarts_list", "smiles_list", "mapping_count"):
            out.append(base(name, r, mode, sub, family="first-" + first, first=first))
    # --- SCRIPTS of reads on one fresh reactor, every value compared with the state machine of model/C03_Reactor.v
    # (lazily cached _rule / _mappings + flag / _its / _smarts; string half of the serialisation: None filter, reversal on
    # the backward direction, smiles_list = last part)
    scripts = [["smiles_list", "its_list", "mapping_count", "smarts_list", "its", "mappings", "rule", "smiles_list"],
               ["its_list", "its", "smarts", "smarts_list", "smiles_list", "_mappings_prop"],
               ["mapping_count", "smarts_list", "its_list", "rule"],
               ["smarts_list", "smarts_list", "smiles_list", "smiles_list"]]
    attrs = ["rule", "mappings", "_mappings_prop", "mapping_count", "its_list", "its", "smarts_list", "smarts", "smiles_list"]
    for name, r, mode, sub, bsub in API_SEEDS[:4]:
        for k, sc in enumerate(scripts + [[rng.choice(attrs) for _ in range(rng.randint(3, 7))]]):
            out.append(base(name, r, mode, sub, family="script", script=sc, strategy_fixed="all"))
            if bsub and k % 2 == 0:
                out.append(base(name, r, mode, bsub, inv=True, family="script-bwd", script=sc, strategy_fixed="all"))
        if bsub:
            out.append(base(name, r, mode, bsub, inv=True, family="script-bwd-synrule", script=scripts[0], tpl_form="synrule", strategy_fixed="all"))
    for name, r, sub, inv in FIRSTS:
        for sc in (scripts[1], scripts[3], [rng.choice(attrs) for _ in range(rng.randint(3, 7))]):
            out.append(base(name, r, "E", sub, inv=inv, family="script-xh", script=sc, strategy_fixed="all"))
    # --- rules with HAND-WRITTEN h_pairs, handed over as SynRule(tpl, implicit_h=False) objects to a default-mode reactor (used as they
    # are; _explicit_h works on the caller's pair ids): a balanced proton transfer, two groups, and rules whose group has more
    # hydrogens to give than to take: _explicit_h raises, the first its_list read raises and later reads return the glued graphs
    # (stale cache after an exception: model rd_its, theorem C03_reads_after_crash)
    def raw_tpl(atoms, edges=()):
        return {"graph": {"nodes": [[n, {"element": el, "charge": qg, "atom_map": n, "hcount": hg, "aromatic": False,
                                         "typesGH": [[el, False, hg, qg, []], [el, False, hh, qh, []]], **({"h_pairs": hp} if hp is not None else {})}]
                                    for n, el, hg, hh, qg, qh, hp in atoms],
                          "edges": [[u, v, {"order": [a, b], "standard_order": a - b}] for u, v, a, b in edges]}}
    RAW = [("proton-transfer-pairs", raw_tpl([(10, "O", 1, 0, 0, -1, [1]), (12, "N", 0, 1, 0, 1, [1])]), "CO.N", ["its_list", "smarts_list", "its", "smiles_list"]),
           ("two-groups", raw_tpl([(1, "O", 1, 0, 0, -1, [1]), (2, "N", 0, 1, 0, 1, [1]), (3, "S", 1, 0, 0, -1, [2]), (4, "N", 0, 1, 0, 1, [2])]), "CO.N.CS.CN", ["smarts_list", "its_list", "mapping_count"]),
           ("crash-nobody-takes", raw_tpl([(1, "O", 1, 0, 0, -1, [1])]), "CO", ["its_list", "its_list", "its", "smarts_list", "smiles_list", "its_list"]),
           ("crash-first-smarts", raw_tpl([(1, "O", 1, 0, 0, -1, [1])]), "CCO.O", ["smarts_list", "smarts_list", "its_list", "mapping_count"]),
           ("crash-two-donors-one-place", raw_tpl([(1, "O", 1, 0, 0, -1, [1]), (2, "S", 1, 0, 0, -1, [1]), (3, "N", 0, 1, 0, 1, [1])]), "CO.CS.CN", ["mappings", "its_list", "its_list", "smarts"]),
           ("no-pairs-counts-only", raw_tpl([(10, "O", 1, 0, 0, -1, None), (12, "N", 0, 1, 0, 1, None)]), "CO.N", ["its_list", "smarts_list"])]
    for name, tplj, sub, sc in RAW:
        c = dict(kind="api", tpl=tplj, sub=sub, invert=False, strategy="all", mode="E", family="script-raw", tpl_form="synrule-raw", script=sc)
        c["name"] = "api:%s:script-raw:%s:%s" % (name, sub, ",".join(sc))
        out.append(c)
    # --- the caller's substrate OBJECT used, edited in place (attributes of existing atoms), used again
    for name, smi, r1, m1, edits, r2, m2 in EDIT_SCENARIOS:
        for form in (None, "syngraph"):
            g1 = _graph_form(smi, rng)
            g2 = json.loads(json.dumps(g1))
            ops = []
            for el, hc, attrs in edits:
                hit = [nd for nd in g2["graph"]["nodes"] if nd[1]["element"] == el and nd[1]["hcount"] == hc]
                nd = hit[0]
                nd[1].update(attrs)
                ops.append([nd[0], attrs])
            steps = [base(name, r1, m1, g1, family="step", sub_ref="G", sub_form=form, core=True),
                     base(name, r2, m2, g2, family="step", sub_ref="G", sub_form=form, edit_attrs=ops, core=True),
                     base(name, r1, m1, g1, family="step", sub_ref="G", sub_form=form, core=True,
                          edit_attrs=[[n_, {k: next(x for x in g1["graph"]["nodes"] if x[0] == n_)[1][k] for k in a_}] for n_, a_ in ops])]
            out.append(dict(kind="history", family="attributes-edited-in-place" + ("-syngraph" if form else ""),
                            name="history:%s:attributes-edited-in-place:%s:%s" % (name, form, smi), steps=steps))
    # --- >= 100 atoms
    name, r, mode, sub = BIG100
    out.append(base(name, r, mode, sub, family="size-100"))
    out.append(base(name, r, mode, _relabel_smiles(sub, rng, "partial"), family="size-100-partial"))
    out.append(base(name, r, mode, _graph_form(sub, rng), family="size-100-graph"))
    # --- degenerate values
    r0, m0 = API_SEEDS[0][1], "E"
    for sub in ("C", "O", "CCO.O", "[Br-]", "CBr.O", "BrC(Br)(Br)Br.O", "[CH3:0]CBr.O", "[CH3:0][CH2:0]Br.[OH2:0]", "CC[C:1](=O)OC.OCC", ""):
        out.append(base("sn2", r0, m0, sub, family="degenerate"))
    a0 = API_SEEDS[0][1].split(">>")[0]
    out.append(base("sn2", r0, m0, "CCBr.O", core=False, family="degenerate-own-left"))
    out.append(base("quat", API_SEEDS[1][1], "I", "CN(C)C.CI", core=False, family="degenerate-own-left"))
    return out


def worker_init():
    K.quiet()


# ------------------------------------------------------------------ preparation (model inputs from the implementation)

def _host_json(g):
    return [[[n, d.get("element", "*"), bool(d.get("aromatic", False)), int(d.get("hcount", 0)), int(d.get("charge", 0)),
              list(d.get("neighbors", []))] for n, d in g.nodes(data=True)],
            [[u, v, K.half(d.get("order", 1.0))] for u, v, d in g.edges(data=True)]]


def _its_json(g):
    ns = []
    for n, d in g.nodes(data=True):
        t = d["typesGH"]
        ns.append([n, [t[0][0], bool(t[0][1]), int(t[0][2]), int(t[0][3]), list(t[0][4])],
                   [t[1][0], bool(t[1][1]), int(t[1][2]), int(t[1][3]), list(t[1][4])]] + ([[int(x) for x in d["h_pairs"]]] if "h_pairs" in d else []))
    es = [[u, v, K.half(d["order"][0]), K.half(d["order"][1]), K.half(d.get("standard_order", 0.0))] for u, v, d in g.edges(data=True)]
    return [ns, es]


def _history_run(case, fn):
    """run the steps of a history case IN ORDER IN THIS PROCESS (shared module state, shared substrate objects, in-place
    edits between steps) and apply fn(step) to each"""
    shared = {}
    shared_t = {}
    out = []
    for st in case["steps"]:
        st = dict(st)
        tref = st.get("tpl_ref")
        if tref is not None:
            if tref not in shared_t:
                shared_t[tref] = K.tpl_graph(st["tpl"])
            st["_shared_tpl"] = shared_t[tref]      # the SAME template graph object handed to several reactors
        ref = st.get("sub_ref")
        if ref is not None:
            if ref not in shared:
                shared[ref] = K.sub_obj(st["sub"], st.get("sub_form"))
            elif st.get("edit_attrs"):
                # the caller edits ATTRIBUTES of the same graph object in place (node dicts survive, as after G.nodes[n]["charge"] = -1)
                raw = shared[ref]._raw if hasattr(shared[ref], "_raw") else shared[ref]
                for n, attrs in st["edit_attrs"]:
                    raw.nodes[n].update(attrs)
            elif st.get("edit_to_sub"):
                # the caller edits the SAME graph object in place between two calls
                new = K.sub_obj(st["sub"], None)
                shared[ref].clear()
                shared[ref].add_nodes_from(new.nodes(data=True))
                shared[ref].add_edges_from(new.edges(data=True))
            st["_shared_sub"] = shared[ref]
        try:
            out.append(fn(st))
        finally:
            st.pop("_shared_sub", None)
            st.pop("_shared_tpl", None)
    return out


def prepare(case):
    """Run the implementation once and record what the model needs as oracle inputs."""
    case = dict(case)
    if case.get("kind") == "history":
        steps = _history_run(case, prepare)
        for st in steps:
            st.pop("_shared_sub", None)
            st.pop("_shared_tpl", None)
        case["steps"] = steps
        case["pre"] = {"history": True}
        return case
    try:
        rec = K.run_reactor(case)
    except Exception as e:
        case["pre"] = {"error": type(e).__name__ + ": " + str(e)[:120]}
        return case
    if not K.in_domain_tpl(rec.tpl):
        case["pre"] = {"outside": "template outside the model domain (wildcard / missing typesGH)"}
        return case
    try:
        calls = []
        for m, remaps, hx, out in rec.glue_calls[:MAXM]:
            calls.append([K.map_pairs(m), None if remaps is None else [K.map_pairs(x) for x in remaps[:MAXR]]])
        def valid_of(ci):
            m, remaps, hx, out = rec.glue_calls[ci]
            base, ms = (rec.host, [m]) if remaps is None else (hx, remaps)
            return [_valid_additive(base, rec.rule.rc.raw, mm) for mm in ms]
        ords = K.order_tables(rec, MAXM, MAXR, valid_of) if case.get("mode", "E") == "E" else []
        case["pre"] = {"host": _host_json(rec.host), "tpl": _its_json(rec.tpl), "calls": calls,
                       "nmaps": len(rec.mappings), "nraw": len(rec.raw), "nits": len(rec.its_list)}
        if any(t for row in ords for t in row):
            case["pre"]["ords"] = ords      # visiting orders of hydrogen-transfer groups that are not the sorted order
        if case.get("script"):
            # the state machine needs ALL mappings and re-matches (no truncation) and RDKit's strings for every result
            full = len(rec.glue_calls) <= MAXM and all(rm is None or len(rm) <= MAXR for _, rm, _, _ in rec.glue_calls)
            if full and (rec.its_err is None or case.get("tpl_form") == "synrule-raw"):
                case["pre"]["script"] = [K.SCRIPT_OPS[a] for a in case["script"]]
                case["pre"]["sers"] = K.side_smiles(rec.its_list)
    except Exception as e:
        case["pre"] = {"outside": "encoding: " + str(e)[:120]}
    return case


def _prep_worker(case):
    K.quiet()
    return prepare(case)


def prepare_all(cases, procs=16):
    import multiprocessing as mp
    if not cases:
        return []
    with mp.get_context("fork").Pool(min(procs, len(cases)), initializer=K.quiet) as pool:
        return pool.map(_prep_worker, cases, chunksize=max(1, min(8, len(cases) // 64)))


# ------------------------------------------------------------------ implementation adapter

def _branches(host_its_before, rc, m):
    """(absent, additive, overwrite) counters of the edge-merge, recomputed from the inputs"""
    a = b = c = 0
    for u, v, d in rc.edges(data=True):
        hu, hv = m.get(u), m.get(v)
        if hu is None or hv is None:
            continue
        if not host_its_before.has_edge(hu, hv):
            a += 1
        elif d.get("order", (0, 0))[0] == 0:
            b += 1
        else:
            c += 1
    return [a, b, c]


def _valid_additive(base, rc, m):
    """repaired _glue_graph: a formed bond over an existing host bond must give an integral order"""
    for u, v, d in rc.edges(data=True):
        hu, hv = m.get(u), m.get(v)
        if hu is None or hv is None or not base.has_edge(hu, hv):
            continue
        o = d.get("order", (0, 0))
        if o[0] == 0:
            s = base[hu][hv].get("order", 1.0) + o[1]
            if s != round(s):
                return False
    return True


def impl(case):
    if case.get("kind") == "history":
        return _history_run(case, _impl_one)
    return _impl_one(case)


def _impl_one(case):
    from synkit.Graph.Hyrogen._misc import h_to_implicit, has_XH
    pre = case.get("pre")
    if pre is not None and ("error" in pre or "outside" in pre):
        return ["SKIP"]
    rec = K.run_reactor(case)
    rule = rec.rule
    left = rule.left.raw
    mode = case.get("mode", "E")
    pat = h_to_implicit(left) if has_XH(left) else left
    stripped = mode != "I" and not (case.get("tpl_form") == "synrule" and case.get("invert")) and case.get("tpl_form") != "synrule-raw"   # an inverted SynRule object is not prepared again; a raw one never was
    obs = [[K.rc_obs(rule.rc.raw, stripped), K.mol_obs(left), K.mol_obs(rule.right.raw)], 1 if rec.flag else 0, K.mol_obs(pat)]
    show_ex = mode == "E" and rec.its_err is None
    after = list(rec.its_list)
    k = 0
    calls = []
    for m, remaps, hx, out in rec.glue_calls:
        if remaps is None:
            base, ms = rec.host, [m]
        else:
            base, ms = hx, remaps
        valid = [_valid_additive(base, rule.rc.raw, mm) for mm in ms]
        if sum(valid) != len(out):
            raise AssertionError("adapter: %d glued graphs for %d (re)mappings of which %d should be valid" % (len(out), len(ms), sum(valid)))
        if len(calls) < MAXM:
            row = [K.map_obs(m), 1]          # 1 = the matcher's mapping is a valid match (the model recomputes it)
            if remaps is None:
                row += [[], []]
            else:
                row += [[K.mol_obs(hx)], [[K.map_obs(x), 1] for x in remaps[:MAXR]]]
            gl = []
            j = 0
            for q, mm in enumerate(ms[:MAXR]):
                if not valid[q]:
                    gl.append([])
                    continue
                g = out[j]
                # last 1: the closed form of the first-fit pairing (zip of donor and recipient slots) agrees with the pairing on every group (model: zip_okb)
                o = [K.its_obs(g), _branches(base, rule.rc.raw, mm), [K.explicit_h_obs(g, after[k + j]), K.explicit_h_wiring(g, after[k + j]), 1] if show_ex else []]
                gl.append([o])
                j += 1
            row.append(gl)
            row.append(1)                    # the theorems' hypotheses (wf host, match_rcb) hold: recomputed by the model
            calls.append(row)
        k += len(out)
    obs.append(calls)
    obs.append(0 if rec.its_err is None else 1)
    obs.append(1)                            # wf_rcb rule.rc && wf_hostb host (recomputed by the model)
    obs.append(1)                            # the explicit-hydrogen route is taken exactly when the pattern keeps X-H (model: flag vs re-matches)
    # rule_link_okb: the rule's left graph is the reactant side of its rule graph (model recomputes it);
    # default_tpl_okb: do the default-mode end-to-end theorems apply to this template?  (computed independently on both sides)
    _tj = _its_json(rec.tpl)
    obs = [obs, 1, K.default_tpl_ok([row[:3] for row in _tj[0]], _tj[1])]
    if case.get("reads"):
        return [obs, 1 if rec.reads_ok else 0]   # repeated reads of the cached attributes all gave the first value
    if pre is not None and pre.get("script") is not None:
        # the value of every scripted read (model: run_reads); 1 = the capstone's hypotheses hold (model: hyps_okb); 1 = ... in the matcher-contract form (matcher_hyps_okb)
        return [obs, [K.script_obs(rec), 1], 1]
    return obs


# ------------------------------------------------------------------ model encoder

def _c_t5(t):
    return "(NA %s %s %s %s %s)" % (K.cN(K.ecode(t[0])), K.cb(t[1]), K.cZ(t[2]), K.cZ(t[3]), K.cl([K.cN(K.ecode(x)) for x in t[4]]))


def coq_case(case):
    if case.get("kind") == "history":
        if case.get("pre") is None:
            case = prepare(case)
        terms = [coq_case(st) for st in case["steps"]]
        if any(t is None for t in terms):
            return None          # a step outside the model's domain: only the oracle judges this history
        return "L [%s]" % "; ".join("(%s)" % t for t in terms)
    pre = case.get("pre")
    if pre is None:
        pre = prepare(case)["pre"]
    if "error" in pre or "outside" in pre:
        return None
    hn, he = pre["host"]
    host = "(LG %s %s)" % (K.cl(["(%s, %s)" % (K.cN(n), _c_t5((el, ar, hc, ch, nb))) for n, el, ar, hc, ch, nb in hn]),
                           K.cl(["(%s, %s, %s)" % (K.cN(u), K.cN(v), K.cZ(o)) for u, v, o in he]))
    tn, te = pre["tpl"]
    chp = lambda row: "None" if len(row) < 4 else "(Some %s)" % K.cl([K.cN(x) for x in row[3]])
    tpl = "(LG %s %s)" % (K.cl(["(%s, IN %s %s 0%%Z %s)" % (K.cN(row[0]), _c_t5(row[1]), _c_t5(row[2]), chp(row)) for row in tn]),
                          K.cl(["(%s, %s, (%s, %s, %s))" % (K.cN(u), K.cN(v), K.cZ(a), K.cZ(b), K.cZ(s)) for u, v, a, b, s in te]))
    calls = []
    for m, remaps in pre["calls"]:
        cm = K.cl(["(%s, %s)" % (K.cN(p), K.cN(h)) for p, h in m])
        cr = "None" if remaps is None else "(Some %s)" % K.cl([K.cl(["(%s, %s)" % (K.cN(p), K.cN(h)) for p, h in x]) for x in remaps])
        calls.append("(%s, %s)" % (cm, cr))
    mode = case.get("mode", "E")
    raw = case.get("tpl_form") == "synrule-raw"      # SynRule(tpl, implicit_h=False) handed to a reactor in the default mode: used as it is
    tbls = K.cl([K.cl([K.cl([K.cl([K.cN(x) for x in o]) for o in tbl]) for tbl in row]) for row in pre.get("ords", [])])
    is_obj = case.get("tpl_form") in ("synrule", "synrule-raw")
    t = "%s %s %s %s %s %s %s %s" % ("run_c03ro" if is_obj else "run_c03o", K.cb(case.get("invert", False)), K.cb(mode == "I" or raw), K.cb(mode == "E"), host, tpl, K.cl(calls), tbls)
    # the prepared rule's left graph IS the reactant side of its rule graph as far as matching goes (hypothesis of
    # C03_its_list_instances_matcher that concerns the rule alone): evaluated on every case
    # ... and the template-side hypotheses of the default-mode capstones as one boolean of the template as written (default_tpl_okb;
    # the implementation side computes it independently: K.default_tpl_ok)
    t = "L [%s; tbool (rule_link_okb (mk_rule %s %s %s %s)); tbool (default_tpl_okb %s)]" % (
        t, K.cb(case.get("invert", False)), K.cb(mode == "I" or raw), K.cb(is_obj), tpl, tpl)
    if case.get("reads"):
        return "L [%s; tbool true]" % t
    if pre.get("script") is not None:
        cstr = lambda b: "None" if b is None else "(Some %s)" % K.cl([K.cN(x) for x in b])
        sers = K.cl(["(%s, %s)" % (cstr(a), cstr(b)) for a, b in pre["sers"]])
        rd = "run_reads %s %s %s %s %s %s %s %s %s %s" % (K.cb(case.get("invert", False)), K.cb(mode == "I" or raw), K.cb(mode == "E"),
                                                   K.cb(is_obj), host, tpl, K.cl(calls), tbls, sers,
                                                   K.cl([K.cN(x) for x in pre["script"]]))
        # the hypotheses of C03_its_list_instances_matcher (matcher contract on the rule's left graph, left_of_rcb, edges_closedb, wf) as one boolean
        mh = "tbool (matcher_hyps_okb (mk_rule %s %s %s %s) %s %s)" % (K.cb(case.get("invert", False)), K.cb(mode == "I" or raw),
                                                                       K.cb(is_obj), tpl, host, K.cl(calls))
        return "L [%s; %s; %s]" % (t, rd, mh)
    return t


# ------------------------------------------------------------------ property oracle (independent of the model)

def _case_key(case):
    if case.get("key"):
        return case["key"]
    return None


def oracle(case):
    if case.get("kind") == "history":
        out = []
        for i, fs in enumerate(_history_run(case, _oracle_one)):
            for f in fs:
                f = dict(f)
                f["detail"] = "step %d of the history: %s" % (i + 1, f["detail"])
                out.append(f)
        return out[:4]
    return _oracle_one(case)


def _oracle_one(case):
    import copy
    pre = case.get("pre")
    if pre is not None and "error" in pre:
        return []
    try:
        rec = K.run_reactor(case, want_smarts=True)
    except Exception:
        return []          # construction errors (unparsable input) are not results
    if not K.in_domain_tpl(rec.tpl):
        return []          # wildcard templates belong to the partial-matching engine
    mode = case.get("mode", "E")
    if not K.tpl_mode_ok(rec.tpl, mode) and not case.get("key"):
        return []          # hydrogen mode does not fit how the template is written (API precondition: the docstring asks for
                           # implicit_temp=True with implicit-H templates); the keyed regress witnesses of this class are judged
    inv = bool(case.get("invert", False))
    fails = []
    base = _case_key(case)
    if rec.its_err is not None:
        fails.append(dict(clause="explicit-h-crash", detail="SynReactor._explicit_h raised %s" % rec.its_err))
    for cl, msg in K.input_failures(case, rec.host):
        fails.append(dict(clause="its-" + cl, detail=msg))
    if not rec.inputs_ok:
        fails.append(dict(clause="input-modified", detail="the reactor modified the caller's %s (attributes differ after the call): a later use of the same object starts from stale labels" % getattr(rec, "inputs_what", "input")))
    if not rec.reads_ok:
        fails.append(dict(clause="unstable-reads", detail="mappings / its_list / smarts_list / smiles_list change between repeated reads of the same reactor"))
    seen = set()
    for i, its in enumerate(rec.its_list[:400]):
        for cl, msg in K.its_level_failures(rec.host, rec.tpl, its, inv):
            if cl in seen:
                continue
            seen.add(cl)
            f = dict(clause="its-" + cl, detail="result #%d of %d: %s" % (i, len(rec.its_list), msg))
            if base:
                f["key"] = "%s:%s" % (base, cl)
            fails.append(f)
    # string level (RDKit-bound half: tested, not proved)
    fails += _string_level(case, rec, inv, base)
    return fails[:4]


def _string_level(case, rec, inv, base):
    from rdkit import Chem
    out = []
    sub = case["sub"]
    if isinstance(sub, dict):
        return out
    try:
        wm = Chem.MolFromSmiles(sub)
        for a in wm.GetAtoms():
            a.SetAtomMapNum(0)
        want = Chem.MolToSmiles(Chem.RemoveHs(wm))
    except Exception:
        return out
    for s in rec.smarts[:200]:
        try:
            l, r = s.split(">>")
            side = r if inv else l
            ms = Chem.MolFromSmiles(side)
            for a in ms.GetAtoms():
                a.SetAtomMapNum(0)
            got = Chem.MolToSmiles(Chem.RemoveHs(ms))
        except Exception as e:
            out.append(dict(clause="smi-unparsable", detail="returned reaction %r does not re-parse: %s" % (s, e)))
            break
        if got != want:
            f = dict(clause="smi-a", detail="substrate side of returned reaction %r is %s, substrate is %s" % (s, got, want))
            if base:
                f["key"] = base + ":smi-a"
            out.append(f)
            break
    # clause (b) on the returned STRINGS (audit-A1, findings 1 / 2): when the template is balanced (no atom changes its element, hydrogen
    # counts and charges sum to the same on both sides) the two sides of every returned reaction have the same element counts, hydrogens
    # included, and the same total charge
    tpl = rec.tpl
    if all(d["typesGH"][0][0] == d["typesGH"][1][0] for _, d in tpl.nodes(data=True)) and K.totals(tpl) == (0, 0):
        from collections import Counter
        for s in rec.smarts[:200]:
            try:
                sides = []
                for side in s.split(">>"):
                    mh = Chem.AddHs(Chem.MolFromSmiles(side))
                    sides.append((Counter(a.GetSymbol() for a in mh.GetAtoms()), sum(a.GetFormalCharge() for a in mh.GetAtoms())))
            except Exception:
                break              # unparsable strings are reported above
            if len(sides) == 2 and sides[0] != sides[1]:
                f = dict(clause="smi-b", detail="returned reaction %r is not balanced: %r / charge %d on one side, %r / charge %d on the other "
                         "(the template is balanced)" % (s, dict(sides[0][0]), sides[0][1], dict(sides[1][0]), sides[1][1]))
                if base:
                    f["key"] = base + ":smi-b"
                out.append(f)
                break
    return out


# ------------------------------------------------------------------ evidence helpers

def _flat(case, obs):
    """(single case, plain observable) pairs of a case (history cases have one per step; 'reads' wraps the observable)"""
    if case.get("kind") == "history":
        steps = case.get("steps") or []
        if not isinstance(obs, list) or len(obs) != len(steps):
            return []
        out = []
        for st, o in zip(steps, obs):
            out += _flat(st, o)
        return out
    if case.get("reads") and isinstance(obs, list) and len(obs) == 2 and isinstance(obs[0], list):
        obs = obs[0]
    elif (case.get("pre") or {}).get("script") is not None and isinstance(obs, list) and len(obs) == 3 and isinstance(obs[0], list):
        obs = obs[0]
    if isinstance(obs, list) and len(obs) == 3 and isinstance(obs[0], list) and obs[1] == 1 and obs[2] in (0, 1) and len(obs[0]) >= 4:
        obs = obs[0]                         # [standard observable, rule_link bit, default_tpl_ok bit]
    return [(case, obs)]


def nontrivial(case, obs):
    return any(_nontrivial_one(c, o) for c, o in _flat(case, obs))


def _nontrivial_one(case, obs):
    if not isinstance(obs, list) or len(obs) < 4 or obs[0] == "SKIP":
        return False
    calls = obs[3]
    nres = sum(1 for c in calls for g in c[4] if g)
    pre = case.get("pre") or {}
    changed = sum(1 for e in (pre.get("tpl") or [[], []])[1] if e[2] != e[3])
    return nres >= 1 and changed >= 2


def distribution(cases, obss):
    d = dict(modes={}, strategies={}, direction={}, with_match=0, explicit_path=0, results=0, branch_absent=0, branch_additive=0,
             branch_overwrite=0, charge_changing_templates=0, hydrogen_changing_templates=0, skipped=0, explicit_h_stage=0,
             host_sizes={}, template_sizes={})
    d["kinds_api"] = {}
    d["oracle_truncated_at_400_results"] = d["oracle_truncated_at_200_strings"] = 0
    for c0, o0 in zip(cases, obss):
        if c0.get("kind") in ("history", "api"):
            k = c0.get("family", c0.get("kind"))
            d["kinds_api"][k] = d["kinds_api"].get(k, 0) + 1
    flat = []
    for c0, o0 in zip(cases, obss):
        flat += [(dict(c, reads=0, kind=c.get("kind") if c.get("kind") != "history" else "step"), o) for c, o in _flat(c0, o0)]
    for c, o in flat:
        pre = c.get("pre") or {}
        if not isinstance(o, list) or len(o) < 4 or o[0] in ("SKIP", "EXC"):
            d["skipped"] += 1
            continue
        d["modes"][c.get("mode", "E")] = d["modes"].get(c.get("mode", "E"), 0) + 1
        d["strategies"][c.get("strategy", "all")] = d["strategies"].get(c.get("strategy", "all"), 0) + 1
        k = "backward" if c.get("invert") else "forward"
        d["direction"][k] = d["direction"].get(k, 0) + 1
        calls = o[3]
        if calls:
            d["with_match"] += 1
        if o[1]:
            d["explicit_path"] += 1
        for cl in calls:
            for gg in cl[4]:
                if not gg:
                    d["no_its_nonintegral_sum"] = d.get("no_its_nonintegral_sum", 0) + 1
                    continue
                g = gg[0]
                d["results"] += 1
                d["branch_absent"] += g[1][0]
                d["branch_additive"] += g[1][1]
                d["branch_overwrite"] += g[1][2]
                if g[2]:
                    d["explicit_h_stage"] += 1
        # the oracle looks at the first 400 results / 200 strings of a run: how many runs have more (audit-A1, finding 3)
        if pre.get("nits", 0) > 400:
            d["oracle_truncated_at_400_results"] = d.get("oracle_truncated_at_400_results", 0) + 1
        if pre.get("nits", 0) > 200:
            d["oracle_truncated_at_200_strings"] = d.get("oracle_truncated_at_200_strings", 0) + 1
        tn = (pre.get("tpl") or [[], []])[0]
        if c.get("mode", "E") != "I" and pre.get("tpl"):
            k = "default_mode_end_to_end_theorem_applies" if K.default_tpl_ok([row[:3] for row in pre["tpl"][0]], pre["tpl"][1]) else "default_mode_template_outside_the_end_to_end_theorem"
            d[k] = d.get(k, 0) + 1
        tn = [row[:3] for row in tn]
        if any(g[3] != h[3] for _, g, h in tn):
            d["charge_changing_templates"] += 1
        if any(g[2] != h[2] for _, g, h in tn) or any(g[0] == "H" for _, g, h in tn):
            d["hydrogen_changing_templates"] += 1
        hs = str(min(len((pre.get("host") or [[], []])[0]) // 10 * 10, 90))
        d["host_sizes"][hs] = d["host_sizes"].get(hs, 0) + 1
        ts = str(min(len(tn), 30) // 3 * 3)
        d["template_sizes"][ts] = d["template_sizes"].get(ts, 0) + 1
    return d


# ------------------------------------------------------------------ generators

def _wellformed(name):
    """indices of corpus reactions usable as templates (parse, no wildcard), with the hydrogen mode the reaction calls for"""
    path = os.path.join(K.VERIF, "corpus", "C03_corpus_index.json")
    import json
    return json.load(open(path))[name]


def _syn_case(rng):
    """synthetic ITS template planted on a random host graph (graph level, no RDKit)"""
    els = ["C", "C", "N", "O", "S"]
    n = rng.randint(2, 7)
    ids = rng.sample(range(1, 14), n)
    hnodes = []
    for i in ids:
        hnodes.append([i, {"element": rng.choice(els), "aromatic": rng.random() < 0.3, "hcount": rng.choice([0, 1, 2, 3]),
                           "charge": rng.choice([0, 0, 0, 1, -1]), "neighbors": [rng.choice(els) for _ in range(rng.randint(0, 2))],
                           "atom_map": 0}])
    hedges = {}
    for a in range(n):
        for b in range(a + 1, n):
            if rng.random() < 0.45:
                hedges[(ids[a], ids[b])] = rng.choice([1, 1, 1, 2, 1.5, 1.5, 3])
    host = {"nodes": hnodes, "edges": [[u, v, {"order": o}] for (u, v), o in hedges.items()]}
    hattr = {i: a for i, a in hnodes}
    k = rng.randint(1, min(4, n))
    chosen = rng.sample(ids, k)
    tids = rng.sample(range(1, 25), k)
    t_of = dict(zip(chosen, tids))
    mode = rng.choice(["I", "I", "E", "S"])
    inv = rng.random() < 0.4
    tn, te = [], []
    next_tid = max(tids) + 1

    def tup(el, hc, ch):
        return [el, rng.random() < 0.3, hc, ch, [rng.choice(els) for _ in range(rng.randint(0, 2))]]
    hcG = {}
    for h in chosen:
        a = hattr[h]
        if mode == "I":
            g = rng.randint(0, a["hcount"])
            hh = rng.choice([g, g, rng.randint(0, 3)])
        else:
            g = hh = rng.randint(0, 3)
        hcG[h] = g
        tn.append([t_of[h], tup(a["element"], g, a["charge"]), tup(a["element"], hh, rng.choice([a["charge"], a["charge"], 0, 1, -1]))])
    for x in range(k):
        for y in range(x + 1, k):
            u, v = chosen[x], chosen[y]
            o = hedges.get((u, v), hedges.get((v, u)))
            if o is not None:
                l = o if rng.random() < 0.7 else 0
            else:
                l = 0
            r = rng.choice([0, 0, 1, 1, 2, 1.5, l, l]) if (o is not None) else rng.choice([0, 0, 0, 1, 1, 2, 1.5])
            if l == 0 and r == 0:
                continue
            s = l - r if rng.random() < 0.95 else rng.choice([0, 1, -1])
            te.append([t_of[u], t_of[v], l, r, s])
    # explicit hydrogens on the template (the realistic way of writing hydrogen changes in the default mode)
    if mode != "I" or rng.random() < 0.25:
        for h in chosen:
            avail = hattr[h]["hcount"] - (hcG[h] if mode == "I" else 0)
            for _ in range(rng.randint(0, min(2, max(0, avail)))):
                hid = next_tid
                next_tid += 1
                z = rng.random()
                free_charge = 0
                if z < 0.35:
                    te.append([t_of[h], hid, 1, 1, 0])            # stays
                elif z < 0.8 and k > 1:
                    other = rng.choice([c for c in chosen if c != h])
                    te.append([t_of[h], hid, 1, 0, 1])
                    te.append([t_of[other], hid, 0, 1, -1])        # migrates
                else:
                    te.append([t_of[h], hid, 1, 0, 1])            # leaves as H+ / H.
                    free_charge = rng.choice([0, 1])
                tn.append([hid, ["H", False, 0, 0, []], ["H", False, 0, free_charge, []]])
    if inv:
        tn = [[n_, h_, g_] for n_, g_, h_ in tn]
        te = [[u, v, r, l, -s] for u, v, l, r, s in te]
    rng.shuffle(tn)
    tpl = {"nodes": [[n_, {"element": g_[0], "charge": g_[3], "atom_map": n_, "typesGH": [g_, h_]}] for n_, g_, h_ in tn],
           "edges": [[u, v, {"order": [l, r], "standard_order": s}] for u, v, l, r, s in te]}
    return dict(kind="synthetic", tpl={"graph": tpl}, sub={"graph": host}, invert=inv, strategy=rng.choice(["all", "all", "comp", "bt"]), mode=mode)


def _own(name, i, core, inv, strategy, mode):
    r = K.corpus()[name][i]
    a, b = K.std_fit(r).split(">>")
    return dict(kind="own-%s-%s" % (name, "centre" if core else "full"), name="%s#%d:%s:%s:%s:%s" % (name, i, "centre" if core else "full", "bwd" if inv else "fwd", strategy, mode),
                tpl=dict(rsmi=r, core=core), sub=(b if inv else a), invert=inv, strategy=strategy, mode=mode)


def _foreign(p, strategy):
    C = K.corpus()
    name, i, inv, sname, j, sside, mode = p
    r = C[name][i]
    s = K.std_fit(C[sname][j]).split(">>")[sside]
    return dict(kind="foreign-%s" % name, name="%s#%d:centre:%s on %s#%d.%d:%s:%s" % (name, i, "bwd" if inv else "fwd", sname, j, sside, strategy, mode),
                tpl=dict(rsmi=r, core=True), sub=s, invert=bool(inv), strategy=strategy, mode=mode)


def _hand_cases(rng, full):
    out = []
    for name, r, subs in HAND:
        tplg = K.tpl_graph(dict(rsmi=r, core=False))
        modes = ["E", "S", "I"] if K.tpl_mode_ok(tplg, "E") else ["I"]
        a, b = r.split(">>")
        for core in (True, False):
            for mode in modes:
                for sub in subs:
                    for st in (["all", "comp", "bt"] if full else [rng.choice(["all", "comp", "bt"])]):
                        out.append(dict(kind="hand", name="hand:%s:%s:%s:%s:%s" % (name, "centre" if core else "full", sub, st, mode),
                                        tpl=dict(rsmi=r, core=core), sub=sub, invert=False, strategy=st, mode=mode))
                # backward on the template's own products
                try:
                    from rdkit import Chem
                    m = Chem.MolFromSmiles(b)
                    for at in m.GetAtoms():
                        at.SetAtomMapNum(0)
                    psub = Chem.MolToSmiles(Chem.RemoveHs(m))
                    out.append(dict(kind="hand", name="hand:%s:%s:bwd:%s" % (name, "centre" if core else "full", mode),
                                    tpl=dict(rsmi=r, core=core), sub=psub, invert=True, strategy="all", mode=mode))
                except Exception:
                    pass
    return out


def gen_cases(tier, rng):
    import json
    K.quiet()
    idx = {n: _wellformed(n) for n in ("usp", "eco")}
    pairs = json.load(open(os.path.join(K.VERIF, "corpus", "C03_pairs.json")))["pairs"]
    cases = _hand_cases(rng, tier != "quick") + _multih_cases(rng, tier != "quick") + _api_cases(rng, tier != "quick")
    strategies = ["all", "comp", "bt"]
    if tier == "quick":
        pick = {"usp": rng.sample(idx["usp"], 16), "eco": rng.sample(idx["eco"], 24)}     # 40 reactions
        for name in ("usp", "eco"):
            for i, mode in pick[name]:
                for core in (True, False):
                    inv = rng.random() < 0.5
                    cases.append(_own(name, i, core, inv, rng.choice(strategies), mode))
                    if core:
                        cases.append(_own(name, i, core, not inv, rng.choice(strategies), mode))
                fp = [p for p in pairs if p[0] == name and p[1] == i]
                for p in rng.sample(fp, min(3, len(fp))):
                    cases.append(_foreign(p, rng.choice(strategies)))
        nsyn = 700
    else:
        for name in ("usp", "eco"):
            for i, mode in idx[name]:
                for core in (True, False):
                    for inv in (False, True):
                        cases.append(_own(name, i, core, inv, rng.choice(strategies) if not core else "all", mode))
                        if core:
                            cases.append(_own(name, i, core, inv, rng.choice(["comp", "bt"]), mode))
                fp = [p for p in pairs if p[0] == name and p[1] == i]
                for p in rng.sample(fp, min(6, len(fp))):
                    cases.append(_foreign(p, rng.choice(strategies)))
                # the other hydrogen modes where the template allows them
                if mode == "E":
                    cases.append(_own(name, i, True, False, "all", "S"))
                    cases.append(_own(name, i, True, rng.random() < 0.5, "all", "I"))
        nsyn = 6000
    for _ in range(nsyn):
        cases.append(_syn_case(rng))
    for _ in range(120 if tier == "quick" else 1500):
        cases.append(_syn_transfer_case(rng))
    for _ in range(60 if tier == "quick" else 600):
        cases.append(_syn_group_case(rng))
    for _ in range(40 if tier == "quick" else 400):
        cases.append(_syn_raw_case(rng))
    return prepare_all(cases)


LEVEL_TEXT = ("Machine-checked proof (Coq, 86 theorems, all closed under the global context) over an executable model of gluing a rule onto a "
              "substrate along a match (SynReactor._glue_graph/_node_glue), _invert_template, _explicit_h, h_to_explicit and SynRule.__init__ "
              "(implicit-template mode; default mode for templates without explicit hydrogen atoms): for EVERY substrate graph, rule graph and valid match (boolean hypotheses wf_hostb, wf_rcb, match_rcb) "
              "(a) the reactant molecule graph of the glued ITS is the substrate (same atoms in the same order, same bonds), (b) every element "
              "count including hydrogen and the total charge agree on both sides when the rule is balanced, and differ by exactly the rule's "
              "imbalance otherwise, (c) the changed bonds are exactly the images of the rule's bonds with equal order changes, matched atoms carry "
              "the rule atom's element, hydrogen change and charges, every other bond and atom is untouched; the bond-forming-over-a-bond branch "
              "adds orders exactly and no ITS is produced iff the sum is not a bond order; the same backwards via _invert_template (sides swapped "
              "literally, deltas negated); the explicit-hydrogen stage and the hydrogen expansion of the substrate keep all element counts, the "
              "charge and all bonds between substrate atoms (partial: the validity of VF2 re-matches is a premise). The model is tied to the Python "
              "code by comparing every intermediate graph (before RDKit serialisation) on corpus, hand-made and synthetic (template, substrate) "
              "pairs on every run, forward/backward, strategies all/comp/bt, three hydrogen modes, including rules that move several hydrogens "
              "(independent transfers, several between the same two atoms, mixed) on substrates rewritten in PRNG-chosen atom orders; the observable "
              "includes the donor->recipient wiring of every re-materialised hydrogen, and _explicit_h is proved to wire every new hydrogen between a "
              "donor and a recipient of the same h_pairs group, each donor giving exactly its surplus. One clause is REFUTED and listed as a known "
              "finding: an implicit-H template used without implicit_temp=True loses its hydrogen changes. Round 3: every input form of the "
              "substrate (unlabelled / fully / partially labelled / repeated-number SMILES, graph with arbitrary ids, SynGraph) and of the template "
              "(graph, string, SynRule), every constructor option and construction route, repeated reads of the cached attributes, and histories "
              "of several reactors in one process (atom orders, numberings, options then defaults, results mutated, graph edited in place, "
              "template reused) are in the quick tier; clause (a) is judged against an independent RDKit reading of the substrate; default-mode "
              "rule preparation is characterised exactly (C03_synrule_default_exact, pair ids in both directions), and clauses (b) and (c) are proved END TO "
              "END for the default mode from conditions on the template alone (C03_default_end_to_end_direct/_expanded, "
              "C03_default_changed_bonds, C03_default_migrations_in_template_groups); SynRule objects as templates are modelled (C03_wrap_rule). "
              "Round 5: the visiting order of a hydrogen-transfer group inside _explicit_h (a Python set: hash-table order) is a parameter of the model "
              "(model/C03_Order.v; the sorted order assumed before differs from the code as soon as a group has two donors and two recipients with ids >= 8: "
              "population synthetic-group); all _explicit_h theorems are proved for every order, and the partner choice inside a group is characterised in "
              "closed form (first fit = zip of slots, C03_first_fit_zip). The reactor's lazily cached attributes (_rule, _mappings + explicit-hydrogen flag, _its, "
              "_smarts) are modelled as a state machine (model/C03_Reactor.v) and scripts of reads on fresh reactors are compared value by value; proved: every "
              "read, in any order and any number of times, returns the value the inputs determine (C03_reads_stable, C03_fresh_its_route), the direction of the "
              "returned strings (C03_smarts_direction), and what the code does after _explicit_h raises (C03_reads_after_crash: later reads silently return the "
              "glued graphs). Capstone C03_its_list_instances / C03_reads_return_instances: for well-formed inputs and valid matcher answers (call_okb, evaluated on "
              "every scripted case) EVERY graph its_list returns — explicit stage on or off, direct or hydrogen-expanded route, any visiting order, whatever was "
              "read before — is a glued graph (optionally after _explicit_h) whose reactant side has the substrate's element counts, charge and bonds, which is "
              "balanced if the rule is, and whose changed bonds are the images of the rule's plus only the in-group bonds of re-materialised hydrogens. "
              "C03_default_reactor_total: in the default mode, forwards and backwards, for every template that satisfies the evaluated boolean default_tpl_okb "
              "(true on 82 % of the default-mode runs of the quick tier), every well-formed substrate and every matcher that keeps its contract, the reactor "
              "never raises (C03_default_glued_exact: every hydrogen-transfer group is exact, via a hydrogen ledger), every read returns the specified value, "
              "and every graph returned is a balanced instance of the prepared rule. The same end to end for the implicit-template mode "
              "(C03_its_list_implicit_end_to_end) and SynRule objects applied backwards (C03_its_list_synrule_object_backward).")
LEVEL_NOTE = ("Trusted: Coq kernel + vm_compute; the hand-written models (C03_Model.v, C03_Order.v, C03_Reactor.v), the statement vocabulary "
              "(proof/C03_Spec.v, C03_ReactorSpec.v) and the harness encoders; oracle inputs: RDKit parsing, VF2 matching and re-matching (every mapping "
              "used is re-validated by the model's match_okb / match_rcb), the visiting order of each hydrogen-transfer group inside _explicit_h "
              "(a Python set; used only for a component with exactly its atoms), RDKit's graph_to_smi on both sides of every result. The theorems' "
              "hypotheses are booleans recomputed on every case (wf_hostb, wf_rcb, match bits, rule_link_okb, default_tpl_okb, on scripted cases "
              "hyps_okb / matcher_hyps_okb). Premises, not proved: the matcher's contract (C06) and completeness; that RDKit writes the graph it is "
              "given (returned strings are re-parsed and compared by the oracle). Default-mode theorems need templates with the same element on both "
              "sides of every atom, no h_pairs of their own and tpl_condition (82 % of the default-mode runs of the quick tier).")
