"""C04 — applying a reaction's own template regenerates it, forwards and backwards.

case = {"kind", "name", "cid": corpus id ("usp#21", "eco#20", "hand:<name>"), "rsmi": the mapped reaction as written
        for this case (original, or an atom-map renumbering + SMILES rewriting derived from the harness PRNG),
        "core": template = centre | full ITS, "invert": backwards, "strategy": all | comp | bt, "variant": k,
        "pre": {...}}      # model inputs taken from the implementation's parsing (RDKit is not modelled)

The hydrogen mode is decided from the reaction itself (DESIGN section 5, C04): explicit hydrogens in the centre ->
default mode; none -> implicit_temp=True / explicit_h=False; mixed -> outside the precondition.

Observable compared with the Gallina model (graph level, BEFORE any RDKit serialisation; the substrate is the
implicit-hydrogen form of the reaction's own reactant / product graph, node ids = atom maps, so that "the identity
match" is literally the identity):
  precondition bits (explicit centre H, implicit H change, change outside the centre, consistent_H) and the template
  ITS (rsmi_to_its); the SynRule fragments rc / left / right (after _invert_template when backwards); explicit-H flag and
  matcher pattern; the substrate; whether the identity is among the RAW matches of the reactor (model: match_okb);
  the ITS glued along the identity (SynReactor._glue_graph), the result of _explicit_h, and whether its decomposition is
  the reaction again (exactly / in implicit-hydrogen normal form).
The property oracle is the property text itself at string level (unmapped side -> SynReactor -> Standardize.fit of
every output, look for the standardised reaction) with the triage of DESIGN C04 (i)-(v).
"""
import json
import os

from ..gen import c03_common as K
from ..gen import c04_gen as G4
from ..gen import c04_hist as HI
from ..gen import c04_obj as OB

PID = "C04"
COQ_HEADER = ("From Coq Require Import List NArith ZArith Bool.\nImport ListNotations.\n"
              "From SK Require Import lib.Tok lib.LGraph model.C03_Model model.C04_Model model.C04_Reactor.\n")
SHARD = 24
IMPL_TIMEOUT = 2400
COQ_TIMEOUT = 1500
# CPU budget of one impl(case) (oracle: x2; thorough tier: x4): the slowest legitimate case is usp#21 full ITS backwards (thorough only):
# VF2 on the fully expanded substrate, 1.5-5 CPU-minutes per reactor run and two runs in graph_level; quick cases need < 20 s
CASE_CPU_LIMIT = 400
MAXR = 6                   # explicit-hydrogen re-matches of the identity shipped to the model
MAX_RAW = 40               # raw matches shipped to the model's pruning (rule with at most MAX_RULE atoms)
MAX_RULE = 16
CHK_HOST, CHK_PAT, CHK_NRAW = 30, 10, 120      # the model enumerates the raw matches itself (verified enumerator) below these sizes

RULE = ("(corpus reaction satisfying the precondition, written as in the corpus or renumbered + rewritten from the harness PRNG, "
        "template = centre | full ITS, direction, strategy); non-trivial = the identity match exists and the centre has >= 2 changed "
        "bonds; distinct = distinct (reaction string, template kind, direction, strategy)")
EXHAUSTIVE = {"quick": False, "thorough": False}
EXPLANATION = ("Theorems about the Gallina model of rsmi_to_its/get_rc + SynRule + the SynReactor object (options, the caches behind mappings / "
               "its_list / smarts_list, the engine call through C06's find_subgraph_mappings model, the pruning through C11's model, "
               "_glue_graph, _explicit_h, _to_smarts / reverse_reaction) on the reaction's own substrate: the identity is a valid match, it is "
               "among the raw matches of the exhaustive strategy, an equivalent of it survives the pruning, the ITS glued along it decomposes to "
               "the reaction (implicit mode: through the whole reactor up to RDKit; default mode: through _strip_explicit_h, gluing and _explicit_h), "
               "template = full ITS or centre, forwards and backwards; strategies comp / bt refuted with a witness. Correspondence: every "
               "intermediate graph before RDKit, the raw matches (enumerated by the model), the kept mappings, and the VALUE of every read of a "
               "reactor object; oracle: the property itself on strings with triage of every miss.")
TRUSTED_BASE = [
    "Coq 8.16.1 kernel + vm_compute (no native_compute)",
    "hand-written models coq/model/C04_Model.v (ITS construction, centre, substrate preparation, pipeline), coq/model/C04_Reactor.v (the reactor object: "
    "options, caches, engine call, pruning, serialisation glue) and, read-only, coq/model/C03_Model.v (SynRule, glue, _explicit_h, _invert_template), "
    "coq/model/C06_Model.v (find_subgraph_mappings), coq/model/C11_Model.v (pruning by automorphisms), tied to the Python code by the per-run correspondence",
    "harness encoders harness/gen/c03_common.py, harness/gen/c04_gen.py, harness/gen/c04_obj.py, harness/props/C04.py",
    "oracle inputs: RDKit parsing of the mapped reaction into (G, H) and graph_to_smi of the sides of an ITS (handed to the model by position); VF2 "
    "enumeration (the raw matches of the reactor are compared AS A SET with the model's own enumeration by C06's verified enumerator when the graphs "
    "are small, and always through the bit identity-in-raw-matches); explicit-hydrogen re-matches",
]
ASSUMPTIONS = ["the reaction parses with RDKit, has no empty fragment, every atom carries a distinct atom map and both sides carry the same maps (balanced, mapped)",
               "hydrogens written consistently: consistent_H (no reaction with explicit centre hydrogens AND implicit hydrogen-count changes)",
               "the hydrogen mode of the reactor is the one the reaction calls for (explicit centre hydrogens -> default, none -> implicit_temp)"]
TESTED_NOT_PROVED = [
    "string level: RDKit parsing of the unmapped side gives the implicit-hydrogen form of the mapped side (monitored: isomorphism bit in the oracle), "
    "serialisation of the glued ITS (graph_to_smi) and Standardize.fit - the property oracle runs the whole chain; the model takes the strings as inputs",
    "default (explicit-hydrogen) mode: proved from the boolean preconditions default_okb and own_valence_okb (both evaluated by the model and recomputed "
    "by the harness on every case) through rule preparation, engine, pruning, gluing and _explicit_h (C04_in_results_engine_default); outside them "
    "(H2 / H+, hydrogens bonded to hydrogens, the explicit re-match path) the premise 'the prepared rule describes the pair' is validated per case "
    "(describesb, C04_identity_glue_any_rule) and the re-match path is covered by correspondence and oracle only",
    "strategies comp / bt: proved to regenerate when the substrate has fewer components than the pattern or the identity separates the pattern "
    "components (bt also in the strict_cc_count guard region), refuted otherwise (C04_comp_bt_refuted, C04_comp_guard_refuted: 2 + 5 known-finding "
    "keys), for every embed_threshold not below C06's explicit bound comp_bound (premise of the theorems, not evaluated per case: the correspondence "
    "compares the raw matches under the default threshold with the model's own enumeration when the graphs are small)",
    "the _explicit_h stage: the executable model visits the atoms of a hydrogen-transfer group in sorted order, the code in Python-set order; "
    "the two facts the default-mode theorems rest on (the stage keeps the folded reaction; it does not raise) are proved for EVERY order "
    "(C04_explicit_h_any_order_keeps_reaction, C04_any_match_explicit_h_total_any_order), the object-level theorems themselves are stated for the "
    "sorted order; the observable of an ITS after the stage is insensitive to which hydrogen went to which recipient (C03 compares the wiring)",
    "the implicit-mode theorems assume no_explicit_H (no hydrogen ATOM at all), which is stronger than 'no CENTRE hydrogen explicit'; the evidence "
    "counts implicit-mode cases with hydrogen atoms (distribution.implicit_mode_with_H_atoms: 0 in the corpora)",
    "reads after a StopIteration of _explicit_h return the half-processed cached list (C04_stale_after_crash: proved about the model, replayed on "
    "the implementation; outside the precondition, documented)",
    "invariance under atom-map renumbering and SMILES rewriting: every case is run on rewritten inputs (C05 states the equivariance)",
]

HAND = [
    ("quaternisation", "[CH3:1][N:2]([CH3:3])[CH3:4].[CH3:5][I:6]>>[CH3:1][N+:2]([CH3:3])([CH3:4])[CH3:5].[I-:6]"),
    ("sn2-explicit", "[CH3:1][C:2]([H:5])([H:6])[Br:3].[O:4]([H:7])[H:8]>>[CH3:1][C:2]([H:5])([H:6])[O:4][H:8].[Br:3][H:7]"),
    ("deprotonation-explicit", "[CH3:1][C:2](=[O:3])[O:4][H:5].[N:6]([H:7])([H:8])[H:9]>>[CH3:1][C:2](=[O:3])[O-:4].[N+:6]([H:5])([H:7])([H:8])[H:9]"),
    ("deprotonation-implicit", "[CH3:1][C:2](=[O:3])[OH:4].[NH3:5]>>[CH3:1][C:2](=[O:3])[O-:4].[NH4+:5]"),
    ("keto-enol-implicit", "[CH3:1][C:2](=[O:3])[CH3:4]>>[CH2:1]=[C:2]([OH:3])[CH3:4]"),
    ("ring-closure", "[OH:1][CH2:2][CH2:3][CH2:4][CH2:5][Br:6]>>[O:1]1[CH2:2][CH2:3][CH2:4][CH2:5]1.[BrH:6]"),
    ("suzuki-type", "[CH3:1][Br:2].[BH2:3][CH3:4]>>[CH3:1][CH3:4].[BH2:3][Br:2]"),
    ("aromatic-sub", "[Br:2][c:1]1[cH:7][cH:8][cH:9][cH:10][cH:11]1.[NH3:3]>>[NH2:3][c:1]1[cH:7][cH:8][cH:9][cH:10][cH:11]1.[BrH:2]"),
    ("diels-alder", "[CH2:1]=[CH:2][CH:3]=[CH2:4].[CH2:5]=[CH2:6]>>[CH2:1]1[CH:2]=[CH:3][CH2:4][CH2:5][CH2:6]1"),
    ("hydrogenation", "[CH2:1]=[CH2:2].[H:3][H:4]>>[CH2:1]([H:3])[CH2:2][H:4]"),
    ("hydrogenation-ketone", "[CH3:1][C:2](=[O:3])[CH3:4].[H:5][H:6]>>[CH3:1][C:2]([H:5])([O:3][H:6])[CH3:4]"),
    # one donor atom gives two hydrogens to two recipients (one h_pairs component with two recipients: first-fit pairing of _explicit_h)
    ("double-donor", "[S:1]([H:4])[H:5].[CH2:2]=[CH2:3]>>[S:1].[CH2:2]([H:4])[CH2:3][H:5]"),
    ("double-donor-amine", "[CH3:6][N:1]([H:4])[H:5].[CH2:2]=[CH2:3]>>[CH3:6][N:1].[CH2:2]([H:4])[CH2:3][H:5]"),
    # an UNCHANGED bond between two centre atoms (three-membered rings, 1,2-shifts): the substrate has a bond between two matched
    # atoms that the centre pattern does not have (monomorphism, not induced embedding) -- run under all three strategies
    ("meinwald-implicit", "[CH3:1][CH:2]1[CH2:3][O:4]1>>[CH3:1][C:2](=[O:4])[CH3:3]"),
    ("meinwald-explicit", "[CH3:1][C:2]1([H:5])[CH2:3][O:4]1>>[CH3:1][C:2](=[O:4])[CH2:3][H:5]"),
    ("glycidyl-ether", "[CH3:5][O:6][CH2:1][CH:2]1[CH2:3][O:4]1>>[CH3:5][O:6][CH2:1][C:2](=[O:4])[CH3:3]"),
    ("wagner-meerwein", "[CH3:1][C:2]([CH3:5])([CH3:6])[CH2+:3]>>[CH3:1][C+:2]([CH3:5])[CH2:3][CH3:6]"),
    ("aziridine-imine", "[CH3:1][CH:2]1[CH2:3][NH:4]1>>[CH3:1][C:2](=[NH:4])[CH3:3]"),
    ("cyclopropane-open", "[CH2:1]1[CH2:2][CH2:3]1.[Br:4][Br:5]>>[Br:4][CH2:1][CH2:2][CH2:3][Br:5]"),
    # degenerate: nothing changes (empty centre, empty pattern); two single-atom molecules; one atom
    ("identity", "[CH3:1][OH:2]>>[CH3:1][OH:2]"),
    ("salt", "[Na+:1].[Cl-:2]>>[Na:1][Cl:2]"),
    ("amide-charge", "[CH3:1][C:2](=[O:3])[Cl:4].[NH2-:5]>>[CH3:1][C:2](=[O:3])[NH2:5].[Cl-:4]"),
    # a spectator molecule: with a centre template the substrate has MORE components than the pattern -- the strict_cc_count guard
    # region of strategy comp (nothing returned by design), bt falls back to the exhaustive strategy
    ("spectator-water", "[CH3:1][Br:2].[OH-:3].[OH2:4]>>[CH3:1][OH:3].[Br-:2].[OH2:4]"),
    # an INTRAMOLECULAR reaction whose centre pattern has two components (O ; C-Br) next to a spectator that offers the missing group:
    # comp / bt return only the intermolecular reading (C06's specification) -- known findings *:centre:fwd:{comp,bt}:not-separating
    ("intra-spectator", "[OH:1][CH2:2][CH2:3][CH2:4][CH2:5][Br:6].[CH3:7][OH:8]>>[O:1]1[CH2:2][CH2:3][CH2:4][CH2:5]1.[BrH:6].[CH3:7][OH:8]"),
]

ALL_STRATEGIES = {"spectator-water", "intra-spectator", "meinwald-implicit", "meinwald-explicit", "glycidyl-ether", "wagner-meerwein", "aziridine-imine", "cyclopropane-open",
                  "identity", "salt", "diels-alder", "suzuki-type"}
# reactions used for the API-surface and history cases (small, one per feature: explicit H, charges, symmetric, 3-ring, two donors, H2)
HIST_RX = ["sn2-explicit", "quaternisation", "diels-alder", "meinwald-explicit", "double-donor", "hydrogenation"]

# corpus reactions left out of the QUICK sample only because one reactor run takes 10-300 s (VF2 on a symmetric
# substrate); the thorough tier runs them (usp#21 full ITS backwards: original string only)
SLOW = {"eco#83", "eco#92", "eco#227", "eco#95", "eco#256", "eco#163"}


def worker_init():
    K.quiet()


# ------------------------------------------------------------------ graph-level run of the implementation

_MEMO = {}


def _host_json(g):
    return [[[n, d.get("element", "*"), bool(d.get("aromatic", False)), int(d.get("hcount", 0)), int(d.get("charge", 0)),
              list(d.get("neighbors", []))] for n, d in g.nodes(data=True)],
            [[u, v, K.half(d.get("order", 1.0))] for u, v, d in g.edges(data=True)]]


def graph_level(case):
    """Everything the adapter and the triage need from the implementation, at graph level.  Returns a dict; the key
    'skip' is set (with the reason) when the case is outside the precondition."""
    key = (case.get("rsmi"), case.get("core"), case.get("invert"), case.get("strategy"))
    if _MEMO.get("key") == key:
        return _MEMO["val"]
    out = _graph_level(case)
    _MEMO["key"], _MEMO["val"] = key, out
    return out


def _graph_level(case):
    import copy
    K.quiet()
    import synkit.Synthesis.Reactor.syn_reactor as SR
    from synkit.IO.chem_converter import rsmi_to_graph, rsmi_to_its
    from synkit.Graph.ITS.its_decompose import get_rc, its_decompose
    from synkit.Graph.Hyrogen._misc import h_to_implicit, has_XH
    from synkit.Synthesis.Reactor.strategy import Strategy
    r = case["rsmi"]
    core, inv, strategy = bool(case["core"]), bool(case["invert"]), case.get("strategy", "all")
    ok, why = G4.wellformed(r)
    if not ok:
        return {"skip": "malformed: " + why}
    G, H = rsmi_to_graph(r)
    if G is None or H is None:
        return {"skip": "malformed: rsmi_to_graph returns None"}
    its = rsmi_to_its(r, core=False)
    rc0 = get_rc(its)
    ex, im, outside = G4.classify(its, rc0)
    o = dict(G=G, H=H, its=its, rc0=rc0, explicit=ex, implicit=im, outside=outside, consistent=G4.consistent_H(ex, im))
    if not o["consistent"]:
        o["skip"] = "hydrogens not written consistently"
        return o
    mode = G4.mode_of(ex)
    o["mode"] = mode
    tpl = rsmi_to_its(r, core=core)
    o["tpl"] = copy.deepcopy(tpl)
    A, B = (H, G) if inv else (G, H)
    o["A"], o["B"] = A, B
    host = h_to_implicit(A)
    o["host"] = host
    # ---- the reactor on the graph substrate, raw matches recorded
    orig_dedup = SR.deduplicate_matches_by_automorphisms
    seen = {}

    def dedup(ms, *a, **k):
        ms = list(ms)
        seen["raw"] = [dict(m) for m in ms]
        return orig_dedup(ms, *a, **k)
    SR.deduplicate_matches_by_automorphisms = dedup
    try:
        R = SR.SynReactor(copy.deepcopy(host), tpl, invert=inv, strategy=strategy, **K.MODES[mode])
        rule = R.rule
        mappings = [dict(m) for m in R.mappings]
        raw = seen.get("raw", mappings)
        try:
            its_list = list(R.its_list)
            its_err = None
        except StopIteration:
            its_list, its_err = [], "StopIteration"
    finally:
        SR.deduplicate_matches_by_automorphisms = orig_dedup
    left = rule.left.raw
    flag = bool(has_XH(left))
    pat = h_to_implicit(left) if flag else left
    idm = {n: n for n in pat.nodes}
    import networkx as nx
    hcc, pcc = nx.number_connected_components(host), nx.number_connected_components(pat)
    o["guard"] = bool(strategy == "comp" and pcc > 0 and hcc > pcc)
    # the identity does not SEPARATE the pattern components (two of them lie in one substrate component) while the substrate has as many
    # components as the pattern: by C06's specification comp returns only separating matches, bt returns comp's answer unless it is empty
    comp_of = {n: k for k, c in enumerate(nx.connected_components(host)) for n in c}
    hit = [comp_of.get(next(iter(pc))) for pc in nx.connected_components(pat)]
    o["nonsep"] = bool(strategy in ("comp", "bt") and pcc > 0 and hcc == pcc and len(set(hit)) < len(hit))
    # [hcc, pcc, the identity separates the pattern components]: two pattern atoms in one substrate component are in one pattern component
    pcomp_of = {n: k for k, c in enumerate(nx.connected_components(pat)) for n in c}
    inside = {}
    for n in pat.nodes:
        inside.setdefault(comp_of.get(n), set()).add(pcomp_of[n])
    o["sep"] = [hcc, pcc, 1 if all(len(v) <= 1 for v in inside.values()) else 0]
    o["raw"], o["mappings"] = raw, mappings
    o.update(rule=rule, left=left, flag=flag, pat=pat, idm=idm, nraw=len(raw), nmaps=len(mappings),
             id_in_raw=idm in raw, id_kept=idm in mappings, its_list=its_list, its_err=its_err)
    # in that class the identity is outside what the strategy returns by its specification iff comp's answer is not empty; the model is
    # told so through [guard] ONLY together with enumerating the raw matches itself (chk_raw forced in prepare: fail closed otherwise)
    o["nonsep_excluded"] = bool(o["nonsep"] and not o["id_in_raw"] and (strategy == "comp" or len(raw) > 0))
    # ---- gluing along the identity (static method, no RDKit)
    st = Strategy.from_string(strategy)
    remaps, hx = None, None
    if flag:
        ms, hx = SR.SynReactor._get_explicit_map(copy.deepcopy(host), idm, left, st)
        remaps = [dict(m) for m in ms][:MAXR]
        hx = copy.deepcopy(hx)
        base = hx
        for _, d in base.nodes(data=True):
            d.pop("typesGH", None)
        glue_ms = remaps
    else:
        base = host
        glue_ms = [idm]
    glued = []
    for m in glue_ms:
        out = SR.SynReactor._glue_graph(copy.deepcopy(base), rule.rc.raw, m, False)
        glued.append(out[0] if out else None)
    fin = []
    for g in glued:
        if g is None:
            fin.append(None)
        elif mode == "E":
            try:
                fin.append(SR.SynReactor._explicit_h(copy.deepcopy(g)))
            except StopIteration:
                fin.append(None)
        else:
            fin.append(g)
    o.update(remaps=remaps, hx=hx, base=base, glue_ms=glue_ms, glued=glued, fin=fin)
    # the reactor's own kept mappings (implicit path, at most 8, no crash): model and implementation build its_list from them
    usable = (not flag) and its_err is None and len(mappings) <= 8 and len(its_list) == len(mappings)
    o["kept"] = mappings if usable else []
    o["kept_regen"] = (1 if any(_regen_bits(g, A, B)[1] for g in its_list) else 0) if usable else 0
    o["regen"] = [None if f is None else _regen_bits(f, A, B) for f in fin]
    o["in_its_list"] = any(_regen_bits(g, A, B)[1] for g in its_list)
    return o


def _regen_bits(T, A, B):
    from synkit.Graph.ITS.its_decompose import its_decompose
    l, r = its_decompose(T)
    exact = G4.side_sig(l) == G4.side_sig(A) and G4.side_sig(r) == G4.side_sig(B)
    folded = G4.folded_sig(l) == G4.folded_sig(A) and G4.folded_sig(r) == G4.folded_sig(B)
    return [1 if exact else 0, 1 if folded else 0]


# ------------------------------------------------------------------ preparation (model inputs)

def prepare(case):
    case = dict(case)
    if case.get("opts") or case.get("obj"):
        try:
            return _prepare_opts(case) if case.get("opts") else _prepare_object(case)
        except Exception as e:
            case["pre"] = {"error": type(e).__name__ + ": " + str(e)[:160]}
            return case
    try:
        o = graph_level(case)
    except Exception as e:
        case["pre"] = {"error": type(e).__name__ + ": " + str(e)[:160]}
        return case
    if "skip" in o:
        case["pre"] = {"skip": o["skip"]}
        return case
    try:
        case["pre"] = {"G": _host_json(o["G"]), "H": _host_json(o["H"]),
                       "remaps": None if o["remaps"] is None else [[int(n) for n in o["idm"]], [K.map_pairs(m) for m in o["remaps"]]],
                       "guard": bool(o["guard"] or (o["nonsep_excluded"] and o["nraw"] <= CHK_NRAW)), "nonsep": o["nonsep"],
                       "kept": [K.map_pairs(m) for m in o["kept"]],
                       "nchanged": sum(1 for _, _, d in o["rc0"].edges(data=True) if d["order"][0] != d["order"][1]),
                       "mode": o["mode"], "outside": bool(o["outside"]),
                       # the matching stage: raw matches in engine order for the model's pruning; whether the model enumerates them itself
                       "raw": ([K.map_pairs(m) for m in o["raw"]]
                               if o["nraw"] <= MAX_RAW and o["rule"].rc.raw.number_of_nodes() <= MAX_RULE else None),
                       "chk_raw": bool((o["host"].number_of_nodes() <= CHK_HOST and o["pat"].number_of_nodes() <= CHK_PAT
                                        and o["nraw"] <= CHK_NRAW) or (o["nonsep"] and o["nraw"] <= CHK_NRAW))}
    except Exception as e:
        case["pre"] = {"error": "encoding: " + str(e)[:160]}
    return case


def _prep_worker(case):
    K.quiet()
    return prepare(case)


def prepare_all(cases, procs=16):
    import multiprocessing as mp
    if not cases:
        return []
    with mp.get_context("fork").Pool(min(procs, len(cases)), initializer=K.quiet) as pool:
        return pool.map(_prep_worker, cases, chunksize=1)


# ------------------------------------------------------------------ implementation adapter

_HMEMO = {}


def history(case):
    key = (case.get("rsmi"), case.get("core"), case.get("invert"), case.get("strategy"), case.get("hist"))
    if _HMEMO.get("key") == key:
        return _HMEMO["val"]
    o = graph_level(case)
    tgt = K.std_fit(case["rsmi"])
    a, b = tgt.split(">>")
    val = HI.run_history(case["rsmi"], bool(case["core"]), bool(case["invert"]), case.get("strategy", "all"), o["mode"], case["hist"], a, b, tgt)
    _HMEMO["key"], _HMEMO["val"] = key, val
    return val


def impl(case):
    if case.get("opts"):
        return _impl_opts(case)
    if case.get("obj"):
        return _impl_object(case)
    if case.get("hist"):
        base = _impl_m(case)
        if base == ["SKIP"]:
            return base
        return [base, [1 if rec["equal"] else 0 for rec in history(case)]]
    return _impl_m(case)


def _valence_py(tpl, rule, inv):
    """plain-networkx reading of own_valence_okb: every hydrogen atom of the (inverted, when backwards) template has at most as many bonds to
    atoms of the prepared rule on its reactant side as on its product side"""
    gs, hs = (1, 0) if inv else (0, 1)
    kept = set(rule.rc.raw.nodes)
    for h, d in tpl.nodes(data=True):
        if d["typesGH"][gs][0] != "H":
            continue
        dg = sum(1 for k in tpl.neighbors(h) if k in kept and k != h and tpl[h][k]["order"][gs] > 0)
        dh = sum(1 for k in tpl.neighbors(h) if k in kept and k != h and tpl[h][k]["order"][hs] > 0)
        if dg > dh:
            return 0
    return 1


def _impl_m(case):
    """[[plain observable, kept bit], matching stage]"""
    base = _impl_kept(case)
    if base == ["SKIP"]:
        return base
    from ..tok import S
    o = graph_level(case)
    pre = case.get("pre") or prepare(case)["pre"]
    nonneg = 1 if all(int(d.get("hcount", 0)) >= 0 for _, d in o["pat"].nodes(data=True)) else 0
    rawset = [S([K.map_obs(m) for m in o["raw"]])] if pre.get("chk_raw") else []
    kept = [[K.map_obs(m) for m in o["mappings"]]] if pre.get("raw") is not None else []
    return [base, [nonneg, o["sep"], _valence_py(o["tpl"], o["rule"], bool(case["invert"])), rawset, kept]]


# ------------------------------------------------------------------ OPTION cases: embed_threshold / embed_pre_filter reach the engine
OPTS = [(1, False), (2, False), (1, True), (2, True), (3, True), (None, True), (50, True), (0, False)]


def _opts_level(case):
    """the matching stage of a reactor built with non-default embed_threshold / embed_pre_filter (correspondence only: the
    property says nothing about them): raw matches, kept mappings, component structure"""
    import copy
    import networkx as nx
    import synkit.Synthesis.Reactor.syn_reactor as SR
    from synkit.Graph.Hyrogen._misc import h_to_implicit, has_XH
    o = graph_level(dict(case, opts=None, strategy="all"))
    if "skip" in o:
        return None
    thr, pref = case["opts"]
    if thr == "nraw":                     # exactly the number of matches of the default run: the threshold itself does not bite, the pre-filter may
        thr = int(o["nraw"])
    seen = {}
    orig = SR.deduplicate_matches_by_automorphisms

    def dedup(ms, *a, **k):
        ms = list(ms)
        seen["raw"] = [dict(m) for m in ms]
        return orig(ms, *a, **k)
    SR.deduplicate_matches_by_automorphisms = dedup
    try:
        R = SR.SynReactor(copy.deepcopy(o["host"]), copy.deepcopy(o["tpl"]), invert=bool(case["invert"]), strategy=case["strategy"],
                          embed_threshold=thr, embed_pre_filter=pref, **K.MODES[o["mode"]])
        mappings = [dict(m) for m in R.mappings]
    finally:
        SR.deduplicate_matches_by_automorphisms = orig
    raw = seen.get("raw", mappings)
    host, pat = o["host"], o["pat"]
    hcc, pcc = nx.number_connected_components(host), nx.number_connected_components(pat)
    comp_of = {n: k for k, c in enumerate(nx.connected_components(host)) for n in c}
    pcomp_of = {n: k for k, c in enumerate(nx.connected_components(pat)) for n in c}
    inside = {}
    for n in pat.nodes:
        inside.setdefault(comp_of.get(n), set()).add(pcomp_of[n])
    return dict(o=o, thr=thr, raw=raw, mappings=mappings, sep=[hcc, pcc, 1 if all(len(v) <= 1 for v in inside.values()) else 0],
                nonneg=1 if all(int(d.get("hcount", 0)) >= 0 for _, d in pat.nodes(data=True)) else 0)


def _impl_opts(case):
    from ..tok import S
    pre = case.get("pre")
    if pre is not None and ("error" in pre or "skip" in pre):
        return ["SKIP"]
    lv = _opts_level(case)
    if lv is None:
        return ["SKIP"]
    prune_ok = (pre or {}).get("prune_ok", len(lv["raw"]) <= 1 or lv["o"]["rule"].rc.raw.number_of_nodes() <= MAX_RULE)
    return [lv["nonneg"], lv["sep"], _valence_py(lv["o"]["tpl"], lv["o"]["rule"], bool(case["invert"])),
            [S([K.map_obs(m) for m in lv["raw"]])], [[K.map_obs(m) for m in lv["mappings"]]] if prune_ok else []]


def _prepare_opts(case):
    lv = _opts_level(case)
    if lv is None:
        case["pre"] = {"skip": "outside the precondition"}
        return case
    o = lv["o"]
    if o["host"].number_of_nodes() > (80 if case["opts"][0] == "nraw" else CHK_HOST) or len(lv["raw"]) > MAX_RAW:
        case["pre"] = {"skip": "too large for the model's own enumeration"}
        return case
    # the model prunes the raw list (enumerating the rule's automorphisms) only for small rules or a single raw match
    prune_ok = len(lv["raw"]) <= 1 or o["rule"].rc.raw.number_of_nodes() <= MAX_RULE
    case["pre"] = {"G": _host_json(o["G"]), "H": _host_json(o["H"]), "raw": [K.map_pairs(m) for m in lv["raw"]], "mode": o["mode"], "thr": lv["thr"],
                   "prune_ok": bool(prune_ok)}
    return case


def _coq_opts(case):
    pre = case["pre"]
    thr, pref = pre["thr"], case["opts"][1]
    strat = "(SK.model.C06_Model.SStr %s)" % K.cl([K.cN(b) for b in case.get("strategy", "all").encode()])
    return "run_matching_opts %s %s %s %s %s %s %s true %s" % (
        K.cb(case["core"]), K.cb(case["invert"]), _c_hostj(pre["G"]), _c_hostj(pre["H"]), strat,
        "None" if thr is None else "(Some %s)" % K.cN(thr), K.cb(pref),
        ("(Some %s)" % OB.c_maps(pre["raw"])) if pre.get("prune_ok", True) else "None")


# ------------------------------------------------------------------ OBJECT cases (harness/gen/c04_obj.py)

def _obj_inputs(case):
    """(host, template graph, invert, mode keywords, SynRule object or None, prepared flag) of an object case"""
    if case["obj"] == "crash":
        host, tpl, rule = OB.crash_inputs()
        return host, tpl, False, {}, rule
    o = graph_level(case)
    if "skip" in o:
        return None
    from synkit.IO.chem_converter import rsmi_to_its
    # the template as the caller hands it over: NOT inverted (the reactor inverts)
    kw = K.MODES["S"] if case["obj"] == "ownS" else K.MODES[o["mode"]]
    tplg = rsmi_to_its(case["rsmi"], core=bool(case["core"]))
    rule = None
    if case["obj"] == "ownR":          # the caller prepares a SynRule object in the hydrogen mode of the reaction and hands the OBJECT over
        from synkit.Rule import SynRule
        import copy
        rule = SynRule(copy.deepcopy(tplg), implicit_h=(o["mode"] != "I"))
    return o["host"], tplg, bool(case["invert"]), kw, rule


def _impl_object(case):
    pre = case.get("pre")
    if pre is not None and ("error" in pre or "skip" in pre):
        return ["SKIP"]
    inp = _obj_inputs(case)
    if inp is None:
        return ["SKIP"]
    host, tpl, inv, kw, rule = inp
    rec = OB.record(host, tpl, inv, kw, rule)
    return [1, 1 if rec["flag"] else 0, OB.run(host, tpl, inv, kw, case["script"], rule)]


def _prepare_object(case):
    inp = _obj_inputs(case)
    if inp is None:
        case["pre"] = {"skip": "outside the precondition"}
        return case
    host, tpl, inv, kw, rule = inp
    rec = OB.record(host, tpl, inv, kw, rule)
    if rec["flag"]:
        case["pre"] = {"skip": "explicit-hydrogen path (re-matching is not part of the object model's recorded inputs)"}
        return case
    if len(rec["raw"]) > OB.MAX_RAW:
        case["pre"] = {"skip": "more than %d raw matches" % OB.MAX_RAW}
        return case
    if len(rec["raw"]) > 1 and tpl.number_of_nodes() > MAX_RULE:
        # the pruning enumerates the automorphisms of the rule inside Coq (C11's verified enumerator): minutes for a full ITS of 50+ atoms
        case["pre"] = {"skip": "several raw matches of a rule with more than %d atoms (automorphism enumeration in the model too slow)" % MAX_RULE}
        return case
    pre = {"raw": rec["raw"], "sers": rec["sers"]}
    if case["obj"] == "crash":
        pre["host"], pre["tpl"] = K.c_host(host), K.c_its(tpl)
    else:
        o = graph_level(case)
        pre["G"], pre["H"] = _host_json(o["G"]), _host_json(o["H"])
        pre["mode"] = o["mode"]
    case["pre"] = pre
    return case


def _coq_object(case):
    pre = case["pre"]
    raw, tbl, sc = OB.c_maps(pre["raw"]), OB.c_sers(pre["sers"]), OB.c_script(case["script"])
    if case["obj"] == "crash":
        return ("run_object (RO false true false (SK.model.C06_Model.SMember 0%%N) None false) (Some false) %s %s %s %s %s"
                % (pre["host"], pre["tpl"], raw, tbl, sc))
    fn = {"ownS": "run_object_S", "ownR": "run_object_R"}.get(case["obj"], "run_object_own")
    return "%s %s %s %s %s %s %s %s" % (fn, K.cb(case["core"]), K.cb(case["invert"]), _c_hostj(pre["G"]), _c_hostj(pre["H"]), raw, tbl, sc)


def _impl_kept(case):
    base = _impl_plain(case)
    if base == ["SKIP"]:
        return base
    o = graph_level(case)
    return [base, o["kept_regen"]]


def _impl_plain(case):
    pre = case.get("pre")
    if pre is not None and ("error" in pre or "skip" in pre):
        return ["SKIP"]
    o = graph_level(case)
    if "skip" in o:
        return ["SKIP"]
    mode = o["mode"]
    head = [1 if o["explicit"] else 0, 1 if o["implicit"] else 0, 1 if o["outside"] else 0, 1 if o["consistent"] else 0,
            K.its_obs(o["tpl"]),
            1,                 # pair_wfb: both parsed graphs are simple, on the same atoms with the same elements (recomputed by the model)
            0 if any(d.get("element") == "H" for _, d in o["G"].nodes(data=True)) else 1]
    rule = o["rule"]
    obs = [head, [K.rc_obs(rule.rc.raw, mode == "E"), K.mol_obs(o["left"]), K.mol_obs(rule.right.raw)],
           1 if o["flag"] else 0, K.mol_obs(o["pat"]), K.mol_obs(o["host"]), 1 if o["id_in_raw"] else 0]
    rows = []
    for m, g in zip(o["glue_ms"], o["glued"]):
        # 1, 1: the (re)mapping is a valid match of the pattern / of the rule's reactant side (the model recomputes both)
        rows.append([K.map_obs(m), 1, 1, [] if g is None else [K.its_obs(g)]])
    obs.append(rows)
    fins = []
    for g, f, rb in zip(o["glued"], o["fin"], o["regen"]):
        if g is None or f is None:
            fins.append([])
        else:
            # exact comparison only in implicit mode: which re-materialised hydrogen gets which fresh id depends on the
            # iteration order of a Python set inside _explicit_h (the model sorts); the folded comparison is insensitive to it
            fins.append([K.explicit_h_obs(g, f) if mode == "E" else [], rb[0] if mode == "I" else 0, rb[1]])
    obs.append(fins)
    anyreg = 1 if any(rb is not None and rb[1] for rb in o["regen"]) else 0
    obs.append(anyreg)
    obs.append(anyreg if o["remaps"] is None else 0)
    obs.append(anyreg if o["remaps"] is None else 0)      # its_list on [identity] (model)
    obs.append(1)              # wf_rcb rule.rc && wf_hostb substrate (recomputed by the model)
    # translation validation of the rule preparation, recomputed independently: premises / conclusion of C04_identity_glue_any_rule
    from synkit.Graph.Hyrogen._misc import h_to_implicit
    other = h_to_implicit(o["B"])
    obs.append(_pair_wf_py(o["host"], other))
    obs.append(_describes_py(o["host"], other, rule.rc.raw))
    obs.append([] if o["remaps"] is not None else
               [[] if g is None else (1 if _exact_py(g, o["host"], other) else 0) for g in o["glued"]])
    obs.append(_default_ok_py(o["A"], o["B"], o["tpl"], bool(case["invert"])))      # hypothesis of C04_identity_glue_default
    return obs


def _default_ok_py(A, B, tpl, inv):
    """plain-networkx reading of 'the reaction is written the default-mode way' (model: default_okb)"""
    def isH(g, n):
        return n in g and g.nodes[n].get("element") == "H"
    for n, d in A.nodes(data=True):
        if n not in B or int(d.get("hcount", 0)) != int(B.nodes[n].get("hcount", 0)) or int(d.get("hcount", 0)) < 0:
            return 0
    for g in (A, B):
        for h in g.nodes:
            if isH(g, h):
                nb = list(g.neighbors(h))
                if not nb or any(isH(g, x) for x in nb):
                    return 0
    for h in A.nodes:
        if isH(A, h) and h in tpl:        # a hydrogen atom of the template is there with all its bonds (the others are spectators)
            for g in (A, B):
                for u, v in g.edges():
                    if h in (u, v) and not tpl.has_edge(u, v):
                        return 0
    gs, hs = (1, 0) if inv else (0, 1)
    for h, d in tpl.nodes(data=True):
        if d["typesGH"][gs][0] == "H":
            for side in (0, 1):
                if not any(tpl[h][x]["order"][side] > 0 and tpl.nodes[x]["typesGH"][side][0] != "H" for x in tpl.neighbors(h)):
                    return 0
    return 1


def _pair_wf_py(A, B):
    if set(A.nodes) != set(B.nodes):
        return 0
    for g in (A, B):
        for u, v, d in g.edges(data=True):
            if u == v or not d.get("order", 0) > 0:
                return 0
    return 1 if all(A.nodes[n].get("element") == B.nodes[n].get("element") for n in A.nodes) else 0


def _describes_py(A, B, rc):
    """plain-networkx reading of 'the rule describes the pair (A, B)' (model: describesb)"""
    def order(g, u, v):
        return K.half(g[u][v]["order"]) if g.has_edge(u, v) else 0

    def t3(d):
        return (d.get("element"), int(d.get("hcount", 0)), int(d.get("charge", 0)))
    for u, v, d in rc.edges(data=True):
        if u == v or d["order"][0] < 0 or d["order"][1] < 0:
            return 0
    for n, d in rc.nodes(data=True):
        if n not in A or n not in B:
            return 0
        tG, tH = d["typesGH"]
        x, y = t3(A.nodes[n]), t3(B.nodes[n])
        if not (tG[0] == x[0] and tH[0] == y[0] and tG[3] == x[2] and tH[3] == y[2] and tG[2] <= x[1] and tG[2] - tH[2] == x[1] - y[1]):
            return 0
    for u, v, d in rc.edges(data=True):
        if K.half(d["order"][0]) != order(A, u, v) or K.half(d["order"][1]) != order(B, u, v):
            return 0
    for X, Y in ((A, B), (B, A)):
        for u, v, d in X.edges(data=True):
            if K.half(d["order"]) != order(Y, u, v) and not rc.has_edge(u, v):
                return 0
    for n, d in A.nodes(data=True):
        if n in B and t3(d) != t3(B.nodes[n]) and n not in rc:
            return 0
    return 1


def _exact_py(T, A, B):
    from synkit.Graph.ITS.its_decompose import its_decompose
    l, r = its_decompose(T)
    return G4.side_sig(l) == G4.side_sig(A) and G4.side_sig(r) == G4.side_sig(B)


# ------------------------------------------------------------------ model encoder

def _c_t5(t):
    return "(NA %s %s %s %s %s)" % (K.cN(K.ecode(t[0])), K.cb(t[1]), K.cZ(t[2]), K.cZ(t[3]), K.cl([K.cN(K.ecode(x)) for x in t[4]]))


def _c_hostj(j):
    hn, he = j
    return "(LG %s %s)" % (K.cl(["(%s, %s)" % (K.cN(n), _c_t5((el, ar, hc, ch, nb))) for n, el, ar, hc, ch, nb in hn]),
                           K.cl(["(%s, %s, %s)" % (K.cN(u), K.cN(v), K.cZ(o)) for u, v, o in he]))


def coq_case(case):
    pre = case.get("pre")
    if pre is None:
        pre = prepare(case)["pre"]
    if "error" in pre or "skip" in pre:
        return None
    if case.get("opts"):
        return _coq_opts(dict(case, pre=pre))
    if case.get("obj"):
        return _coq_object(dict(case, pre=pre))
    rm = pre["remaps"]
    cr = "None" if rm is None else "(Some (%s, %s))" % (K.cl([K.cN(n) for n in rm[0]]),
                                                        K.cl([K.cl(["(%s, %s)" % (K.cN(p), K.cN(h)) for p, h in x]) for x in rm[1]]))
    kept = pre.get("kept") or []
    ck = K.cl([K.cl(["(%s, %s)" % (K.cN(p), K.cN(h)) for p, h in x]) for x in kept])
    strat = "(SK.model.C06_Model.SStr %s)" % K.cl([K.cN(b) for b in case.get("strategy", "all").encode()])
    craw = "None" if pre.get("raw") is None else "(Some %s)" % OB.c_maps(pre["raw"])
    term = "run_c04m %s %s %s %s %s %s %s %s %s %s" % (K.cb(case["core"]), K.cb(case["invert"]), K.cb(pre.get("guard", False)),
                                                       _c_hostj(pre["G"]), _c_hostj(pre["H"]), cr, ck, strat,
                                                       K.cb(pre.get("chk_raw", False)), craw)
    if case.get("hist"):
        k = sum(1 for st in HI.SCRIPTS[case["hist"]] if st[0] != "edit")
        return "L [%s; pure_history %d%%nat]" % (term, k)
    return term


# ------------------------------------------------------------------ property oracle

def _tplkind(case):
    return "centre" if case["core"] else "full"


def _dir(case):
    return "bwd" if case["invert"] else "fwd"


def _string_run(sub, tpl, inv, mode, strategy, prune=True):
    import synkit.Synthesis.Reactor.syn_reactor as SR
    orig = SR.deduplicate_matches_by_automorphisms
    if not prune:
        SR.deduplicate_matches_by_automorphisms = lambda ms, *a, **k: list(ms)
    try:
        R = SR.SynReactor(sub, tpl, invert=inv, strategy=strategy, **K.MODES[mode])
        nm = len(R.mappings)
        try:
            ni = len(R.its_list)
        except StopIteration:
            return set(), nm, -1, 0
        sm = R.smarts_list
        return {K.std_fit(s) for s in sm}, nm, ni, len(sm)
    finally:
        SR.deduplicate_matches_by_automorphisms = orig


def _sub_is_implicit_form(sub, host):
    """contract of the string level: the unmapped side parses to the implicit-hydrogen form of the mapped side"""
    import networkx as nx
    from synkit.IO.chem_converter import smiles_to_graph
    g = smiles_to_graph(sub, use_index_as_atom_map=False, drop_non_aam=False)
    if g is None:
        return False
    nm = lambda a, b: (a.get("element"), a.get("charge", 0), a.get("hcount", 0), bool(a.get("aromatic"))) == \
                      (b.get("element"), b.get("charge", 0), b.get("hcount", 0), bool(b.get("aromatic")))
    em = lambda a, b: a.get("order") == b.get("order")
    if g.number_of_nodes() != host.number_of_nodes() or g.number_of_edges() != host.number_of_edges():
        return False
    return nx.is_isomorphic(g, host, node_match=nm, edge_match=em)


def oracle(case):
    if case.get("obj") or case.get("opts"):
        return []            # correspondence only: the VALUES of the reads are compared with the state machine of the model
    fails = _oracle_plain(case)
    if case.get("hist") and not (case.get("pre") or {}).get("skip"):
        try:
            recs = history(case)
        except Exception as e:
            return fails + [dict(clause="history-crash", detail="%s: %s" % (type(e).__name__, str(e)[:300]))]
        base = "%s:%s:%s:%s" % (case.get("cid"), _tplkind(case), _dir(case), case["hist"])
        for rec in recs:
            if rec.get("demand") and rec.get("tgt_fresh") and not rec.get("tgt_shared"):
                fails.append(dict(clause="history-lost", key="%s:%s:lost" % (base, rec["label"].replace(" ", "-")),
                                  detail="step %d (%s): the reaction is among the results of a fresh evaluation but not of the shared objects; %s"
                                         % (rec["step"], rec["label"], rec.get("detail", ""))))
            elif rec.get("modified"):
                fails.append(dict(clause="template-object-modified", key="%s:%s:modified" % (base, rec["label"].replace(" ", "-")),
                                  detail="step %d (%s): %s" % (rec["step"], rec["label"], rec.get("detail", ""))))
            elif not rec["equal"]:
                fails.append(dict(clause="history-differs", key="%s:%s:differs" % (base, rec["label"].replace(" ", "-")),
                                  detail="step %d (%s): %s" % (rec["step"], rec["label"], rec.get("detail", ""))))
    return fails[:6]


def _oracle_plain(case):
    """The property itself: Standardize both, apply the reaction's own template to the unmapped reactants (products,
    backwards) and look for the reaction among the standardised outputs.  Every miss is triaged (DESIGN C04 (i)-(v))."""
    K.quiet()
    pre = case.get("pre")
    if pre is not None and "skip" in pre:
        return []                                   # (i) outside the precondition
    try:
        o = graph_level(case)
    except Exception as e:
        return [dict(clause="graph-level-crash", detail="%s: %s" % (type(e).__name__, str(e)[:300]))]
    if "skip" in o:
        return []
    r, core, inv, strategy, mode = case["rsmi"], bool(case["core"]), bool(case["invert"]), case.get("strategy", "all"), o["mode"]
    tgt = K.std_fit(r)
    if tgt is None:
        return []                                   # (i) Standardize cannot write the reaction
    a, b = tgt.split(">>")
    sub = b if inv else a
    base = "%s:%s:%s" % (case.get("cid", case.get("name", "?")), _tplkind(case), _dir(case))
    fails = []
    try:
        res, nm, ni, ns = _string_run(sub, o["tpl"], inv, mode, strategy)
    except Exception as e:
        return [dict(clause="reactor-crash", detail="%s: %s" % (type(e).__name__, str(e)[:300]))]
    if tgt in res:
        # string level regenerates: the graph level must agree (a regenerating ITS among its_list)
        if not o["in_its_list"] and not (core and o["outside"]):
            fails.append(dict(clause="graph-level-disagrees",
                              detail="the reaction is among the standardised outputs but no ITS of its_list on the graph substrate decomposes to it"))
        return fails
    # ---------------- a miss: triage
    regen_id = any(rb is not None and rb[1] for rb in o["regen"])
    if o["guard"]:
        # documented strict_cc_count guard of the COMPONENT strategy (substrate has more components than the pattern):
        # the engine returns nothing by design (C06); `comp` promises matches only without spectator components
        if o["nraw"] == 0:
            return [dict(clause="comp-guard-region", key=base + ":comp:guard",
                         detail="strategy comp returns no match at all when the substrate has more connected components than the pattern "
                                "(strict_cc_count, C06): the own template does not regenerate the reaction under comp")]
        return [dict(clause="comp-guard", detail="guard region but %d raw matches" % o["nraw"])]
    if core and o["outside"]:
        # (ii) the centre cannot carry the change: expected, but only if that is the whole explanation
        if o["id_in_raw"] and _explained_by_outside(o):
            return [dict(clause="outside-centre-change", key=base + ":outside-centre-change",
                         detail="atoms %r change charge / hydrogen count without a bond change: not in the centre, the centre template leaves them as they are"
                                % (o["outside"][:6],))]
        return [dict(clause="outside-centre-change-unexplained",
                     detail="centre template misses the reaction and the difference is not confined to the atoms %r outside the centre" % (o["outside"][:6],))]
    if not _sub_is_implicit_form(sub, o["host"]):
        return [dict(clause="substrate-parse", detail="unmapped side %r does not parse to the implicit-hydrogen form of the mapped side" % sub)]
    if o["nonsep_excluded"]:
        return [dict(clause="not-separating", key="%s:%s:not-separating" % (base, strategy),
                     detail="strategy %s returns only matches that put different pattern components into different substrate components "
                            "(C06): the identity, a valid match, puts two of the %d pattern components into one molecule and is not returned"
                            % (strategy, pcc_of(o)))]
    if not o["id_in_raw"]:
        return [dict(clause="no-identity-match", detail="identity is not among the %d raw matches of the own template (mode %s)" % (o["nraw"], mode))]
    if o["flag"] and not o["remaps"]:
        return [dict(clause="explicit-rematch-empty", key=base + ":explicit-rematch-empty",
                     detail="identity is a raw match but _get_explicit_map returns no re-match of the explicit-hydrogen pattern on the expanded substrate: no ITS is built")]
    if not regen_id:
        return [dict(clause="glue", detail="the ITS glued along the identity match does not decompose to the reaction (graph level, before RDKit)")]
    try:
        res2, nm2, ni2, ns2 = _string_run(sub, o["tpl"], inv, mode, strategy, prune=False)
    except Exception as e:
        return [dict(clause="reactor-crash", detail="unpruned run: %s: %s" % (type(e).__name__, str(e)[:300]))]
    if tgt in res2:
        return [dict(clause="pruned", detail="the regenerating match is removed by the automorphism pruning (%d -> %d mappings)" % (nm2, nm))]
    if ni2 == -1:
        return [dict(clause="explicit-h-crash", detail="_explicit_h raises StopIteration")]
    if ns2 < ni2:
        return [dict(clause="rdkit-drop", detail="%d of %d glued ITS graphs are dropped by _to_smarts (RDKit refuses them); the regenerating one is not returned" % (ni2 - ns2, ni2))]
    return [dict(clause="not-among-results", detail="graph level regenerates, %d results returned, none standardises to the reaction" % ns2)]


def pcc_of(o):
    import networkx as nx
    return nx.number_connected_components(o["pat"])


def _explained_by_outside(o):
    """for a category-(ii) miss: the ITS glued along the identity differs from the reaction exactly on the product-side
    hydrogen count / charge of the atoms outside the centre"""
    from synkit.Graph.ITS.its_decompose import its_decompose
    out = set(o["outside"])
    for f in o["fin"]:
        if f is None:
            continue
        l, r = its_decompose(f)
        if G4.folded_sig(l) != G4.folded_sig(o["A"]):
            continue
        rn, re_, rf = G4.folded_sig(r)
        bn, be, bf = G4.folded_sig(o["B"])
        if re_ != be or rf != bf:
            continue
        diff = {x[0] for x in set(rn) ^ set(bn)}
        if diff and diff <= out:
            return True
    return False


# ------------------------------------------------------------------ evidence helpers

def _unwrap(case, obs):
    """observable layers: [[plain, kept bit], history bits] / [plain, kept bit]"""
    if case.get("obj") or case.get("opts"):
        return ["SKIP"]
    if case.get("hist") and isinstance(obs, list) and len(obs) == 2 and isinstance(obs[0], list):
        obs = obs[0]
    if isinstance(obs, list) and len(obs) == 2 and isinstance(obs[0], list) and isinstance(obs[1], list) and len(obs[1]) == 5:
        obs = obs[0]          # drop the matching stage
    if isinstance(obs, list) and len(obs) == 2 and isinstance(obs[0], list) and obs[1] in (0, 1):
        obs = obs[0]
    return obs


def nontrivial(case, obs):
    obs = _unwrap(case, obs)
    if not isinstance(obs, list) or not obs or obs[0] in ("SKIP", "EXC"):
        return False
    return bool(obs[5]) and (case.get("pre") or {}).get("nchanged", 0) >= 2


def distribution(cases, obss):
    d = dict(mode={}, template={}, direction={}, strategy={}, variant={}, skipped=0, identity_in_raw=0, regenerated_graph_level=0,
             implicit_mode_with_H_atoms=0,
             explicit_rematch_path=0, outside_centre_change=0, corpus={}, distinct_reactions=0, comp_guard_region=0,
             rule_describes_pair={"E": 0, "I": 0}, glued_is_pair_before_explicit_h={"E": 0, "I": 0}, default_okb={"E": 0, "I": 0})
    rx = set()
    d["history_scripts"] = {}
    d["history_steps"] = 0
    for c, o in zip(cases, obss):
        if not isinstance(o, list) or not o or o[0] in ("SKIP", "EXC"):
            d["skipped"] += 1
            continue
        if c.get("opts"):
            oc = d.setdefault("option_cases", dict(cases=0, engine_returned_nothing=0, by_option={}))
            oc["cases"] += 1
            oc["by_option"][str(c["opts"])] = oc["by_option"].get(str(c["opts"]), 0) + 1
            if len(o) == 5 and o[3] and not o[3][0].get("__set__"):
                oc["engine_returned_nothing"] += 1
            continue
        if c.get("obj"):
            oc = d.setdefault("object_cases", dict(cases=0, reads=0, raised=0, scripts={}))
            oc["cases"] += 1
            oc["scripts"][c["script"]] = oc["scripts"].get(c["script"], 0) + 1
            if len(o) == 3 and isinstance(o[2], list):
                oc["reads"] += len(o[2])
                oc["raised"] += sum(1 for v in o[2] if v == [])
            continue
        if c.get("hist") and len(o) == 2 and isinstance(o[0], list):
            d["history_scripts"][c["hist"]] = d["history_scripts"].get(c["hist"], 0) + 1
            d["history_steps"] += len(o[1])
            if o[0] and o[0][0] == "SKIP":
                continue
            o = o[0]
        if isinstance(o, list) and len(o) == 2 and isinstance(o[1], list) and len(o[1]) == 5 and isinstance(o[0], list):
            mt = d.setdefault("matching_stage", dict(raw_enumerated_by_model=0, pruning_by_model=0, pruned_away=0, identity_separating=0,
                                                      fewer_substrate_components=0, more_substrate_components=0))
            mt["raw_enumerated_by_model"] += 1 if o[1][3] else 0
            mt["pruning_by_model"] += 1 if o[1][4] else 0
            mt["valence_ok"] = mt.get("valence_ok", 0) + o[1][2]
            mt["identity_separating"] += o[1][1][2]
            mt["fewer_substrate_components"] += 1 if o[1][1][0] < o[1][1][1] else 0
            mt["more_substrate_components"] += 1 if o[1][1][0] > o[1][1][1] else 0
            pre0 = c.get("pre") or {}
            if o[1][4] and pre0.get("raw") is not None:
                mt["pruned_away"] += max(0, len(pre0["raw"]) - len(o[1][4][0]))
            o = o[0]
        if isinstance(o, list) and len(o) == 2 and isinstance(o[0], list) and o[1] in (0, 1):
            d["kept_regenerates"] = d.get("kept_regenerates", 0) + o[1]
            o = o[0]
        pre = c.get("pre") or {}
        for k, v in (("mode", pre.get("mode")), ("template", _tplkind(c)), ("direction", _dir(c)), ("strategy", c.get("strategy")),
                     ("variant", "original" if not c.get("variant") else "rewritten"), ("corpus", str(c.get("cid", "?")).split("#")[0].split(":")[0])):
            d[k][v] = d[k].get(v, 0) + 1
        rx.add(c.get("cid"))
        d["comp_guard_region"] += 1 if pre.get("guard") else 0
        d["identity_not_separating"] = d.get("identity_not_separating", 0) + (1 if pre.get("nonsep") else 0)
        if len(o) >= 15 and pre.get("mode") in ("E", "I"):
            d["rule_describes_pair"][pre["mode"]] += 1 if o[13] else 0
            d["glued_is_pair_before_explicit_h"][pre["mode"]] += 1 if (o[14] and o[14][0] == 1) else 0
            if len(o) >= 16:
                d["default_okb"][pre["mode"]] += 1 if o[15] else 0
        if pre.get("mode") == "I" and isinstance(o[0], list) and len(o[0]) >= 7 and not o[0][6]:
            d["implicit_mode_with_H_atoms"] = d.get("implicit_mode_with_H_atoms", 0) + 1
        d["identity_in_raw"] += 1 if o[5] else 0
        d["regenerated_graph_level"] += 1 if o[8] else 0
        d["explicit_rematch_path"] += 1 if o[2] else 0
        d["outside_centre_change"] += 1 if (o[0][2] and c.get("core")) else 0
    d["distinct_reactions"] = len(rx)
    return d


# ------------------------------------------------------------------ generators

def _index():
    return json.load(open(os.path.join(K.VERIF, "corpus", "C04_index.json")))


def build_index():
    """corpus/C04_index.json: for every corpus reaction whether it satisfies the precondition, its hydrogen mode and whether
    a charge / hydrogen change lies outside the centre (used for SAMPLING only; every run re-decides from the input)."""
    K.quiet()
    from synkit.IO.chem_converter import rsmi_to_its
    from synkit.Graph.ITS.its_decompose import get_rc
    C = K.corpus()
    idx = {}
    for name in ("usp", "eco"):
        rows = []
        for i, r in enumerate(C[name]):
            ok, why = G4.wellformed(r)
            if not ok:
                rows.append([i, False, why, None, False])
                continue
            its = rsmi_to_its(r)
            rc = get_rc(its)
            ex, im, outside = G4.classify(its, rc)
            if not G4.consistent_H(ex, im):
                rows.append([i, False, "hydrogens not written consistently", None, False])
                continue
            rows.append([i, True, "", G4.mode_of(ex), bool(outside)])
        idx[name] = rows
    return idx


def _mk(cid, r0, core, inv, strategy, k, rng):
    r = r0 if (k == 0 or not G4.wellformed(r0)[0]) else G4.rewrite(r0, rng)
    return dict(kind="%s-%s-%s" % (cid.split("#")[0].split(":")[0], "centre" if core else "full", "bwd" if inv else "fwd"),
                name="%s:%s:%s:k%d:%s" % (cid, "centre" if core else "full", "bwd" if inv else "fwd", k, strategy),
                cid=cid, rsmi=r, core=core, invert=inv, strategy=strategy, variant=k)


def _mk_hist(hname, r, core, inv, strategy, script):
    c = _mk("hand:" + hname, r, core, inv, strategy, 0, None)
    c["kind"] = "history-" + script
    c["name"] = "%s:hist:%s" % (c["name"], script)
    c["hist"] = script
    return c


def _hist_cases(tier, rng):
    hand = dict(HAND)
    out = []
    for hname in HIST_RX:
        r = hand[hname]
        for script in sorted(HI.SCRIPTS):
            reads = HI.SCRIPTS[script][0][0] == "read"
            combos = [(c, i) for c in (True, False) for i in (False, True)] if reads else [(c, False) for c in (True, False)]
            if tier == "quick":
                # reads of a shared reactor: backwards always (reversal / inversion state), one forward; object reuse: both templates
                combos = ([(rng.random() < 0.5, True), (rng.random() < 0.5, False)] if reads else combos)
            for core, inv in combos:
                out.append(_mk_hist(hname, r, core, inv, rng.choice(["all", "comp", "bt"]) if reads else "all", script))
    return out


def _mk_obj(hname, r, core, inv, script):
    c = _mk("hand:" + hname, r, core, inv, "all", 0, None)
    c["kind"] = "object-" + script
    c["name"] = "%s:obj:%s" % (c["name"], script)
    c["obj"] = "own"
    c["script"] = script
    return c


def _opts_cases(tier, rng, corpus_pick=()):
    out = []
    # corpus reactions, full ITS, embed_threshold = the number of matches: without the pre-filter everything is returned, with it the candidate
    # product of a whole molecule exceeds threshold x 1e4 and nothing is
    for cid, r in corpus_pick:
        for pf in (True, False):
            c = _mk(cid, r, False, False, "all", 0, None)
            c.update(kind="options", name="%s:opts:nraw:%s" % (c["name"], "pf" if pf else "nopf"), opts=["nraw", pf])
            out.append(c)
    # the pre-filter only bites when the candidate product exceeds threshold x 1e4 while the true number of matches does not exceed the
    # threshold: full ITS of a benzene ring (6^6 candidates, 2 matches) with embed_threshold = 2, with and without the pre-filter
    for hname, opt in (("aromatic-sub", (2, True)), ("aromatic-sub", (2, False)), ("diels-alder", (4, True)), ("diels-alder", (4, False))):
        for st in ("all", "bt"):
            c = _mk("hand:" + hname, dict(HAND)[hname], False, False, st, 0, None)
            c.update(kind="options", name="%s:opts:%s:%s" % (c["name"], opt[0], "pf" if opt[1] else "nopf"), opts=list(opt))
            out.append(c)
    for hname, r in HAND:
        for core in (True, False):
            for inv in ((False, True) if tier != "quick" else (rng.random() < 0.5,)):
                for opt in rng.sample(OPTS, 2 if tier == "quick" else 4):
                    c = _mk("hand:" + hname, r, core, inv, rng.choice(["all", "comp", "bt"]), 0, None)
                    c.update(kind="options", name="%s:opts:%s:%s" % (c["name"], opt[0], "pf" if opt[1] else "nopf"), opts=list(opt))
                    out.append(c)
    return out


def _obj_cases(tier, rng, corpus_pick=()):
    """one reactor OBJECT per case, a script of reads, every VALUE compared with the state machine of model/C04_Reactor.v"""
    out = []
    hand = dict(HAND)
    scripts = sorted(OB.SCRIPTS)
    # corpus reactions (usp: default mode with _explicit_h over the list; eco: implicit mode, charges): one script each, random template / direction
    for cid, r in corpus_pick:
        c = _mk(cid, r, rng.random() < 0.5, rng.random() < 0.5, "all", 0, None)
        sc = rng.choice(scripts)
        c.update(kind="object-" + sc, name="%s:obj:%s" % (c["name"], sc), obj="own", script=sc)
        out.append(c)
    for hname, r in HAND:
        for core in (True, False):
            for inv in (False, True):
                for sc in (scripts if (tier != "quick" or hname in HIST_RX) else [rng.choice(scripts)]):
                    out.append(_mk_obj(hname, r, core, inv, sc))
    # the third hydrogen mode the options allow (explicit_h=False without implicit_temp: default-mode rule, no _explicit_h stage)
    for hname in HIST_RX:
        for core, inv in ((True, False), (False, True)):
            c = _mk_obj(hname, hand[hname], core, inv, rng.choice(scripts))
            c.update(obj="ownS", kind="object-modeS", name=c["name"] + ":modeS")
            out.append(c)
    # the template handed over as a SynRule OBJECT, forwards (used as it is) and backwards (its prepared rc is inverted, not prepared again)
    for hname in HIST_RX + ["quaternisation", "deprotonation-explicit", "amide-charge"]:
        if hname not in hand:
            continue
        for core, inv in ((True, True), (False, False), (rng.random() < 0.5, True)):
            c = _mk_obj(hname, hand[hname], core, inv, rng.choice(scripts))
            c.update(obj="ownR", kind="object-synrule", name=c["name"] + ":synrule")
            out.append(c)
    for sc in scripts:
        out.append(dict(kind="object-crash", name="hand:crash-rule:obj:%s" % sc, cid="hand:crash-rule", obj="crash", script=sc,
                        core=True, invert=False, strategy="all", variant=0, rsmi=""))
    return out


def gen_cases(tier, rng):
    K.quiet()
    C = K.corpus()
    idx = _index()
    strategies = ["all", "comp", "bt"]
    cases = []
    good = {n: [row for row in idx[n] if row[1]] for n in ("usp", "eco")}
    if tier == "quick":
        pool_u = [row[0] for row in good["usp"] if row[0] != 21]
        pool_e_in = [row[0] for row in good["eco"] if not row[4] and "eco#%d" % row[0] not in SLOW]
        pool_e_out = [row[0] for row in good["eco"] if row[4] and "eco#%d" % row[0] not in SLOW]
        pick = [("usp", i) for i in rng.sample(pool_u, 9)] + [("eco", i) for i in rng.sample(pool_e_in, 16)] \
            + [("eco", i) for i in rng.sample(pool_e_out, 4)]
        for name, i in pick:
            cid = "%s#%d" % (name, i)
            for core in (True, False):
                for inv in (False, True):
                    cases.append(_mk(cid, C[name][i], core, inv, rng.choice(strategies), 0, rng))
                    cases.append(_mk(cid, C[name][i], core, inv, rng.choice(strategies), 1, rng))
        # the explicit-hydrogen re-match finding (reductive amination with H2, backwards), centre only: the full ITS takes minutes
        cases.append(_mk("usp#21", C["usp"][21], True, True, "all", 0, rng))
        cases.append(_mk("usp#21", C["usp"][21], True, False, "all", 1, rng))
        cases.append(_mk("usp#21", C["usp"][21], False, False, "all", 0, rng))
        hand_k = (0, 1)
    else:
        for name in ("usp", "eco"):
            for row in idx[name]:
                i = row[0]
                cid = "%s#%d" % (name, i)
                if not row[1]:
                    # malformed / inconsistent entries: one case each, must be recognised as outside the precondition
                    if isinstance(C[name][i], str) and C[name][i].count(">>") == 1:
                        cases.append(_mk(cid, C[name][i], True, False, "all", 0, rng))
                    continue
                for core in (True, False):
                    for inv in (False, True):
                        slow21 = (cid == "usp#21" and inv and not core)
                        # original + 1 rewriting (time budget: <= 20 min also on a busy machine)
                        for k in ((0,) if slow21 else (0, 1)):
                            cases.append(_mk(cid, C[name][i], core, inv, "all" if k == 0 else rng.choice(strategies), k, rng))
        hand_k = (0, 1, 2, 3)
    for hname, r in HAND:
        for core in (True, False):
            for inv in (False, True):
                if hname in ALL_STRATEGIES:
                    # every strategy on the original string, a random one on each rewriting
                    for st in strategies:
                        cases.append(_mk("hand:" + hname, r, core, inv, st, 0, rng))
                    for k in hand_k[1:]:
                        cases.append(_mk("hand:" + hname, r, core, inv, rng.choice(strategies), k, rng))
                else:
                    for k in hand_k:
                        cases.append(_mk("hand:" + hname, r, core, inv, rng.choice(strategies), k, rng))
    cases += _hist_cases(tier, rng)
    if tier == "quick":
        opick = [("%s#%d" % (name, i), C[name][i]) for name, i in pick[:5] + pick[9:14]]
    else:
        opick = [("%s#%d" % (name, row[0]), C[name][row[0]]) for name in ("usp", "eco") for row in good[name][::4]
                 if "%s#%d" % (name, row[0]) not in SLOW and not (name == "usp" and row[0] == 21)]
    cases += _obj_cases(tier, rng, opick)
    cases += _opts_cases(tier, rng, opick[:4] if tier == "quick" else opick[:16])
    return prepare_all(cases)


LEVEL_TEXT = ("Machine-checked proof (Coq, 46 theorems) over an executable model of the round trip reaction -> template (ITS construction, reaction centre, "
              "SynRule preparation, _invert_template) -> SynReactor OBJECT on the reaction's own reactants / products (options, pattern preparation, "
              "engine call through C06's model of find_subgraph_mappings, pruning by rule automorphisms through C11's model, _glue_graph, _explicit_h, "
              "its_list / smarts_list with their caches, reverse_reaction). Strategy ALL, both branches of the precondition: under C06's contract for "
              "the one VF2 enumeration a fresh reactor built from the own template has in its_list an ITS that decomposes to the reaction - implicit "
              "mode: exactly, and given RDKit's strings for its sides the reaction string is in smarts_list (turned round again backwards); default "
              "mode (explicit centre hydrogens): in implicit-hydrogen normal form after _strip_explicit_h, gluing and _explicit_h (the re-materialised "
              "hydrogens fold back exactly; _explicit_h is proved never to raise on any ITS glued from the prepared rule when every template hydrogen has "
              "at most as many bonds before as after - a boolean evaluated on every case) - for the full ITS always and for the centre exactly when no atom outside "
              "the centre changes charge or hydrogen count, forwards and backwards. Strategies comp / bt: proved to regenerate whenever the substrate has "
              "fewer components than the pattern or the identity separates the pattern components (bt also in the strict_cc_count guard region; for "
              "every embed_threshold, the default included, that is not below C06's explicit bound comp_bound), and REFUTED otherwise by witnesses (known findings: identity not separating; comp guard region). Reads of one reactor object in any order and number equal fresh reads (and the exact stale "
              "state after a StopIteration is described). The model is tied to the Python code by comparing every intermediate graph, the raw matches "
              "(enumerated by the model's verified enumerator under the same options), the kept mappings and the VALUE of every read of reactor objects "
              "on corpus reactions, their atom-map renumberings and SMILES rewritings on every run; the property itself is run end to end by an "
              "independent oracle.")
LEVEL_NOTE = ("Trusted: Coq kernel + vm_compute; the hand-written models and harness encoders; RDKit parsing / serialisation and VF2 matching are oracle "
              "inputs (raw matches compared with the model's verified enumeration when small). Tested, not proved: the H2 / H+ re-match path of the "
              "default mode (outside the boolean preconditions default_okb / own_valence_okb); RDKit serialisation and Standardize.fit; invariance under renumbering / rewriting (run on "
              "rewritten inputs). Known: centre templates cannot regenerate reactions with a charge / hydrogen change away from any changed bond "
              "(56 ecoli reactions); explicit-hydrogen re-matching fails for a backwards template that keeps H2 explicit (usp#21); strategies comp / bt "
              "lose an intramolecular reaction next to a spectator offering the missing group (by C06's specification of the strategies).")
TECHNIQUE = "Coq proof about a Gallina model + per-run correspondence (vm_compute digest vs implementation) + independent property oracle"
DESIGN_REF = "DESIGN.md section 5 C04; section 7 row 19; notes/C04.md"
